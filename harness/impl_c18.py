"""C18 implementation side.

In-process: pypyr.cli.get_args / cli.main (runner replaced by a recorder or a scripted raiser),
Pipeline.run (load_and_run_pipeline replaced by a scripted raiser), the seven parsers,
Pipeline._get_parse_input, pipelinerunner.run on small on-disk pipelines (initial context).

Subprocess: `<python> -m pypyr …` with PYTHONPATH=$PYPYR_REPO in a scratch directory holding the
generated pipeline files. SIGINT is delivered by the harness once the pipeline has created a marker
file (explicit hand-off, no sleeps for ordering); every wait has a watchdog that raises Infra.
"""
from __future__ import annotations

import contextlib
import io
import json
import os
import shutil
import signal
import subprocess
import sys
import tempfile
import time

from . import common

PY = sys.executable
PROC_TIMEOUT = 60.0
MARKER_TIMEOUT = 30.0


# --------------------------------------------------------------------------
# in-process
# --------------------------------------------------------------------------

def quiet_logging():
    import logging
    logging.getLogger('pypyr').setLevel(logging.CRITICAL + 10)
    logging.getLogger().setLevel(logging.CRITICAL + 10)


def get_args_obs(argv):
    """pypyr.cli.get_args -> {'usage': True} | {'ok': {...}}"""
    import pypyr.cli
    from pypyr.config import config
    buf = io.StringIO()
    try:
        with contextlib.redirect_stderr(buf), contextlib.redirect_stdout(buf):
            a = pypyr.cli.get_args(list(argv))
    except SystemExit as e:
        if e.code == 2:
            return {'usage': True}
        return {'exit': e.code}
    d = a.py_dir
    return {'ok': {'name': a.pipeline_name, 'ctx': a.context_args, 'groups': a.groups,
                   'success': a.success_group, 'failure': a.failure_group,
                   'dir': None if d == config.cwd else str(d), 'log': a.log_level, 'logpath': a.log_path}}


class _Patched:
    """cli.main with the runner, config.init and logger set-up replaced."""

    def __init__(self, runner):
        self.runner = runner

    def __enter__(self):
        import pypyr.cli
        import pypyr.pipelinerunner
        import pypyr.log.logger
        from pypyr.config import config
        self.saved = (pypyr.pipelinerunner.run, pypyr.log.logger.set_root_logger, config.__class__.init)
        pypyr.pipelinerunner.run = self.runner
        pypyr.log.logger.set_root_logger = lambda *a, **k: None
        config.__class__.init = lambda self_: None
        return self

    def __exit__(self, *exc):
        import pypyr.pipelinerunner
        import pypyr.log.logger
        from pypyr.config import config
        pypyr.pipelinerunner.run, pypyr.log.logger.set_root_logger, config.__class__.init = self.saved
        return False


def main_call_obs(argv):
    """What cli.main hands to pipelinerunner.run for this argv."""
    import pypyr.cli
    from pypyr.config import config
    seen = {}

    def rec(**kw):
        seen.update(kw)
    buf = io.StringIO()
    with _Patched(rec):
        try:
            with contextlib.redirect_stderr(buf), contextlib.redirect_stdout(buf):
                ret = pypyr.cli.main(list(argv))
        except SystemExit as e:
            return {'usage': True} if e.code == 2 else {'exit': e.code}
    if not seen:
        return {'not_called': True, 'ret': ret}
    d = seen.get('py_dir')
    call = {'pipeline_name': seen.get('pipeline_name'), 'args_in': seen.get('args_in'),
            'parse_args': seen.get('parse_args'), 'groups': seen.get('groups'),
            'success_group': seen.get('success_group'), 'failure_group': seen.get('failure_group'),
            'py_dir': None if d == config.cwd else str(d)}
    extra = sorted(set(seen) - set(call))
    if extra:
        call['extra_kwargs'] = extra
    return {'call': call, 'ret': ret}


def make_exc(raised):
    import pypyr.errors as E
    k = raised['kind']
    if k == 'nothing':
        return None
    if k == 'stop':
        return E.Stop()
    if k == 'stopPipeline':
        return E.StopPipeline()
    if k == 'stopStepGroup':
        return E.StopStepGroup()
    if k == 'keyboardInterrupt':
        return KeyboardInterrupt()
    ty = raised['ty']
    import builtins
    cls = getattr(builtins, ty, None) or getattr(E, ty, None)
    if cls is None:
        cls = type(ty, (Exception,), {})
    if ty == 'KeyError':
        raise ValueError('KeyError changes its message; not used')
    return cls(raised['msg'])


def main_ladder_obs(raised, log_level=None):
    """cli.main when pipelinerunner.run raises the scripted exception."""
    import pypyr.cli
    exc = make_exc(raised)

    def runner(**kw):
        if exc is not None:
            raise exc
    out, err = io.StringIO(), io.StringIO()
    argv = ['pipe'] + (['--log', str(log_level)] if log_level is not None else [])
    with _Patched(runner):
        with contextlib.redirect_stderr(err), contextlib.redirect_stdout(out):
            ret = pypyr.cli.main(argv)
    return {'ret': ret, 'stdout': out.getvalue(), 'stderr': err.getvalue()}


def pipeline_run_obs(raised):
    """Pipeline.run when load_and_run_pipeline raises the scripted exception: what escapes."""
    from pypyr.pipeline import Pipeline
    from pypyr.context import Context
    import pypyr.errors as E
    exc = make_exc(raised)
    p = Pipeline('x')

    def boom(self, context, parent=None):
        if exc is not None:
            raise exc
    saved = Pipeline.load_and_run_pipeline
    Pipeline.load_and_run_pipeline = boom
    try:
        try:
            p.run(Context())
        finally:
            Pipeline.load_and_run_pipeline = saved
        return 'nothing'
    except KeyboardInterrupt:
        return 'keyboardInterrupt'
    except E.StopPipeline:
        return 'stopPipeline'
    except E.StopStepGroup:
        return 'stopStepGroup'
    except E.Stop:
        return 'stop'
    except Exception:
        return 'error'


def parser_obs(parser, args):
    import importlib
    mod = importlib.import_module(parser)
    try:
        r = mod.get_parsed_context(None if args is None else list(args))
    except Exception as e:
        return {'err': {'name': common.exc_name(e)}}
    from collections.abc import Mapping
    if r is None:
        return {'ok': None}
    if isinstance(r, Mapping):
        return {'ok': common.enc(dict(r))}
    try:
        return {'ok': {'not-a-mapping': common.enc(r)}}
    except Exception:
        return {'ok': {'not-a-mapping': repr(r)[:200]}}


def parse_input_obs(parse_args, args_in, dict_in):
    from pypyr.pipeline import Pipeline
    return bool(Pipeline._get_parse_input(parse_args=parse_args, args_in=args_in, dict_in=dict_in))


class ApiScratch:
    """On-disk pipelines `p_<parser>.yaml` (one per built-in parser, one without) for API runs."""

    def __init__(self, parsers):
        self.dir = tempfile.mkdtemp(prefix='c18api_')
        for p in list(parsers) + [None]:
            body = {'steps': [{'name': 'pypyr.steps.contextsetf', 'in': {'contextSetf': {}}}]}
            if p:
                body['context_parser'] = p
            with open(os.path.join(self.dir, self.fname(p) + '.yaml'), 'w') as f:
                f.write(json.dumps(body, indent=1))

    @staticmethod
    def fname(p):
        return 'p_' + (p.rsplit('.', 1)[1] if p else 'none')

    def run(self, parser, parse_args, args_in, dict_in):
        import copy
        import pypyr.pipelinerunner
        name = os.path.join(self.dir, self.fname(parser))
        try:
            ctx = pypyr.pipelinerunner.run(name, args_in=None if args_in is None else list(args_in),
                                           parse_args=parse_args,
                                           dict_in=None if dict_in is None else copy.deepcopy(dict_in))
        except Exception as e:
            return {'err': {'name': common.exc_name(e)}}
        d = dict(ctx)
        d.pop('contextSetf', None)
        return {'ok': common.enc(d)}

    def close(self):
        shutil.rmtree(self.dir, ignore_errors=True)


# --------------------------------------------------------------------------
# subprocess
# --------------------------------------------------------------------------

def check_import_path():
    """`python -m pypyr` must import the tree under test."""
    env = child_env()
    p = subprocess.run([PY, '-c', 'import pypyr, sys; sys.stdout.write(pypyr.__file__)'], env=env,
                       stdout=subprocess.PIPE, stderr=subprocess.PIPE, text=True, timeout=60, cwd='/')
    f = p.stdout.strip()
    if p.returncode != 0 or not f.startswith(str(common.REPO) + os.sep):
        raise common.Infra(f'python -m pypyr would import {f!r}, not {common.REPO} ({p.stderr[-300:]})')


def child_env(home=None):
    env = {k: v for k, v in os.environ.items() if k in ('PATH', 'LANG', 'LC_ALL', 'LC_CTYPE', 'TMPDIR')}
    env['PYTHONPATH'] = str(common.REPO)
    env['PYTHONDONTWRITEBYTECODE'] = '1'
    env['PYTHONIOENCODING'] = 'utf-8'
    if home:
        env['HOME'] = home
    return env


def run_proc(case):
    """Run one subprocess case. case: {'files': {rel: text}, 'argv': [...], 'sigint': bool, 'cwd'?: rel}.
    '@TMP@' in file contents / argv stands for the scratch directory."""
    d = tempfile.mkdtemp(prefix='c18p_')
    try:
        for rel, txt in case['files'].items():
            path = os.path.join(d, rel)
            os.makedirs(os.path.dirname(path), exist_ok=True)
            with open(path, 'w', encoding='utf-8') as f:
                f.write(txt.replace('@TMP@', d).replace('@PY@', PY))
        argv = [a.replace('@TMP@', d) for a in case['argv']]
        cwd = os.path.join(d, case.get('cwd', 'work'))
        os.makedirs(cwd, exist_ok=True)
        p = subprocess.Popen([PY, '-m', 'pypyr', *argv], cwd=cwd, env=child_env(home=d),
                             stdout=subprocess.PIPE, stderr=subprocess.PIPE, start_new_session=True)
        try:
            if case.get('sigint'):
                marker = os.path.join(d, 'marker')
                t0 = time.monotonic()
                while not os.path.exists(marker):
                    if p.poll() is not None:
                        break
                    if time.monotonic() - t0 > MARKER_TIMEOUT:
                        raise common.Infra(f'marker did not appear within {MARKER_TIMEOUT}s: {case.get("variant")}')
                    time.sleep(0.002)
                if p.poll() is None:
                    os.kill(p.pid, signal.SIGINT)
            try:
                out, err = p.communicate(timeout=PROC_TIMEOUT)
            except subprocess.TimeoutExpired:
                raise common.Infra(f'pypyr subprocess did not exit within {PROC_TIMEOUT}s: {case.get("variant")}')
        finally:
            try:
                os.killpg(p.pid, signal.SIGKILL)
            except (ProcessLookupError, PermissionError):
                pass
            if p.poll() is None:
                p.kill()
                p.wait()
        probe = []
        pf = os.path.join(d, 'probe.jsonl')
        if os.path.exists(pf):
            with open(pf, encoding='utf-8') as f:
                probe = [json.loads(line) for line in f if line.strip()]
        sub = lambda s: s.replace(d, '@TMP@')
        return {'status': p.returncode, 'stdout': sub(out.decode('utf-8', 'replace')),
                'stderr': sub(err.decode('utf-8', 'replace')), 'probe': json.loads(sub(json.dumps(probe)))}
    finally:
        shutil.rmtree(d, ignore_errors=True)


def discover(case):
    """Run the same pipeline in-process through pipelinerunner.run and report what escaped
    (type name and message): the input of the exit-status model for error kinds whose message is
    not fixed by construction."""
    import pypyr.pipelinerunner
    import pypyr.cli
    d = tempfile.mkdtemp(prefix='c18d_')
    buf = io.StringIO()
    try:
        for rel, txt in case['files'].items():
            path = os.path.join(d, rel)
            os.makedirs(os.path.dirname(path), exist_ok=True)
            with open(path, 'w', encoding='utf-8') as f:
                f.write(txt.replace('@TMP@', d).replace('@PY@', PY))
        argv = [a.replace('@TMP@', d) for a in case['argv']]
        with contextlib.redirect_stderr(buf), contextlib.redirect_stdout(buf):
            a = pypyr.cli.get_args(argv)
        name = a.pipeline_name
        if not os.path.isabs(name):
            name = os.path.join(d, case.get('cwd', 'work'), name)
        try:
            with contextlib.redirect_stderr(buf), contextlib.redirect_stdout(buf):
                pypyr.pipelinerunner.run(pipeline_name=name, args_in=a.context_args, parse_args=True,
                                         groups=a.groups, success_group=a.success_group,
                                         failure_group=a.failure_group, py_dir=a.py_dir)
            return {'kind': 'nothing'}
        except Exception as e:
            return {'kind': 'error', 'ty': type(e).__name__, 'msg': str(e).replace(d, '@TMP@')}
    finally:
        shutil.rmtree(d, ignore_errors=True)
