"""C18 implementation side.

In-process: pypyr.cli.get_args / cli.main (runner replaced by a recorder or a scripted raiser),
Pipeline.run (load_and_run_pipeline replaced by a scripted raiser), the seven parsers,
Pipeline._get_parse_input, pipelinerunner.run on small on-disk pipelines (initial context).

Subprocess: `<python> -m pypyr …` with PYTHONPATH=$PYPYR_REPO in a scratch directory holding the
generated pipeline / config files, optionally with extra environment variables and with a
fault-injection shim (a sitecustomize.py on the child's PYTHONPATH after the tree under test; see SHIM). SIGINT is delivered by the harness once the pipeline has created a marker
file (explicit hand-off, no sleeps for ordering); every wait has a watchdog that raises Infra.
"""
from __future__ import annotations

import contextlib
import io
import json
import os
import shutil
import signal
import subprocess
import sys
import tempfile
import time

from . import common

PY = sys.executable
PROC_TIMEOUT = 60.0
MARKER_TIMEOUT = 30.0


# --------------------------------------------------------------------------
# in-process
# --------------------------------------------------------------------------

def quiet_logging():
    import logging
    logging.getLogger('pypyr').setLevel(logging.CRITICAL + 10)
    logging.getLogger().setLevel(logging.CRITICAL + 10)


def get_args_obs(argv):
    """pypyr.cli.get_args -> {'usage': True} | {'exit0': True} | {'ok': {...}}
    `dir` is None exactly when py_dir *is* the object config.cwd (the default of --dir)."""
    import pypyr.cli
    from pypyr.config import config
    buf = io.StringIO()
    try:
        with contextlib.redirect_stderr(buf), contextlib.redirect_stdout(buf):
            a = pypyr.cli.get_args(list(argv))
    except SystemExit as e:
        if e.code == 2:
            return {'usage': True}
        if e.code in (0, None):
            return {'exit0': True}
        return {'exit': e.code}
    d = a.py_dir
    return {'ok': {'name': a.pipeline_name, 'ctx': a.context_args, 'groups': a.groups,
                   'success': a.success_group, 'failure': a.failure_group,
                   'dir': None if d is config.cwd else (d if isinstance(d, str) else {'not-str': repr(d)}),
                   'log': a.log_level, 'logpath': a.log_path}}


def cwd_default_obs():
    """The default of --dir: config.cwd, a module constant taken when pypyr.config was imported."""
    import pypyr.cli
    import pypyr.config
    from pypyr.config import config
    a = pypyr.cli.get_args(['pipe'])
    here = os.getcwd()
    tmp = tempfile.mkdtemp(prefix='c18cwd_')
    try:
        os.chdir(tmp)
        b = pypyr.cli.get_args(['pipe'])
    finally:
        os.chdir(here)
        shutil.rmtree(tmp, ignore_errors=True)
    return {'is_config_cwd': a.py_dir is config.cwd, 'is_module_CWD': config.cwd is pypyr.config.CWD,
            'same_after_chdir': b.py_dir is a.py_dir}


def classify_obs(s):
    """argparse's classification of one argv string (`ArgumentParser._parse_optional`) on pypyr's parser."""
    import pypyr.cli
    parser = pypyr.cli.get_parser()
    buf = io.StringIO()
    try:
        with contextlib.redirect_stderr(buf), contextlib.redirect_stdout(buf):
            t = parser._parse_optional(s)
    except SystemExit as e:
        return {'cls': 'ambiguous'} if e.code == 2 else {'cls': 'exit', 'code': e.code}
    if t is None:
        return {'cls': 'pos'}
    action, option_string, explicit = t
    if action is None:
        return {'cls': 'unknown'}
    # the single-dash chain of consume_optional: -hh, -h=h are more -h's
    if option_string == '-h' and explicit and all(c == 'h' for c in explicit):
        explicit = None
    return {'cls': 'opt', 'opt': action.dest, 'explicit': explicit}


class _Patched:
    """cli.main with the runner, config.init and logger set-up replaced."""

    def __init__(self, runner, config_init=None, set_root_logger=None):
        self.runner = runner
        self.config_init = config_init or (lambda self_: None)
        self.set_root_logger = set_root_logger or (lambda *a, **k: None)

    def __enter__(self):
        import pypyr.cli
        import pypyr.pipelinerunner
        import pypyr.log.logger
        from pypyr.config import config
        self.saved = (pypyr.pipelinerunner.run, pypyr.log.logger.set_root_logger, config.__class__.init)
        pypyr.pipelinerunner.run = self.runner
        pypyr.log.logger.set_root_logger = self.set_root_logger
        config.__class__.init = self.config_init
        return self

    def __exit__(self, *exc):
        import pypyr.pipelinerunner
        import pypyr.log.logger
        from pypyr.config import config
        pypyr.pipelinerunner.run, pypyr.log.logger.set_root_logger, config.__class__.init = self.saved
        return False


def main_call_obs(argv):
    """What cli.main hands to pipelinerunner.run for this argv."""
    import pypyr.cli
    from pypyr.config import config
    seen = {}

    def rec(**kw):
        seen.update(kw)
    buf = io.StringIO()
    with _Patched(rec):
        try:
            with contextlib.redirect_stderr(buf), contextlib.redirect_stdout(buf):
                ret = pypyr.cli.main(list(argv))
        except SystemExit as e:
            return {'usage': True} if e.code == 2 else ({'exit0': True, 'called': bool(seen)} if e.code in (0, None)
                                                        else {'exit': e.code})
        except BaseException as e:  # noqa
            return {'uncaught': type(e).__name__}
    if not seen:
        return {'not_called': True, 'ret': ret}
    d = seen.get('py_dir')
    call = {'pipeline_name': seen.get('pipeline_name'), 'args_in': seen.get('args_in'),
            'parse_args': seen.get('parse_args'), 'groups': seen.get('groups'),
            'success_group': seen.get('success_group'), 'failure_group': seen.get('failure_group'),
            'py_dir': None if d is config.cwd else str(d)}
    extra = sorted(set(seen) - set(call))
    if extra:
        call['extra_kwargs'] = extra
    return {'call': call, 'ret': ret}


def make_exc(raised):
    import pypyr.errors as E
    k = raised['kind']
    if k == 'nothing':
        return None
    if k == 'stop':
        return E.Stop()
    if k == 'stopPipeline':
        return E.StopPipeline()
    if k == 'stopStepGroup':
        return E.StopStepGroup()
    if k == 'keyboardInterrupt':
        return KeyboardInterrupt()
    if k == 'systemExit':
        c = raised['code']
        if raised.get('bool'):
            c = bool(c)
        return SystemExit(c['text'] if isinstance(c, dict) else c)
    if k == 'baseOther':
        if raised['ty'] == 'GeneratorExit':
            return GeneratorExit(raised['msg'])
        return type(raised['ty'], (BaseException,), {})(raised['msg'])
    ty = raised['ty']
    import builtins
    cls = getattr(builtins, ty, None) or getattr(E, ty, None)
    if cls is None:
        cls = type(ty, (Exception,), {})
    if ty == 'KeyError':
        raise ValueError('KeyError changes its message; not used')
    return cls(raised['msg'])


def _escaped(e):
    if isinstance(e, KeyboardInterrupt):
        return 'keyboardInterrupt'
    if isinstance(e, SystemExit):
        return 'systemExit'
    if isinstance(e, Exception):
        import pypyr.errors as E
        return ('stopPipeline' if isinstance(e, E.StopPipeline) else 'stopStepGroup' if isinstance(e, E.StopStepGroup)
                else 'stop' if isinstance(e, E.Stop) else 'error')
    return 'baseOther'


def describe_exc(e):
    """What left, on the wire form of the model's `Raised`."""
    k = _escaped(e)
    if k == 'error':
        return {'kind': 'error', 'ty': type(e).__name__, 'msg': str(e)}
    if k == 'baseOther':
        return {'kind': 'baseOther', 'ty': type(e).__name__, 'msg': str(e)}
    if k == 'systemExit':
        c = e.code
        if c is None or (isinstance(c, int) and not isinstance(c, bool)):
            return {'kind': 'systemExit', 'code': c}
        if isinstance(c, bool):
            return {'kind': 'systemExit', 'code': int(c)}
        return {'kind': 'systemExit', 'code': {'text': str(c)}}
    return {'kind': k}


def run_step_groups_obs(mains, success, failure):
    """The real StepsRunner.run_step_groups / run_step_group / run_failure_step_group on a pipeline body whose
    groups' step lists end as scripted (`run_pipeline_steps` of that one instance raises what the script says):
    mains: [raised…]; success / failure: raised, None (no group given) or 'missing' (a name the pipeline lacks).
    -> what leaves run_step_groups, and the groups whose steps were started, in order."""
    from pypyr.stepsrunner import StepsRunner
    from pypyr.context import Context
    body, script, names = {}, {}, []
    for i, r in enumerate(mains):
        n = f'g{i}'
        body[n], script[n] = [n], r
        names.append(n)
    args = {}
    for role, r in (('success', success), ('failure', failure)):
        if r is None:
            args[role] = None
        elif r == 'missing':
            args[role] = f'no-such-{role}'
        else:
            body[role], script[role] = [role], r
            args[role] = role
    sr = StepsRunner(body, Context())
    started = []

    def run_pipeline_steps(steps):
        if steps is None:
            return
        n = steps[0]
        started.append(n)
        exc = make_exc(script[n])
        if exc is not None:
            raise exc
    sr.run_pipeline_steps = run_pipeline_steps
    try:
        sr.run_step_groups(groups=names, success_group=args['success'], failure_group=args['failure'])
        leaves = {'kind': 'nothing'}
    except BaseException as e:  # noqa: the observation is what left, whatever it is
        leaves = describe_exc(e)
    return {'leaves': leaves, 'started': started}


def _main_obs(argv, out, err, reached=None):
    """Call cli.main(argv) and describe how it ended, in the vocabulary of the model's `Outcome`."""
    import pypyr.cli
    try:
        with contextlib.redirect_stderr(err), contextlib.redirect_stdout(out):
            ret = pypyr.cli.main(argv)
    except BaseException as e:  # noqa - left main uncaught: the interpreter deals with it
        o = {'outcome': 'escaped', 'escaped': _escaped(e), 'exc': type(e).__name__, 'stdout': out.getvalue(),
             'stderr': err.getvalue()}
        if isinstance(e, SystemExit):
            o['code'] = e.code if (e.code is None or isinstance(e.code, int)) else {'text': str(e.code)}
    else:
        text = err.getvalue()
        head, sep, _ = text.partition('Traceback (most recent call last)')
        o = {'outcome': 'returned', 'ret': ret, 'stdout': out.getvalue(), 'stderr': head, 'main_traceback': bool(sep)}
    if reached is not None:
        o['reached'] = reached
    return o


def main_ladder_obs(raised, log_level=None):
    """cli.main when pipelinerunner.run raises the scripted exception."""
    exc = make_exc(raised)

    def runner(**kw):
        if exc is not None:
            raise exc
    argv = ['pipe'] + (['--log', str(log_level)] if log_level is not None else [])
    with _Patched(runner):
        return _main_obs(argv, io.StringIO(), io.StringIO())


def main_phases_obs(faults, log_level=None):
    """cli.main when config.init() / set_root_logger(...) / what is below Pipeline.run raise the scripted
    exceptions (faults: {'config'|'logger'|'run': raised}). The runner is the real Pipeline.run around a
    scripted load_and_run_pipeline, so a Stop-family signal in the run phase takes the real `except Stop`."""
    from pypyr.pipeline import Pipeline
    from pypyr.context import Context
    reached = []

    def raiser(phase):
        def f(*a, **k):
            reached.append(phase)
            exc = make_exc(faults.get(phase) or {'kind': 'nothing'})
            if exc is not None:
                raise exc
        return f

    def runner(**kw):
        body = raiser('run')
        saved = Pipeline.load_and_run_pipeline
        Pipeline.load_and_run_pipeline = lambda self, context, parent=None: body()
        try:
            Pipeline(kw.get('pipeline_name', 'x')).run(Context())
        finally:
            Pipeline.load_and_run_pipeline = saved
    argv = ['pipe'] + (['--log', str(log_level)] if log_level is not None else [])
    with _Patched(runner, config_init=raiser('config'), set_root_logger=raiser('logger')):
        return _main_obs(argv, io.StringIO(), io.StringIO(), reached)


def pipeline_run_obs(raised):
    """Pipeline.run when load_and_run_pipeline raises the scripted exception: what escapes."""
    from pypyr.pipeline import Pipeline
    from pypyr.context import Context
    import pypyr.errors as E
    exc = make_exc(raised)
    p = Pipeline('x')

    def boom(self, context, parent=None):
        if exc is not None:
            raise exc
    saved = Pipeline.load_and_run_pipeline
    Pipeline.load_and_run_pipeline = boom
    try:
        try:
            p.run(Context())
        finally:
            Pipeline.load_and_run_pipeline = saved
        return 'nothing'
    except KeyboardInterrupt:
        return 'keyboardInterrupt'
    except E.StopPipeline:
        return 'stopPipeline'
    except E.StopStepGroup:
        return 'stopStepGroup'
    except E.Stop:
        return 'stop'
    except Exception:
        return 'error'
    except SystemExit:
        return 'systemExit'
    except BaseException:  # noqa
        return 'baseOther'


def enc_total(v):
    """common.enc, total: a value the wire format has no form for (NaN / Infinity from a json text) -> its repr."""
    try:
        return common.enc(v)
    except (ValueError, OverflowError):
        return {'repr': repr(v)}


def parser_obs(parser, args):
    import importlib
    mod = importlib.import_module(parser)
    try:
        r = mod.get_parsed_context(None if args is None else list(args))
    except Exception as e:
        return {'err': {'name': common.exc_name(e)}}
    from collections.abc import Mapping
    if r is None:
        return {'ok': None}
    if isinstance(r, Mapping):
        return {'ok': enc_total(dict(r))}
    try:
        return {'ok': {'not-a-mapping': common.enc(r)}}
    except Exception:
        return {'ok': {'not-a-mapping': repr(r)[:200]}}


def parse_input_obs(parse_args, args_in, dict_in):
    from pypyr.pipeline import Pipeline
    return bool(Pipeline._get_parse_input(parse_args=parse_args, args_in=args_in, dict_in=dict_in))


def shortcut_obs(shortcuts, call):
    """Pipeline.new_pipe_and_args under config.shortcuts = shortcuts (restored afterwards).
    -> {'ok': {attributes of the new Pipeline + the returned dict}} | {'err': {'name', 'msg'}}"""
    import copy
    from pathlib import Path
    from pypyr.config import config
    from pypyr.pipeline import Pipeline
    import pypyr.errors as E
    saved = config.shortcuts
    config.shortcuts = copy.deepcopy(shortcuts)
    before = copy.deepcopy(config.shortcuts)
    try:
        try:
            p, d = Pipeline.new_pipe_and_args(
                name=call['name'], context_args=copy.deepcopy(call['context_args']), parse_input=call['parse_input'],
                dict_in=copy.deepcopy(call['dict_in']), loader=call['loader'], groups=copy.deepcopy(call['groups']),
                success_group=call['success_group'], failure_group=call['failure_group'], py_dir=call['py_dir'])
        except E.ConfigError as e:
            return {'err': {'name': common.exc_name(e), 'msg': str(e)}}
        pd = p.py_dir
        if isinstance(pd, Path):
            pd = {'path': str(pd)}
        else:
            pd = {'caller': pd}
        o = {'ok': {'name': p.name, 'context_args': p.context_args, 'parse_input': p.parse_input,
                    'dict_in': None if d is None else common.enc(d), 'loader': p.loader, 'groups': p.groups,
                    'success_group': p.success_group, 'failure_group': p.failure_group, 'py_dir': pd}}
        if config.shortcuts != before:
            o['config_mutated'] = True
        return o
    finally:
        config.shortcuts = saved


class ApiScratch:
    """On-disk pipelines `p_<parser>.yaml` (one per built-in parser, one without) for API runs."""

    def __init__(self, parsers):
        self.dir = tempfile.mkdtemp(prefix='c18api_')
        for p in list(parsers) + [None]:
            body = {'steps': [{'name': 'pypyr.steps.contextsetf', 'in': {'contextSetf': {}}}]}
            if p:
                body['context_parser'] = p
            with open(os.path.join(self.dir, self.fname(p) + '.yaml'), 'w') as f:
                f.write(json.dumps(body, indent=1))

    @staticmethod
    def fname(p):
        return 'p_' + (p.rsplit('.', 1)[1] if p else 'none')

    def run(self, parser, parse_args, args_in, dict_in):
        import copy
        import pypyr.pipelinerunner
        name = os.path.join(self.dir, self.fname(parser))
        try:
            ctx = pypyr.pipelinerunner.run(name, args_in=None if args_in is None else list(args_in),
                                           parse_args=parse_args,
                                           dict_in=None if dict_in is None else copy.deepcopy(dict_in))
        except Exception as e:
            return {'err': {'name': common.exc_name(e)}}
        d = dict(ctx)
        d.pop('contextSetf', None)
        return {'ok': common.enc(d)}

    def close(self):
        shutil.rmtree(self.dir, ignore_errors=True)


# --------------------------------------------------------------------------
# subprocess
# --------------------------------------------------------------------------

def check_import_path():
    """`python -m pypyr` must import the tree under test."""
    env = child_env()
    p = subprocess.run([PY, '-c', 'import pypyr, sys; sys.stdout.write(pypyr.__file__)'], env=env,
                       stdout=subprocess.PIPE, stderr=subprocess.PIPE, text=True, timeout=60, cwd='/')
    f = p.stdout.strip()
    if p.returncode != 0 or not f.startswith(str(common.REPO) + os.sep):
        raise common.Infra(f'python -m pypyr would import {f!r}, not {common.REPO} ({p.stderr[-300:]})')


def child_env(home=None, extra=None, shim=None):
    """Environment of a child. The tree under test is first on PYTHONPATH; `shim` (a directory holding
    the fault-injection sitecustomize.py) comes after it. No PYPYR_* variable is inherited."""
    env = {k: v for k, v in os.environ.items() if k in ('PATH', 'LANG', 'LC_ALL', 'LC_CTYPE', 'TMPDIR')}
    env['PYTHONPATH'] = str(common.REPO) + (os.pathsep + shim if shim else '')
    env['PYTHONDONTWRITEBYTECODE'] = '1'
    env['PYTHONIOENCODING'] = 'utf-8'
    if home:
        env['HOME'] = home
    if extra:
        env.update(extra)
    return env


# The child's fault-injection shim: imported by `site` at interpreter start-up (it is on PYTHONPATH
# *after* the tree under test, nothing in /repo is touched). Inactive unless $C18_INJECT is set.
#   {"at": "call", "target": "<module>:<attr path>", "exc": ..., "msg": ...}
#       the named function raises instead of running (patched before pypyr.cli is imported);
#   {"at": "line", "line": n, "exc": ..., "msg": ...}
#       the exception is raised *in the frame of pypyr.cli.main* when it is about to execute source
#       line n (a trace function that raises makes the traced frame raise at that line): the same as
#       the first operation of that line failing - wherever that line sits relative to any `try`.
# When the fault fires, a line is appended to $C18_INJECT_LOG.
SHIM = r'''
import json, os, sys
_spec = os.environ.get('C18_INJECT')
if _spec:
    _spec = json.loads(_spec)

    def _make():
        name, msg = _spec['exc'], _spec.get('msg', '')
        if name == 'KeyboardInterrupt':
            return KeyboardInterrupt()
        if name.startswith('pypyr.errors.'):
            import pypyr.errors
            return getattr(pypyr.errors, name.rsplit('.', 1)[1])(msg)
        import builtins
        cls = getattr(builtins, name, None)
        if cls is None:
            cls = type(name, (Exception,), {})
        return cls(msg)

    def _fired():
        with open(os.environ['C18_INJECT_LOG'], 'a') as f:
            f.write('fired\n')

    if _spec['at'] == 'call':
        import importlib
        modname, path = _spec['target'].split(':')
        obj = importlib.import_module(modname)
        parts = path.split('.')
        for p in parts[:-1]:
            obj = getattr(obj, p)

        def _raiser(*a, **k):
            _fired()
            raise _make()
        setattr(obj, parts[-1], _raiser)
    elif _spec['at'] == 'line':
        _suffix = os.path.join('pypyr', 'cli.py')
        _state = {'done': False}

        def _local(frame, event, arg):
            if event == 'line' and frame.f_lineno == _spec['line'] and not _state['done']:
                _state['done'] = True
                _fired()
                raise _make()
            return _local

        def _global(frame, event, arg):
            code = frame.f_code
            if code.co_name == 'main' and code.co_filename.endswith(_suffix) and not _state['done']:
                return _local
            return None
        sys.settrace(_global)
'''


# The harness's own reference for "what escaped, and from which phase", written from the property
# text: the three things the command does after parsing its arguments, each watched separately.
# Runs in a child with the same files / cwd / environment / argv as the real command.
DISCOVER = r'''
import json, sys
out, argv = sys.argv[1], sys.argv[2:]
def watch(phase, fn):
    try:
        fn()
        return None
    except KeyboardInterrupt:
        return {'phase': phase, 'raised': {'kind': 'keyboardInterrupt'}}
    except Exception as e:
        return {'phase': phase, 'raised': {'kind': 'error', 'ty': type(e).__name__, 'msg': str(e)}}
import pypyr.cli
a = pypyr.cli.get_args(argv)
def p_config():
    from pypyr.config import config
    config.init()
def p_logger():
    import pypyr.log.logger
    pypyr.log.logger.set_root_logger(log_level=a.log_level, log_path=a.log_path)
def p_run():
    import pypyr.pipelinerunner
    pypyr.pipelinerunner.run(pipeline_name=a.pipeline_name, args_in=a.context_args, parse_args=True, groups=a.groups,
                             success_group=a.success_group, failure_group=a.failure_group, py_dir=a.py_dir)
r = watch('config', p_config) or watch('logger', p_logger) or watch('run', p_run) or {'phase': None, 'raised': {'kind': 'nothing'}}
with open(out, 'w') as f:
    json.dump(r, f)
'''


def run_proc(case):
    """Run one subprocess case. case: {'files': {rel: text}, 'argv': [...], 'sigint': bool, 'cwd'?: rel}.
    '@TMP@' in file contents / argv stands for the scratch directory."""
    d = tempfile.mkdtemp(prefix='c18p_')
    try:
        for rel, txt in case['files'].items():
            path = os.path.join(d, rel)
            os.makedirs(os.path.dirname(path), exist_ok=True)
            with open(path, 'w', encoding='utf-8') as f:
                f.write(txt.replace('@TMP@', d).replace('@PY@', PY))
        argv = [a.replace('@TMP@', d) for a in case['argv']]
        cwd = os.path.join(d, case.get('cwd', 'work'))
        os.makedirs(cwd, exist_ok=True)
        extra = {k: v.replace('@TMP@', d) for k, v in (case.get('env') or {}).items()}
        shim = None
        if case.get('inject'):
            shim = os.path.join(d, 'shim')
            os.makedirs(shim, exist_ok=True)
            with open(os.path.join(shim, 'sitecustomize.py'), 'w', encoding='utf-8') as f:
                f.write(SHIM)
            extra['C18_INJECT'] = json.dumps(case['inject'])
            extra['C18_INJECT_LOG'] = os.path.join(d, 'inject.log')
        cmd = [PY, '-m', 'pypyr', *argv]
        if case.get('mode') == 'discover':
            cmd = [PY, '-c', DISCOVER, os.path.join(d, 'discovered.json'), *argv]
        p = subprocess.Popen(cmd, cwd=cwd, env=child_env(home=d, extra=extra, shim=shim),
                             stdout=subprocess.PIPE, stderr=subprocess.PIPE, start_new_session=True)
        try:
            if case.get('sigint'):
                marker = os.path.join(d, 'marker')
                t0 = time.monotonic()
                while not os.path.exists(marker):
                    if p.poll() is not None:
                        break
                    if time.monotonic() - t0 > MARKER_TIMEOUT:
                        raise common.Infra(f'marker did not appear within {MARKER_TIMEOUT}s: {case.get("variant")}')
                    time.sleep(0.002)
                if p.poll() is None:
                    os.kill(p.pid, signal.SIGINT)
            try:
                out, err = p.communicate(timeout=PROC_TIMEOUT)
            except subprocess.TimeoutExpired:
                raise common.Infra(f'pypyr subprocess did not exit within {PROC_TIMEOUT}s: {case.get("variant")}')
        finally:
            try:
                os.killpg(p.pid, signal.SIGKILL)
            except (ProcessLookupError, PermissionError):
                pass
            if p.poll() is None:
                p.kill()
                p.wait()
        probe = []
        pf = os.path.join(d, 'probe.jsonl')
        if os.path.exists(pf):
            with open(pf, encoding='utf-8') as f:
                probe = [json.loads(line) for line in f if line.strip()]
        sub = lambda s: s.replace(d, '@TMP@')
        o = {'status': p.returncode, 'stdout': sub(out.decode('utf-8', 'replace')),
             'stderr': sub(err.decode('utf-8', 'replace')), 'probe': json.loads(sub(json.dumps(probe)))}
        if case.get('inject'):
            o['fired'] = os.path.exists(os.path.join(d, 'inject.log'))
        if case.get('mode') == 'discover':
            df = os.path.join(d, 'discovered.json')
            if not os.path.exists(df):
                raise common.Infra(f'discover child wrote no result ({p.returncode}): {o["stderr"][-400:]}')
            with open(df, encoding='utf-8') as f:
                o['discovered'] = json.loads(sub(f.read()))
        return o
    finally:
        shutil.rmtree(d, ignore_errors=True)


def discover(case):
    """Run the same pipeline in-process through pipelinerunner.run and report what escaped
    (type name and message): the input of the exit-status model for error kinds whose message is
    not fixed by construction."""
    import pypyr.pipelinerunner
    import pypyr.cli
    d = tempfile.mkdtemp(prefix='c18d_')
    buf = io.StringIO()
    try:
        for rel, txt in case['files'].items():
            path = os.path.join(d, rel)
            os.makedirs(os.path.dirname(path), exist_ok=True)
            with open(path, 'w', encoding='utf-8') as f:
                f.write(txt.replace('@TMP@', d).replace('@PY@', PY))
        argv = [a.replace('@TMP@', d) for a in case['argv']]
        with contextlib.redirect_stderr(buf), contextlib.redirect_stdout(buf):
            a = pypyr.cli.get_args(argv)
        name = a.pipeline_name
        if not os.path.isabs(name):
            name = os.path.join(d, case.get('cwd', 'work'), name)
        try:
            with contextlib.redirect_stderr(buf), contextlib.redirect_stdout(buf):
                pypyr.pipelinerunner.run(pipeline_name=name, args_in=a.context_args, parse_args=True,
                                         groups=a.groups, success_group=a.success_group,
                                         failure_group=a.failure_group, py_dir=a.py_dir)
            return {'kind': 'nothing'}
        except Exception as e:
            return {'kind': 'error', 'ty': type(e).__name__, 'msg': str(e).replace(d, '@TMP@')}
    finally:
        shutil.rmtree(d, ignore_errors=True)


# --------------------------------------------------------------------------
# sequences in ONE process: parser calls with in-place mutation of earlier results; API runs
# --------------------------------------------------------------------------

def _obs_of_result(r):
    from collections.abc import Mapping
    if r is None:
        return {'ok': None}
    if isinstance(r, Mapping):
        return {'ok': common.enc(dict(r))}
    try:
        return {'ok': {'not-a-mapping': common.enc(r)}}
    except Exception:
        return {'ok': {'not-a-mapping': repr(r)[:200]}}


def mutate_in_place(obj, how):
    """What steps do to the containers a parser handed out (through the context): fill / empty the nested
    containers in place (`pypyr.steps.default`, `contextmerge`, a py step), write to the mapping itself."""
    from collections.abc import MutableMapping
    if not isinstance(obj, MutableMapping):
        return
    try:
        if how in ('nested-fill', 'all'):
            for v in list(obj.values()):
                if isinstance(v, MutableMapping):
                    v['polluted'] = 'by an earlier run'
                    v['a'] = 'overwritten'
                elif isinstance(v, list):
                    v.append('polluted')
        if how == 'nested-clear':
            for v in list(obj.values()):
                if isinstance(v, (MutableMapping, list)):
                    v.clear()
        if how in ('top-add', 'all'):
            obj['polluted'] = 1
            obj['argDict' if 'argDict' not in obj else 'argList'] = {'planted': True}
        if how == 'top-clear':
            obj.clear()
        if how == 'top-replace-values':
            for k in list(obj):
                obj[k] = 'replaced'
    except Exception:  # noqa - an immutable result cannot be polluted
        pass


def parser_seq_obs(ops):
    """ops: ['call', parser, args|None] | ['mutate', i, how] played in THIS process, in order.
    -> the observation of every call (as parser_obs). `mutate i` rewrites the object the i-th call returned."""
    import importlib
    results, out = [], []
    for op in ops:
        if op[0] == 'call':
            mod = importlib.import_module(op[1])
            try:
                r = mod.get_parsed_context(None if op[2] is None else list(op[2]))
            except Exception as e:
                results.append(None)
                out.append({'err': {'name': common.exc_name(e)}})
                continue
            results.append(r)
            out.append(_obs_of_result(r))       # encoded NOW: later mutations do not show in the record
        else:
            if op[1] < len(results):
                mutate_in_place(results[op[1]], op[2])
    return out


SNAP_STEP = """import copy
SNAPS = []
HOW = {how!r}

def run_step(context):
    from collections.abc import MutableMapping
    SNAPS.append(copy.deepcopy({{k: v for k, v in context.items()}}))
    if HOW is None:
        return
    for v in list(context.values()):
        if isinstance(v, MutableMapping):
            if HOW == 'clear':
                v.clear()
            else:
                v['polluted'] = 'by an earlier run'
                v['a'] = 'overwritten'
        elif isinstance(v, list):
            if HOW == 'clear':
                v.clear()
            else:
                v.append('polluted')
"""
_snap_counter = [0]


def api_two_runs_obs(parser, runs, how):
    """Several `pypyr.pipelinerunner.run()` calls in THIS process on pipelines using the same context parser.
    The first step of each pipeline records the context it sees (deep copy) and then fills / empties the
    containers in it in place. runs: [{'args_in', 'dict_in', 'parse_args'}]. -> [{'ok': ctx seen} | {'err'}]"""
    import copy
    import importlib
    import pypyr.pipelinerunner
    _snap_counter[0] += 1
    d = tempfile.mkdtemp(prefix='c18two_')
    modname = f'c18snap_{os.getpid()}_{_snap_counter[0]}'
    out = []
    try:
        with open(os.path.join(d, modname + '.py'), 'w') as f:
            f.write(SNAP_STEP.format(how=how))
        body = {'steps': [modname]}
        if parser:
            body['context_parser'] = parser
        with open(os.path.join(d, 'p.yaml'), 'w') as f:
            f.write(json.dumps(body, indent=1))
        for r in runs:
            try:
                pypyr.pipelinerunner.run(os.path.join(d, 'p'), args_in=None if r['args_in'] is None else list(r['args_in']),
                                         parse_args=r.get('parse_args'),
                                         dict_in=None if r.get('dict_in') is None else copy.deepcopy(r['dict_in']))
            except Exception as e:
                out.append({'err': {'name': common.exc_name(e)}})
                continue
            snaps = importlib.import_module(modname).SNAPS
            out.append({'ok': common.enc(snaps[-1])} if snaps else {'err': {'name': 'step-did-not-run'}})
        return out
    finally:
        sys.modules.pop(modname, None)
        if d in sys.path:
            sys.path.remove(d)
        shutil.rmtree(d, ignore_errors=True)


def api_run_obs(case):
    """The pipeline of a proc case through `pypyr.pipelinerunner.run` in THIS process, with the groups / success /
    failure the case names (`api`: {'args_in', 'groups', 'success_group', 'failure_group'}).
    -> {'raised': None | {'ty', 'msg'}, 'probe': [...]}"""
    import pypyr.pipelinerunner
    d = tempfile.mkdtemp(prefix='c18a_')
    buf = io.StringIO()
    try:
        for rel, txt in case['files'].items():
            path = os.path.join(d, rel)
            os.makedirs(os.path.dirname(path), exist_ok=True)
            with open(path, 'w', encoding='utf-8') as f:
                f.write(txt.replace('@TMP@', d).replace('@PY@', PY))
        a = case['api']
        raised = None
        try:
            with contextlib.redirect_stderr(buf), contextlib.redirect_stdout(buf):
                pypyr.pipelinerunner.run(pipeline_name=os.path.join(d, 'work', a.get('name', 'pipe')), args_in=a.get('args_in'),
                                         parse_args=True, groups=a.get('groups'), success_group=a.get('success_group'),
                                         failure_group=a.get('failure_group'), py_dir=os.path.join(d, 'work'))
        except Exception as e:
            raised = {'ty': type(e).__name__, 'msg': str(e).replace(d, '@TMP@')}
        probe = []
        pf = os.path.join(d, 'probe.jsonl')
        if os.path.exists(pf):
            with open(pf, encoding='utf-8') as f:
                probe = [json.loads(line) for line in f if line.strip()]
        return {'raised': raised, 'probe': json.loads(json.dumps(probe).replace(d, '@TMP@'))}
    finally:
        wd = os.path.join(d, 'work')
        if wd in sys.path:
            sys.path.remove(wd)
        for m in ('failparser',):
            sys.modules.pop(m, None)
        shutil.rmtree(d, ignore_errors=True)
