"""C15 — instrumented runs of the REAL rewriters (pypyr.utils.filesystem through the five steps).

Nothing in /repo is edited: the module `pypyr.utils.filesystem` is instrumented from outside for the
duration of one run (`is_same_file`, the module-level name `open`, `NamedTemporaryFile`, and
`os.replace` / `os.remove`), the temp file object is wrapped so that every `write` and the final close
are observable and can be made to fail, and formatting faults are produced through the *content*
(a line/string node referencing a missing key, or a context object whose `__format__` raises / kills).

A scenario (JSON-able dict):
  step     fileformat | filereplace | fileformatjson | fileformatyaml | fileformattoml
  files    [[rel, {"lines": [...]} | {"doc": obj} | {"raw": text}], ...]   (creation order)
  dirs     [rel, ...] extra directories
  in       {"kind": single|list|glob, "paths": [rel-or-pattern...], "relative": bool}
  out      null | {"kind": same|dir|dirnoslash|file|newdir, "path": rel, "relative": bool}
           | {"kind": none|empty|emptyfmt}   (out: None / out: '' / out: '{outDir}' with outDir == '')
  cwd      rel directory the step runs in (default: the root when a path is relative); relative paths are
           then spelled relative to it
  enc      {"encoding"|"encodingIn"|"encodingOut": name}
  matched  [rel...]   files `in` must match, by construction of the generator
  links    [[symlink|hardlink|copy, name, target], ...]   created after the files (target relative to root)
  probe    null | {"path": in spelling (rel), "spec": rel of the file whose content spec applies,
                   "out": real entry out resolves to (controls)}: the source path is read after every
                   observable operation and at the fault
  expect_inplace  bool, by construction: out names the file in names (alias) / another file (control)
  fault    null | {"src": rel, "occ": which rewrite of src (0 = first; `in` may match a file more than once),
                   "op": sameFile|openRead|closeIn|mkTemp|fmt|write|close|replace, "n": k,
                   "kind": raise|raiseBase|kill, "exc": KeyboardInterrupt|SystemExit|GeneratorExit (raiseBase),
                   "via": inject|missing|bomb|serialise|badsource,
                   "remove_fails": bool | "base" (the clean-up's os.remove raises OSError / KeyboardInterrupt)}
"""
from __future__ import annotations

import codecs
import contextlib
import glob as globmod
import importlib
import io
import json
import locale
import os
import shutil
import tempfile

STEPS = {
    'fileformat': ('pypyr.steps.fileformat', 'fileFormat', 'stream', '.txt'),
    'filereplace': ('pypyr.steps.filereplace', 'fileReplace', 'stream', '.txt'),
    'fileformatjson': ('pypyr.steps.fileformatjson', 'fileFormatJson', 'object', '.json'),
    'fileformatyaml': ('pypyr.steps.fileformatyaml', 'fileFormatYaml', 'object', '.yaml'),
    'fileformattoml': ('pypyr.steps.fileformattoml', 'fileFormatToml', 'object', '.toml'),
}
KILL_EXIT = 77
# BaseExceptions that are not Exceptions: what `except Exception:` does not catch
BASES = {'KeyboardInterrupt': KeyboardInterrupt, 'SystemExit': SystemExit, 'GeneratorExit': GeneratorExit}

# pypyr logs the injected failures at ERROR level; keep them off stderr
import logging
_lg = logging.getLogger('pypyr')
_lg.addHandler(logging.NullHandler())
_lg.propagate = False
FAULT_KEY = 'zz_fault'


def style_of(step):
    return STEPS[step][2]


# --------------------------------------------------------------------------
# scratch directories
# --------------------------------------------------------------------------

def file_encoding(scn):
    e = scn.get('enc') or {}
    return e.get('encodingIn', e.get('encoding')) or 'utf-8'


def render_doc(step, doc):
    if step == 'fileformatjson':
        return json.dumps(doc, indent=1, ensure_ascii=False)
    if step == 'fileformatyaml':
        import io
        import ruamel.yaml
        y = ruamel.yaml.YAML(typ='safe', pure=True)
        y.default_flow_style = False
        s = io.StringIO()
        y.dump(doc, s)
        return s.getvalue()
    if step == 'fileformattoml':
        import tomli_w
        return tomli_w.dumps(doc)
    raise ValueError(step)


def materialise(scn, root, plant=True):
    """Create the scenario's files under root. The fault (if it is produced through content) is
    planted here: the faulted line / node references `{missing}`, `{bomb}` or `{unser}`."""
    step = scn['step']
    fault = (scn.get('fault') or {}) if plant else {}
    enc = file_encoding(scn)
    for d in scn.get('dirs', []):
        os.makedirs(os.path.join(root, d), exist_ok=True)
    for rel, spec in scn['files']:
        p = os.path.join(root, rel)
        os.makedirs(os.path.dirname(p), exist_ok=True)
        planted = fault.get('src') == rel and fault.get('via') in ('missing', 'bomb', 'serialise', 'badsource')
        if 'lines' in spec:
            lines = list(spec['lines'])
            if planted and fault['via'] in ('missing', 'bomb'):
                n = fault['n'] - 1
                tag = '{missing}' if fault['via'] == 'missing' else '{bomb}'
                body, nl = (lines[n][:-1], '\n') if lines[n].endswith('\n') else (lines[n], '')
                lines[n] = body + ' ' + tag + nl
            data = ''.join(lines).encode(enc)
        elif 'doc' in spec:
            doc = spec['doc']
            if planted and fault['via'] != 'badsource':
                tag = {'missing': 'x{missing}', 'bomb': 'x{bomb}', 'serialise': '{unser}'}[fault['via']]
                if isinstance(doc, dict):
                    doc = dict(doc)
                    # keep scalars before tables so the same doc is valid for all three formats
                    doc = {FAULT_KEY: tag, **doc} if fault.get('first') else {**doc, FAULT_KEY: tag}
                else:
                    doc = list(doc) + [tag]
            text = render_doc(step, doc)
            if planted and fault['via'] == 'badsource':
                text = text[:max(1, len(text) // 2)] + '\n{[ "unterminated'
            data = text.encode('utf-8' if step == 'fileformattoml' else enc)
        else:
            data = spec['raw'].encode('utf-8')
        with open(p, 'wb') as f:
            f.write(data)
    for kind, name, target in scn.get('links', []):
        p, t = os.path.join(root, name), os.path.join(root, target)
        os.makedirs(os.path.dirname(p), exist_ok=True)
        if kind == 'symlink':
            os.symlink(os.path.relpath(t, os.path.dirname(p)), p)
        elif kind == 'hardlink':
            os.link(t, p)
        elif kind == 'copy':
            shutil.copyfile(t, p)
        else:
            raise ValueError(kind)


def audit(root):
    """{rel: hex bytes} for every regular file under root (recursive; hard links are separate entries,
    symlinks are not files: see `listing`), sorted."""
    out = {}
    for dp, dns, fns in os.walk(root):
        for fn in fns:
            p = os.path.join(dp, fn)
            if os.path.islink(p):
                continue
            rel = os.path.relpath(p, root)
            with open(p, 'rb') as f:
                out[rel] = f.read().hex()
    return dict(sorted(out.items()))


def listing(root):
    """Every directory entry under root: rel -> 'D' | 'F' | 'L->target' (symlinks are not followed)."""
    out = {}
    for dp, dns, fns in os.walk(root):
        for n in dns + fns:
            p = os.path.join(dp, n)
            rel = os.path.relpath(p, root)
            out[rel] = 'L->' + os.readlink(p) if os.path.islink(p) else 'D' if os.path.isdir(p) else 'F'
    return dict(sorted(out.items()))


def inode_table(root):
    """[[rel, k]] for every regular file: k = small id of its inode (hard links share one)."""
    ids, out = {}, []
    for dp, dns, fns in sorted(os.walk(root)):
        for fn in sorted(fns):
            p = os.path.join(dp, fn)
            if os.path.islink(p):
                continue
            st = os.lstat(p)
            k = ids.setdefault((st.st_dev, st.st_ino), len(ids) + 1)
            out.append([os.path.relpath(p, root), k])
    return sorted(out)


def read_hex(path):
    try:
        with open(path, 'rb') as f:
            return f.read().hex()
    except OSError:
        return None


# --------------------------------------------------------------------------
# instrumentation
# --------------------------------------------------------------------------

class Bomb:
    """Context value whose formatting is the modelled `fmt` operation of the line/object that
    references it: inert ('B') unless the recorder's plan says this fmt raises or kills."""

    def __init__(self):
        self.rec = None

    def __format__(self, spec):
        if self.rec is not None:
            self.rec.at_fmt()
        return 'B'

    def __str__(self):
        return self.__format__('')


class Unser:
    """A context value no serialiser can write (formats to itself when it is the whole string)."""


class Recorder:
    def __init__(self, root, style, fault=None, kill_fd=None):
        self.root = os.path.realpath(root)
        self.style = style
        self.fault = fault if fault and fault.get('via', 'inject') in ('inject', 'bomb') else None
        self.remove_fails = (fault or {}).get('remove_fails') or False
        self.kill_fd = kill_fd
        self.events = []
        self.jobs = []
        self.cur = None
        self.fired = False
        self.probe = None      # absolute path of the source as `in` spells it
        self.seen = []         # its bytes after every observable operation / at the fault (changes only)

    def snap(self):
        if self.probe is not None:
            hx = read_hex(self.probe)
            if not self.seen or self.seen[-1] != hx:
                self.seen.append(hx)

    def rel(self, p):
        return os.path.relpath(os.path.realpath(os.fspath(p)), self.root)

    def inside(self, p):
        try:
            return not self.rel(p).startswith('..')
        except Exception:
            return False

    # ---- fault decision
    def planned(self, label, n=0):
        f = self.fault
        return bool(f and not self.fired and self.cur is not None and f['src'] == self.cur['src']
                    and f.get('occ', 0) == self.cur.get('occ', 0)
                    and f['op'] == label and (label not in ('fmt', 'write') or f.get('n', 0) == n))

    def fault_exc(self, label, n, exc):
        """The exception the planned fault raises: an Exception (`raise`) or a BaseException that is not
        one (`raiseBase`: KeyboardInterrupt unless the fault names another)."""
        if self.fault['kind'] == 'raiseBase':
            return BASES[self.fault.get('exc', 'KeyboardInterrupt')](f'injected {label} {n}')
        return exc(f'injected fault at {label} {n}')

    def hit(self, label, n=0, exc=OSError):
        if self.planned(label, n):
            self.fired = True
            self.snap()
            if self.fault['kind'] == 'kill':
                self.die()
            self.events.append(label + '!')
            raise self.fault_exc(label, n, exc)

    def new_job(self, src, out):
        occ = sum(1 for j in self.jobs if j['src'] == src)
        self.cur = {'src': src, 'out': out, 'tmp': None, 'chunks': [], 'direct': False, 'occ': occ}
        self.jobs.append(self.cur)

    def die(self):
        if self.kill_fd is not None:
            os.write(self.kill_fd, json.dumps({'events': self.events, 'jobs': self.jobs,
                                               'seen': self.seen}).encode())
        os._exit(KILL_EXIT)

    def at_fmt(self):
        if self.cur is None:
            return
        n = len(self.cur['chunks']) + 1 if self.style == 'stream' else 0
        self.hit('fmt', n, exc=ValueError)

    def done(self, label, ok=True):
        self.events.append(label if ok else label + '!')
        self.snap()


class OutProxy:
    """Wraps the file object the rewriter writes to (temp or direct out)."""

    def __init__(self, rec, real, binary, encoding):
        self._rec, self._real, self._binary = rec, real, binary
        if not binary:
            name = encoding or locale.getpreferredencoding(False)
            self._enc = codecs.getincrementalencoder(name)()

    @property
    def name(self):
        return self._real.name

    def __enter__(self):
        self._real.__enter__()
        return self

    def __exit__(self, et, ev, tb):
        rec = self._rec
        if et is None:
            # normal exit of the `with`: flush + close is the modelled `close` operation
            if rec.planned('close'):
                rec.fired = True
                if rec.fault['kind'] == 'kill':
                    rec.die()
                self._real.__exit__(None, None, None)
                rec.events.append('close!')
                rec.snap()
                raise rec.fault_exc('close', 0, OSError)
            self._real.__exit__(None, None, None)
            rec.done('close')
            return False
        return self._real.__exit__(et, ev, tb)

    def write(self, data):
        rec = self._rec
        n = len(rec.cur['chunks']) + 1
        rec.hit('write', n)
        r = self._real.write(data)
        raw = bytes(data) if self._binary else self._enc.encode(data)
        rec.cur['chunks'].append(raw.hex())
        rec.done('write')
        return r

    def writelines(self, lines):
        # _io._IOBase.writelines: `for line in lines: self.write(line)`
        for line in lines:
            self.write(line)

    def __getattr__(self, a):
        return getattr(self._real, a)


class InProxy:
    """Wraps the SOURCE file object (`open(in_path)`): leaving its `with` normally is the modelled `closeIn`
    operation (StreamRewriter: after the temp file is closed, before the rename; ObjectRewriter: right
    after load). While an error propagates the file is just closed."""

    def __init__(self, rec, real):
        self._rec, self._real = rec, real

    def __enter__(self):
        self._real.__enter__()
        return self

    def __exit__(self, et, ev, tb):
        rec = self._rec
        if et is None:
            if rec.planned('closeIn'):
                rec.fired = True
                if rec.fault['kind'] == 'kill':
                    rec.die()
                self._real.__exit__(None, None, None)
                rec.events.append('closeIn!')
                rec.snap()
                raise rec.fault_exc('closeIn', 0, OSError)
            self._real.__exit__(None, None, None)
            rec.done('closeIn')
            return False
        return self._real.__exit__(et, ev, tb)

    def __iter__(self):
        return iter(self._real)

    def __next__(self):
        return next(self._real)

    def __getattr__(self, a):
        return getattr(self._real, a)


@contextlib.contextmanager
def instrumented(rec):
    import builtins
    import pypyr.utils.filesystem as fsmod
    real_same = getattr(fsmod, 'is_same_file', None)
    real_ntf = tempfile.NamedTemporaryFile
    real_replace, real_remove = os.replace, os.remove
    had_open = 'open' in vars(fsmod)
    prev_open = vars(fsmod).get('open')
    had_ntf = 'NamedTemporaryFile' in vars(fsmod)
    prev_ntf = vars(fsmod).get('NamedTemporaryFile')

    def same(path1, path2):
        rec.new_job(rec.rel(path1), rec.rel(path2) if path2 else None)
        rec.hit('sameFile')
        r = real_same(path1, path2)
        rec.done('sameFile')
        return r

    def xopen(file, mode='r', *a, **kw):
        if not isinstance(file, (str, bytes, os.PathLike)) or not rec.inside(file):
            return builtins.open(file, mode, *a, **kw)
        if 'w' in mode or 'a' in mode or '+' in mode:
            rec.hit('openWrite')
            try:
                real = builtins.open(file, mode, *a, **kw)
            except Exception:
                rec.done('openWrite', False)
                raise
            if rec.cur is not None:
                rec.cur['direct'] = True
            rec.done('openWrite')
            return OutProxy(rec, real, 'b' in mode, kw.get('encoding'))
        if rec.cur is None or rec.cur['src'] != rec.rel(file):
            # a rewriter that does not call is_same_file first (mutants): start the job here
            rec.new_job(rec.rel(file), None)
        rec.hit('openRead')
        try:
            real = builtins.open(file, mode, *a, **kw)
        except Exception:
            rec.done('openRead', False)
            raise
        rec.done('openRead')
        return InProxy(rec, real)

    def ntf(*a, **kw):
        rec.hit('mkTemp')
        try:
            real = real_ntf(*a, **kw)
        except Exception:
            rec.done('mkTemp', False)
            raise
        if rec.cur is not None:
            rec.cur['tmp'] = rec.rel(real.name)
        rec.done('mkTemp')
        return OutProxy(rec, real, 'b' in kw.get('mode', 'w+b'), kw.get('encoding'))

    def replace(src, dst, *a, **kw):
        if not rec.inside(dst):
            return real_replace(src, dst, *a, **kw)
        rec.hit('replace')
        try:
            r = real_replace(src, dst, *a, **kw)
        except Exception:
            rec.done('replace', False)
            raise
        rec.done('replace')
        return r

    def remove(path, *a, **kw):
        if not rec.inside(path):
            return real_remove(path, *a, **kw)
        if rec.remove_fails:
            rec.events.append('removeTemp!')
            rec.snap()
            if rec.remove_fails == 'base':
                raise KeyboardInterrupt('injected at removeTemp')
            raise OSError('injected fault at removeTemp')
        try:
            r = real_remove(path, *a, **kw)
        except Exception:
            rec.done('removeTemp', False)
            raise
        rec.done('removeTemp')
        return r

    if real_same is not None:
        fsmod.is_same_file = same
    fsmod.open = xopen
    fsmod.NamedTemporaryFile = ntf
    os.replace, os.remove = replace, remove
    try:
        yield
    finally:
        os.replace, os.remove = real_replace, real_remove
        if real_same is not None:
            fsmod.is_same_file = real_same
        if had_open:
            fsmod.open = prev_open
        else:
            del fsmod.open
        if had_ntf:
            fsmod.NamedTemporaryFile = prev_ntf
        else:
            del fsmod.NamedTemporaryFile


# --------------------------------------------------------------------------
# one run of the real step
# --------------------------------------------------------------------------

FALSY_OUT = ('none', 'empty', 'emptyfmt')


def build_context(scn, root, bomb, inert):
    step = scn['step']
    key = STEPS[step][1]
    relative = scn['in'].get('relative')
    cwd = scn.get('cwd')

    def spell(rel, relative):
        if not relative:
            return os.path.join(root, rel)
        if cwd:     # relative to the directory the step runs in
            return os.path.relpath(os.path.join(root, rel), os.path.join(root, cwd))
        return rel

    def pth(rel, relative=relative):
        return spell(rel, relative)

    paths = [pth(p) for p in scn['in']['paths']]
    cfg = {'in': paths[0] if scn['in']['kind'] != 'list' else paths}
    out = scn.get('out')
    ctx = dict(scn.get('ctx') or {})
    if out:
        k = out['kind']
        if 'relative' in out:
            def pth(rel, relative=out['relative']):    # noqa: F811 - out spelled independently of in
                return spell(rel, relative)
        if k in ('same', 'file'):
            cfg['out'] = pth(out['path'])
        elif k in ('dir', 'newdir'):
            cfg['out'] = pth(out['path']).rstrip('/') + '/'
        elif k == 'dirnoslash':
            cfg['out'] = pth(out['path']).rstrip('/') or pth('.')
        elif k == 'none':
            cfg['out'] = None
        elif k == 'empty':
            cfg['out'] = ''
        elif k == 'emptyfmt':
            cfg['out'] = '{outDir}'
            ctx['outDir'] = ''
        else:
            raise ValueError(k)
    cfg.update(scn.get('enc') or {})
    if step == 'filereplace':
        cfg['replacePairs'] = dict(scn.get('replace') or {'l': 'L'})
    ctx['bomb'] = bomb
    if inert:
        ctx['missing'] = 'M'
        ctx['unser'] = 'S'
    else:
        ctx['unser'] = Unser()
    ctx[key] = cfg
    return ctx


def needs_cwd(scn):
    return bool(scn.get('cwd') is not None or scn['in'].get('relative') or (scn.get('out') or {}).get('relative'))


def run_step(scn, root, fault=None, inert=False, kill_fd=None):
    """Run the real step once in `root`. Returns (outcome dict, recorder)."""
    from pypyr.context import Context
    modname, _key, style, _ext = STEPS[scn['step']]
    mod = importlib.import_module(modname)
    rec = Recorder(root, style, None if inert else fault, kill_fd)
    bomb = Bomb()
    bomb.rec = None if inert else rec
    ctx = Context(build_context(scn, root, bomb, inert))
    if scn.get('probe') and not inert:
        rec.probe = os.path.join(root, scn['probe']['path'])
    cwd = os.getcwd()
    if needs_cwd(scn):
        os.chdir(os.path.join(root, scn.get('cwd') or ''))
    try:
        # ruamel's emitter prints repr(data) to stdout when stream.write raises: keep it off the check's output
        with instrumented(rec), contextlib.redirect_stdout(io.StringIO()):
            try:
                mod.run_step(ctx)
                outcome = {'end': 'ok'}
            except Exception as e:
                outcome = {'end': 'raised', 'exc': type(e).__name__, 'msg': str(e)[:160]}
            except BaseException as e:     # noqa: BLE001 - an injected KeyboardInterrupt / SystemExit / GeneratorExit
                if type(e).__name__ == 'CaseTimeout' or not rec.fired or (fault or {}).get('kind') != 'raiseBase' \
                        and (fault or {}).get('remove_fails') != 'base':
                    raise
                outcome = {'end': 'raised', 'exc': type(e).__name__, 'msg': str(e)[:160], 'base': True}
    finally:
        os.chdir(cwd)
    return outcome, rec


def run_killed(scn, root, fault):
    """Run the step in a forked child that os._exit()s at the planned point."""
    r, w = os.pipe()
    pid = os.fork()
    if pid == 0:
        code = 3
        try:
            os.close(r)
            outcome, rec = run_step(scn, root, fault, kill_fd=w)
            os.write(w, json.dumps({'events': rec.events, 'jobs': rec.jobs, 'outcome': outcome,
                                    'seen': rec.seen}).encode())
            code = 0
        except BaseException:
            code = 3
        finally:
            os._exit(code)
    os.close(w)
    buf = b''
    reaped = False
    try:
        while True:
            b = os.read(r, 65536)
            if not b:
                break
            buf += b
        os.close(r)
        _, status = os.waitpid(pid, 0)
        reaped = True
    finally:
        if not reaped:          # the caller's time limit fired: the child must not outlive the case
            try:
                os.kill(pid, 9)
                os.waitpid(pid, 0)
            except OSError:
                pass
    code = os.waitstatus_to_exitcode(status)
    data = json.loads(buf.decode()) if buf else {'events': [], 'jobs': []}
    if code == KILL_EXIT:
        outcome = {'end': 'killed'}
    elif code == 0:
        outcome = data.get('outcome', {'end': 'ok'})
    else:
        outcome = {'end': 'child-crashed', 'code': code}
    return outcome, data['events'], data['jobs'], data.get('seen', [])


def glob_order(scn, root, entries=False):
    """Processing order of the matched files: what `glob.glob(..., recursive=True)` (stdlib) yields for
    this directory, files only — the directory-listing order is an input of the model. A file matched by
    several patterns of a list appears once per match (get_glob does not de-duplicate). With `entries`:
    the directory entry each in path names (symlinked directories resolved, the last component not): it
    differs from the file read when the in path itself is a symlink."""
    out, ents = [], []
    rroot = os.path.realpath(root)
    for p in scn['in']['paths']:
        for m in globmod.glob(os.path.join(root, p), recursive=True):
            if os.path.isfile(m):
                out.append(os.path.relpath(os.path.realpath(m), rroot))
                ents.append(os.path.relpath(os.path.join(os.path.realpath(os.path.dirname(m)), os.path.basename(m)),
                                            rroot))
    return ents if entries else out


def canonical_out(scn, src):
    out = scn.get('out')
    if not out or out['kind'] in FALSY_OUT:
        return None
    k = out['kind']
    if k in ('same', 'file'):
        return os.path.normpath(out['path'])
    d = os.path.normpath(out['path'])
    return os.path.normpath(os.path.join(d, os.path.basename(src)))


def out_spelling(scn, src):
    """The out path of the job for `src` as the code spells it, relative to root (not normalised)."""
    out = scn.get('out')
    if not out or out['kind'] in FALSY_OUT:
        return None
    if out['kind'] in ('same', 'file'):
        return out['path']
    return os.path.join(out['path'].rstrip('/') or '.', os.path.basename(src))


def out_option(scn, root):
    """The step's `out` option as the model's `planOut` takes it: the value (None: absent / None; '' for the
    empty kinds; else the root-relative spelling, directories with the trailing separator when the step is
    given one), whether it is an existing directory (read from the scratch tree) and the number of paths `in`
    matched (stdlib glob, directories included)."""
    out = scn.get('out')
    nin = 0
    for p in scn['in']['paths']:
        nin += len(globmod.glob(os.path.join(root, p), recursive=True))
    if not out or out['kind'] == 'none':
        return {'value': None, 'isdir': False, 'nin': nin}
    if out['kind'] in ('empty', 'emptyfmt'):
        # Path('') is the working directory
        return {'value': '', 'isdir': True, 'nin': nin}
    value = out['path'].rstrip('/') + '/' if out['kind'] in ('dir', 'newdir') else out['path']
    return {'value': value, 'isdir': os.path.isdir(os.path.join(root, out['path'])), 'nin': nin}


def link_table(scn, root, order):
    """What the OS says about the names: spelling -> entry (realpath) for every out spelling, entry -> inode
    id for every regular file. Input of the model's `Links`."""
    rroot = os.path.realpath(root)
    entry = {}
    for src in order:
        sp = out_spelling(scn, src)
        if sp is not None:
            entry[sp] = os.path.relpath(os.path.realpath(os.path.join(root, sp)), rroot)
    return {'entry': sorted([k, v] for k, v in entry.items()), 'ino': inode_table(root)}


def observe(scn):
    """Reference run (fault-free, inert context) + faulted run on two identical scratch directories.
    Returns a JSON-able record with everything the model and the monitor need."""
    fault = scn.get('fault')
    base = tempfile.mkdtemp(prefix='verif-c15-')
    try:
        ref_root, run_root = os.path.join(base, 'ref'), os.path.join(base, 'run')
        os.makedirs(ref_root)
        os.makedirs(run_root)
        bad = bool(fault and fault.get('via') == 'badsource')
        materialise(scn, ref_root, plant=not bad)
        materialise(scn, run_root)
        before = audit(run_root)
        order = glob_order(scn, run_root)
        in_entries = glob_order(scn, run_root, entries=True)
        modes_before = {s: os.stat(os.path.join(run_root, s)).st_mode & 0o777 for s in set(order)}
        links = link_table(scn, run_root, order)
        outopt = out_option(scn, run_root)
        names_before = listing(run_root)
        probe = scn.get('probe')
        probe_before = read_hex(os.path.join(run_root, probe['path'])) if probe else None
        src_entry = None
        if probe:   # the directory entry `in` names: symlinked directories resolved, the last component not
            pp = os.path.join(run_root, probe['path'])
            src_entry = os.path.relpath(os.path.join(os.path.realpath(os.path.dirname(pp)), os.path.basename(pp)),
                                        os.path.realpath(run_root))
        # ---- reference: what a complete, successful rewrite writes
        o, rec = run_step(scn, ref_root, inert=True)
        ref = {'ok': o['end'] == 'ok', 'outcome': o, 'jobs': rec.jobs, 'after': audit(ref_root)}
        # ---- the run under test
        if fault and fault['kind'] == 'kill':
            outcome, events, jobs, seen = run_killed(scn, run_root, fault)
        else:
            outcome, rec = run_step(scn, run_root, fault)
            events, jobs, seen = rec.events, rec.jobs, rec.seen
        after = audit(run_root)
        modes_after = {s: os.stat(os.path.join(run_root, s)).st_mode & 0o777 for s in set(order)
                       if os.path.exists(os.path.join(run_root, s))}
        return {'before': before, 'after': after, 'order': order, 'in_entries': in_entries, 'ref': ref,
                'outcome': outcome, 'modes': {s: [modes_before[s], modes_after.get(s)] for s in modes_before},
                'events': events, 'jobs': jobs, 'links': links, 'outopt': outopt, 'names_before': names_before,
                'names_after': listing(run_root), 'seen': seen, 'probe_before': probe_before, 'src_entry': src_entry,
                'probe_after': read_hex(os.path.join(run_root, probe['path'])) if probe else None}
    finally:
        shutil.rmtree(base, ignore_errors=True)


# --------------------------------------------------------------------------
# the fault space of the final rename
# --------------------------------------------------------------------------
# The rename that ends an in-place rewrite is made to fail with a given errno class; from that moment on EVERY call
# of a public function of `os` / `shutil`, every `open` and every write/flush/close of a file opened for writing
# under the scratch root is (a) recorded, (b) followed by a reading of the source path, (c) itself a fault point
# (raise ENOSPC / die before it / do half of it then raise or die). Runs in a forked child; records go through a pipe.

RENAME_NAMES = ('replace', 'rename')          # os functions that are "the final rename"
DATA_CALLS = ('os.sendfile', 'os.copy_file_range', 'os.write', 'os.writev', 'os.pwrite', 'os.splice', 'file.write',
              'file.writelines')
_RF_SKIP = {'fork', 'forkpty', 'waitpid', 'wait', 'wait3', 'wait4', 'kill', 'abort', 'execv', 'execve', 'execl', 'execle',
            'execlp', 'execlpe', 'execvp', 'execvpe', 'register_at_fork', 'get_terminal_size'}


class _FileProxy:
    """a file opened for writing after the refused rename: its write / flush / close are fault points"""

    def __init__(self, tr, real):
        object.__setattr__(self, '_tr', tr)
        object.__setattr__(self, '_real', real)

    def __enter__(self):
        self._real.__enter__()
        return self

    def __exit__(self, et, ev, tb):
        self._tr.call('file.close', self._real.close, (), {})
        return False

    def write(self, data):
        return self._tr.call('file.write', self._real.write, (data,), {}, flush=self._real.flush)

    def writelines(self, lines):
        return self._tr.call('file.writelines', self._real.writelines, (list(lines),), {}, flush=self._real.flush)

    def flush(self):
        return self._tr.call('file.flush', self._real.flush, (), {})

    def close(self):
        return self._tr.call('file.close', self._real.close, (), {})

    def __iter__(self):
        return iter(self._real)

    def __getattr__(self, a):
        return getattr(self._real, a)


class RenameFaultTracer:
    def __init__(self, root, rf, wfd):
        import builtins
        self.root = os.path.realpath(root)
        self.rf = rf
        self.wfd = wfd
        self.active = False
        self.fired = False
        self.ncalls = 0
        self.probe = None
        self.real_write = os.write
        self.real_open = builtins.open
        self.real_fstat = os.fstat
        self.real_exit = os._exit
        self.undo = []

    def emit(self, rec):
        self.real_write(self.wfd, (json.dumps(rec) + '\n').encode())

    def snap(self):
        if self.probe is None:
            return None
        try:
            with self.real_open(self.probe, 'rb') as f:
                return f.read().hex()
        except OSError:
            return None

    def inside(self, p):
        try:
            return not os.path.relpath(os.path.realpath(os.fspath(p)), self.root).startswith('..')
        except Exception:
            return False

    # ---- one traced call
    def call(self, name, real, a, k, flush=None):
        if not self.active:
            return real(*a, **k)
        idx = self.ncalls
        self.ncalls += 1
        sec = self.rf.get('second')
        if sec and sec['k'] == idx:
            mode = sec['mode']
            self.active = False
            try:
                if mode.startswith('partial'):
                    self.partial(name, real, a, k, flush)
                if mode == 'kill-after':
                    real(*a, **k)
                    if flush:
                        flush()
            except Exception as e:  # noqa: BLE001 - the partial operation failed by itself
                self.emit({'note': f'partial {name} failed by itself: {type(e).__name__}'})
            self.emit({'second': mode, 'at': idx, 'call': name, 'src': self.snap()})
            if 'kill' in mode:
                self.real_exit(KILL_EXIT)
            self.active = True
            import errno as E
            raise OSError(E.ENOSPC, 'injected: No space left on device')
        try:
            r = real(*a, **k)
        except BaseException as e:  # noqa: BLE001
            self.active, was = False, self.active
            self.emit({'call': name, 'i': idx, 'failed': type(e).__name__, 'src': self.snap()})
            self.active = was
            raise
        self.active, was = False, self.active
        self.emit({'call': name, 'i': idx, 'src': self.snap()})
        self.active = was
        return r

    def partial(self, name, real, a, k, flush):
        """do about half of a data-moving call"""
        if name in ('os.sendfile', 'os.copy_file_range', 'os.splice'):
            size = self.real_fstat(a[1] if name == 'os.sendfile' else a[0]).st_size
            half = max(1, size // 2)
            if name == 'os.sendfile':
                real(a[0], a[1], a[2] if len(a) > 2 else k.get('offset', 0), half)
            else:
                real(a[0], a[1], half)
        elif name in ('file.write', 'os.write', 'os.pwrite'):
            data = a[0] if name == 'file.write' else a[1]
            half = data[:max(1, len(data) // 2)]
            if name == 'file.write':
                real(half)
            else:
                real(a[0], half, *a[2:])
        elif name == 'file.writelines':
            real(a[0][:max(1, len(a[0]) // 2)])
        if flush:
            flush()

    # ---- install
    def install(self):
        import builtins
        import types
        import errno as E
        tr = self
        rf = self.rf

        def patch(mod, name, val):
            self.undo.append((mod, name, getattr(mod, name)))
            setattr(mod, name, val)

        def wrap(qual, real):
            def w(*a, **k):
                return tr.call(qual, real, a, k)
            w.__name__ = getattr(real, '__name__', qual)
            w.__wrapped__ = real
            return w

        def wrap_rename(qual, real):
            def w(src, dst, *a, **k):
                if tr.fired or not tr.inside(dst):
                    return tr.call(qual, real, (src, dst) + a, k)
                tr.fired = True
                tr.probe = os.path.join(os.path.realpath(os.path.dirname(os.fspath(dst))), os.path.basename(os.fspath(dst)))
                tr.emit({'fault': rf.get('errno'), 'at': qual, 'dst': os.path.relpath(tr.probe, tr.root), 'src': tr.snap()})
                if rf.get('errno'):
                    n = getattr(E, rf['errno'])
                    exc = OSError(n, os.strerror(n), os.fspath(src), None, os.fspath(dst))
                else:
                    exc = OSError('injected fault at the rename')
                tr.active = True
                raise exc
            return w
        for mod, pre in ((os, 'os.'), (shutil, 'shutil.')):
            for name, v in list(vars(mod).items()):
                if name.startswith('_') or name in _RF_SKIP or not isinstance(v, (types.FunctionType, types.BuiltinFunctionType)):
                    continue
                if mod is os and name in RENAME_NAMES:
                    patch(mod, name, wrap_rename(pre + name, v))
                else:
                    patch(mod, name, wrap(pre + name, v))
        real_open = self.real_open

        def xopen(file, mode='r', *a, **k):
            if not tr.active:
                return real_open(file, mode, *a, **k)
            f = tr.call('open', real_open, (file, mode) + a, k)
            if isinstance(file, (str, bytes, os.PathLike)) and any(c in mode for c in 'wax+') and tr.inside(file):
                return _FileProxy(tr, f)
            return f
        patch(builtins, 'open', xopen)
        patch(io, 'open', xopen)

    def uninstall(self):
        self.active = False
        for mod, name, old in reversed(self.undo):
            setattr(mod, name, old)
        self.undo = []


def _rename_fault_child(scn, root, rf, wfd):
    from pypyr.context import Context
    mod = importlib.import_module(STEPS[scn['step']][0])
    ctx = Context(build_context(scn, root, Bomb(), True))
    if needs_cwd(scn):
        os.chdir(os.path.join(root, scn.get('cwd') or ''))
    dn = os.open(os.devnull, os.O_WRONLY)
    os.dup2(dn, 1)
    os.dup2(dn, 2)
    tr = RenameFaultTracer(root, rf, wfd)
    tr.install()
    try:
        try:
            mod.run_step(ctx)
            out = {'end': 'ok'}
        except Exception as e:  # noqa: BLE001
            out = {'end': 'raised', 'exc': type(e).__name__, 'errno': getattr(e, 'errno', None), 'msg': str(e)[:120]}
        except BaseException as e:  # noqa: BLE001
            out = {'end': 'raised', 'exc': type(e).__name__, 'base': True}
    finally:
        tr.uninstall()
    out['fired'] = tr.fired
    tr.emit(out)


def observe_rename_fault(scn, timeout=20, child=None, spec=None):
    """scn['rf'] = {'errno': name | None, 'second': None | {'k': i, 'mode': raise|kill|kill-after|partial-raise|partial-kill}}.
    Reference run (fault-free) and the faulted run on identical scratch directories; the faulted run in a forked
    child. Returns the records the child sent and the directory before / after."""
    import select
    import time
    rf = spec if spec is not None else scn['rf']
    base = tempfile.mkdtemp(prefix='verif-c15rf-')
    try:
        ref_root, run_root = os.path.join(base, 'ref'), os.path.join(base, 'run')
        os.makedirs(ref_root)
        os.makedirs(run_root)
        materialise(scn, ref_root, plant=False)
        materialise(scn, run_root, plant=False)
        before = audit(run_root)
        names_before = listing(run_root)
        inodes_before = {rel: os.lstat(os.path.join(run_root, rel)).st_ino for rel in before}
        o, _rec = run_step(scn, ref_root, inert=True)
        ref_after = audit(ref_root)
        r, w = os.pipe()
        pid = os.fork()
        if pid == 0:
            code = 3
            try:
                os.close(r)
                (child or _rename_fault_child)(scn, run_root, rf, w)
                code = 0
            except BaseException:  # noqa: BLE001
                code = 3
            finally:
                os._exit(code)
        os.close(w)
        buf, deadline, timed_out = b'', time.time() + timeout, False
        while True:
            left = deadline - time.time()
            if left <= 0:
                timed_out = True
                break
            ready, _, _ = select.select([r], [], [], left)
            if not ready:
                timed_out = True
                break
            b = os.read(r, 65536)
            if not b:
                break
            buf += b
        os.close(r)
        if timed_out:
            try:
                os.kill(pid, 9)
            except OSError:
                pass
        _, status = os.waitpid(pid, 0)
        code = os.waitstatus_to_exitcode(status)
        recs = []
        for ln in buf.decode('utf-8', 'replace').splitlines():
            try:
                recs.append(json.loads(ln))
            except ValueError:
                pass
        after = audit(run_root)
        inodes_after = {rel: os.lstat(os.path.join(run_root, rel)).st_ino for rel in after}
        end = next((x for x in recs if 'end' in x), None)
        if timed_out:
            outcome = {'end': 'timeout'}
        elif code == KILL_EXIT:
            outcome = {'end': 'killed'}
        elif code == 0 and end:
            outcome = end
        else:
            outcome = {'end': 'child-crashed', 'code': code}
        return {'ref_ok': o['end'] == 'ok', 'ref_after': ref_after, 'before': before, 'after': after,
                'names_before': names_before, 'names_after': listing(run_root), 'outcome': outcome, 'records': recs,
                'same_inode': {rel: inodes_before[rel] == inodes_after.get(rel) for rel in before}}
    finally:
        shutil.rmtree(base, ignore_errors=True)


# --------------------------------------------------------------------------
# every call of the whole step as a fault point (family `stepfault`)
# --------------------------------------------------------------------------
# The fault plan is not a list written here: a first run of the step is TRACED (every public function of `os` and
# `shutil`, `open` / `io.open`, whose arguments mention a path under the scratch root or a descriptor opened on such a
# path), which yields [(function, ordinal)]; then one run per entry with the fault at exactly that call.

STEP_FAULT_MODES = ('raise-perm', 'raise-os', 'kill')


class StepFaultTracer(RenameFaultTracer):
    """sf = {'at': None | {'name': qualified function, 'ord': n-th relevant call of that function, 'mode': …},
    'probes': [source paths relative to the root]}"""

    def __init__(self, root, sf, wfd):
        super().__init__(root, sf, wfd)
        self.sf = sf
        self.at = sf.get('at')
        self.per_name = {}
        self.fds = set()
        self.probes = [os.path.join(self.root, p) for p in sf.get('probes', [])]
        self.real_realpath = os.path.realpath
        self.depth = 0

    def snap(self):
        out = {}
        for p in self.probes:
            try:
                with self.real_open(p, 'rb') as f:
                    out[os.path.relpath(p, self.root)] = f.read().hex()
            except OSError:
                out[os.path.relpath(p, self.root)] = None
        return out

    def relevant(self, a, k):
        for v in list(a) + list(k.values()):
            if isinstance(v, bool):
                continue
            if isinstance(v, int):
                if v in self.fds:
                    return True
            elif isinstance(v, (str, bytes, os.PathLike)):
                try:
                    s = os.fspath(v)
                    if isinstance(s, bytes):
                        s = os.fsdecode(s)
                    if s != '' and self.inside(s):
                        return True
                except Exception:  # noqa: BLE001
                    pass
            elif hasattr(v, 'fileno') and not isinstance(v, type):
                try:
                    if v.fileno() in self.fds:
                        return True
                except Exception:  # noqa: BLE001
                    pass
        return False

    def traced(self, name, real, a, k):
        if not self.active:
            return real(*a, **k)
        self.active = False
        try:
            rel = self.relevant(a, k)
        finally:
            self.active = True
        if not rel:
            return real(*a, **k)
        n = self.per_name.get(name, 0)
        self.per_name[name] = n + 1
        at = self.at
        if at and not self.fired and at['name'] == name and at['ord'] == n:
            self.fired = True
            self.active = False
            import sys
            within, fr = [], sys._getframe(1)
            while fr is not None:
                if (os.sep + 'pypyr' + os.sep) in fr.f_code.co_filename and fr.f_code.co_name not in within:
                    within.append(fr.f_code.co_name)
                fr = fr.f_back
            self.emit({'fault': at['mode'], 'call': name, 'ord': n, 'args': [repr(x)[:80] for x in a][:4], 'within': within[:8],
                       'src': self.snap()})
            if at['mode'] == 'kill':
                self.real_exit(KILL_EXIT)
            self.active = True
            import errno as E
            path = next((os.fspath(x) for x in a if isinstance(x, (str, bytes, os.PathLike))), None)
            if at['mode'] == 'raise-perm':
                raise PermissionError(E.EPERM, 'injected: Operation not permitted', path)
            raise OSError(E.ENOSPC, 'injected: No space left on device', path)
        try:
            r = real(*a, **k)
        except BaseException as e:  # noqa: BLE001
            self.active = False
            self.emit({'call': name, 'ord': n, 'failed': type(e).__name__, 'src': self.snap()})
            self.active = True
            raise
        self.active = False
        try:
            if name in ('os.open', 'os.dup') and isinstance(r, int):
                self.fds.add(r)
            elif name == 'os.close' and a and isinstance(a[0], int):
                self.fds.discard(a[0])
            elif name == 'open' and hasattr(r, 'fileno'):
                try:
                    self.fds.add(r.fileno())
                except Exception:  # noqa: BLE001
                    pass
            self.emit({'call': name, 'ord': n, 'src': self.snap()})
        finally:
            self.active = True
        return r

    def install(self):
        import builtins
        import types
        tr = self

        def patch(mod, name, val):
            self.undo.append((mod, name, getattr(mod, name)))
            setattr(mod, name, val)

        def wrap(qual, real):
            def w(*a, **k):
                return tr.traced(qual, real, a, k)
            w.__name__ = getattr(real, '__name__', qual)
            w.__wrapped__ = real
            return w
        for mod, pre in ((os, 'os.'), (shutil, 'shutil.')):
            for name, v in list(vars(mod).items()):
                if name.startswith('_') or name in _RF_SKIP or not isinstance(v, (types.FunctionType, types.BuiltinFunctionType)):
                    continue
                patch(mod, name, wrap(pre + name, v))
        xopen = wrap('open', self.real_open)
        patch(builtins, 'open', xopen)
        patch(io, 'open', xopen)
        # names bound at import time (`from os import chown`, `move = shutil.move`) in the modules of the tree under test
        import sys
        by_id = {id(old): getattr(mod, name) for mod, name, old in self.undo}
        for mname, m in list(sys.modules.items()):
            if m is None or not (mname == 'pypyr' or mname.startswith('pypyr.')):
                continue
            for gname, gval in list(vars(m).items()):
                if isinstance(gval, (types.FunctionType, types.BuiltinFunctionType)) and id(gval) in by_id:
                    patch(m, gname, by_id[id(gval)])


def _step_fault_child(scn, root, sf, wfd):
    from pypyr.context import Context
    mod = importlib.import_module(STEPS[scn['step']][0])
    ctx = Context(build_context(scn, root, Bomb(), True))
    if needs_cwd(scn):
        os.chdir(os.path.join(root, scn.get('cwd') or ''))
    dn = os.open(os.devnull, os.O_WRONLY)
    os.dup2(dn, 1)
    os.dup2(dn, 2)
    tr = StepFaultTracer(root, sf, wfd)
    tr.install()
    tr.active = True
    try:
        try:
            mod.run_step(ctx)
            out = {'end': 'ok'}
        except Exception as e:  # noqa: BLE001
            out = {'end': 'raised', 'exc': type(e).__name__, 'errno': getattr(e, 'errno', None), 'msg': str(e)[:120]}
        except BaseException as e:  # noqa: BLE001
            out = {'end': 'raised', 'exc': type(e).__name__, 'base': True}
    finally:
        tr.uninstall()
    out['fired'] = tr.fired
    tr.emit(out)


def observe_step_fault(scn, timeout=20):
    """scn['sf'] = {'at': None (trace only) | {'name', 'ord', 'mode'}}; the probes are the matched sources"""
    sf = dict(scn.get('sf') or {}, probes=list(scn['matched']))
    return observe_rename_fault(scn, timeout=timeout, child=_step_fault_child, spec=sf)
