"""C12 — runs are independent: implementation side.

Pieces used by harness/props/c12.py:

* `Sandbox`      scratch directory with generated pipeline yaml files and the probe step module
                 `vobs`; sets `config.vars` / `config.shortcuts`; clears pypyr's caches; restores
                 everything on close.
* `wire` / `same` / `norm`   deep plain-data snapshot of Python values and comparison with the
                 model's values (set / tuple cells of the model).
* `SharedIndex`  the id()-graph of every cached `PipelineDefinition.pipeline`, of `config.vars` and
                 of `config.shortcuts`, as the model's blocks (`defs`, `cfg`) and as a map
                 id(obj) -> model address, so that "which shared objects can this context reach"
                 is the same question on both sides.
* `ProgGen`      generator of pipelines (real pypyr steps) together with the operation sequence
                 each run performs on OBJECTS, in the operation language of lean/PypyrModel/Heap.lean.
* `StepObserver` wraps `pypyr.dsl.Step.invoke_step` from outside: after every step body (while the
                 step's `in` arguments are still in context) it records the context's deep value and
                 the shared objects reachable from it.
* `ProbeSched`   deterministic hand-off scheduler for real threads that yield at `vobs` steps
                 (reuses the controller of harness/impl_c13.py).
"""
from __future__ import annotations

import collections
import collections.abc as cabc
import copy
import datetime
import gc
import json
import logging
import shlex
import shutil
import sys
import tempfile
import threading
import types
from pathlib import Path

from . import common
from .common import canon, dyadic
from .impl_c13 import Sched

ATOM_TYPES = (type(None), bool, int, float, str, bytes, complex, datetime.date, datetime.time,
              datetime.timedelta)

VOBS_SRC = '''"""probe step of the C12 harness: calls the hook the harness installed (if any)."""
HOOK = None


def run_step(context):
    h = HOOK
    if h is not None:
        h(context)


def tick(label, value=None):
    """Called from `!py` expressions (after `pyImport: import vobs`): a hand-off point INSIDE the
    formatting of a mapping / a foreach list."""
    h = HOOK
    if h is not None:
        h(('tick', label))
    return value
'''


class PyTag:
    """A `!py` expression in a generated pipeline (a `pypyr.dsl.PyString` once loaded)."""

    def __init__(self, value):
        self.value = value

    def __repr__(self):
        return f'PyTag({self.value!r})'


def is_atom(o):
    return isinstance(o, ATOM_TYPES)


def is_container(o):
    return isinstance(o, (cabc.Mapping, list, tuple, cabc.Set)) and not is_atom(o)


# ---------------------------------------------------------------------------------------------
# plain values
# ---------------------------------------------------------------------------------------------

def wire(o, depth=0):
    """Deep snapshot of a Python value as JSON-able plain data (wire form of harness/common.py;
    anything that is not data becomes {'o': <description>})."""
    if depth > 80:
        return {'o': 'too-deep'}
    if o is None or isinstance(o, bool):
        return o
    if isinstance(o, int):
        return int(o)
    if isinstance(o, float):
        try:
            n, k = dyadic(o)
            return {'f': [n, k]}
        except ValueError:
            return {'o': 'float:' + repr(o)}
    if isinstance(o, str):
        return str(o)
    if isinstance(o, (bytes, bytearray)):
        return {'b': bytes(o).hex()}
    if isinstance(o, cabc.Mapping):
        return {'d': [[wire(k, depth + 1), wire(v, depth + 1)] for k, v in o.items()]}
    if isinstance(o, list):
        return [wire(x, depth + 1) for x in o]
    if isinstance(o, tuple):
        return {'t': [wire(x, depth + 1) for x in o]}
    if isinstance(o, cabc.Set):
        return {'set': sorted((wire(x, depth + 1) for x in o), key=canon)}
    if isinstance(o, BaseException):
        return {'o': f'exc:{type(o).__name__}:{o}'}
    if isinstance(o, PyTag):
        return {'o': 'PyString', 'value': wire(o.value, depth + 1)}
    val = getattr(o, 'value', None)
    if type(o).__module__.startswith('pypyr.') and val is not None:
        return {'o': f'{type(o).__qualname__}', 'value': wire(val, depth + 1)}
    return {'o': f'{type(o).__module__}.{type(o).__qualname__}'}


def norm(w):
    """Order-insensitive canonical form of a wire value (dict pairs sorted by key)."""
    if isinstance(w, list):
        return [norm(x) for x in w]
    if isinstance(w, dict):
        if 'd' in w:
            return {'d': sorted(([norm(k), norm(v)] for k, v in w['d']), key=lambda kv: canon(kv[0]))}
        if 'set' in w:
            return {'set': sorted((norm(x) for x in w['set']), key=canon)}
        if 't' in w:
            return {'t': [norm(x) for x in w['t']]}
        if 'value' in w:
            return {'o': w.get('o'), 'value': norm(w['value'])}
    return w


def same(mw, iw):
    """Model value `mw` (a set keeps the order in which its members were added) against implementation
    value `iw`."""
    if isinstance(iw, dict) and 'set' in iw:
        if not (isinstance(mw, dict) and 'set' in mw):
            return False
        return sorted(canon(norm(x)) for x in mw['set']) == sorted(canon(norm(x)) for x in iw['set'])
    if isinstance(iw, dict) and 't' in iw:
        return isinstance(mw, dict) and 't' in mw and len(mw['t']) == len(iw['t']) and all(
            same(a, b) for a, b in zip(mw['t'], iw['t']))
    if isinstance(iw, list):
        return isinstance(mw, list) and len(mw) == len(iw) and all(same(a, b) for a, b in zip(mw, iw))
    if isinstance(iw, dict) and 'd' in iw:
        if not (isinstance(mw, dict) and 'd' in mw) or len(mw['d']) != len(iw['d']):
            return False
        md = {canon(k): v for k, v in mw['d']}
        return all(canon(k) in md and same(md[canon(k)], v) for k, v in iw['d'])
    if isinstance(iw, dict) and 'o' in iw:      # a non-data object: a leaf of the model named by its description
        return mw == 'obj:' + canon(iw)
    return canon(mw) == canon(iw)


def block_of_wire(w):
    """A fresh value (wire form) as a model block: preorder cells, cell 0 is the value."""
    cells = []

    def add(x):
        i = len(cells)
        cells.append(None)
        if isinstance(x, list):
            cells[i] = {'list': [add(y) for y in x]}
        elif isinstance(x, dict) and 'd' in x:
            cells[i] = {'dict': [[key_str(k), add(v)] for k, v in x['d']]}
        elif isinstance(x, dict) and 'set' in x:
            cells[i] = {'set': [add(y) for y in x['set']]}
        elif isinstance(x, dict) and 't' in x:
            cells[i] = {'tuple': [add(y) for y in x['t']]}
        elif isinstance(x, dict) and 'o' in x:
            cells[i] = {'leaf': 'obj:' + canon(x)}
        else:
            cells[i] = {'leaf': x}
        return i
    add(w)
    return cells


def key_str(k):
    return k if isinstance(k, str) else '\x00' + canon(k)


def val_wire(w):
    """Wire value -> the `Val` wire form the driver decodes for step configurations: string keys, a
    non-data object as the leaf text `block_of_wire` gives it."""
    if isinstance(w, list):
        return [val_wire(x) for x in w]
    if isinstance(w, dict):
        if 'd' in w:
            return {'d': [[key_str(k), val_wire(v)] for k, v in w['d']]}
        if 'set' in w:
            return {'set': [val_wire(x) for x in w['set']]}
        if 't' in w:
            return {'t': [val_wire(x) for x in w['t']]}
        if 'o' in w:
            return 'obj:' + canon(w)
    return w


def vw(v):
    return val_wire(wire(v))


# ---------------------------------------------------------------------------------------------
# id() graphs
# ---------------------------------------------------------------------------------------------

def children(o):
    if isinstance(o, cabc.Mapping):
        for k, v in o.items():
            yield k
            yield v
    elif isinstance(o, (list, tuple)):
        yield from o
    elif isinstance(o, cabc.Set):
        yield from o
    else:
        # any other object: LOOK INSIDE it - a yaml tag object (`.value`: for !jsonify a ruamel mapping / sequence),
        # an instance with attributes that hold containers (__dict__ / __slots__ walk)
        for _, v in attr_items(o):
            yield v


_NO_WALK = (types.ModuleType, type, types.CodeType, types.FrameType, types.FunctionType, types.BuiltinFunctionType,
            types.MethodType, types.MethodDescriptorType, types.WrapperDescriptorType, types.GetSetDescriptorType,
            types.MemberDescriptorType, types.TracebackType, types.GeneratorType, logging.Logger, logging.Handler,
            threading.Thread, bytearray, BaseException)


def attr_items(o):
    """(attribute name, value) of an object that is neither an atom nor one of the containers: instance dict,
    then the slots of its classes. Modules, classes, functions, code and similar are not walked."""
    if is_atom(o) or isinstance(o, _NO_WALK) or isinstance(o, (cabc.Mapping, list, tuple, cabc.Set)):
        return []
    out = []
    try:
        d = getattr(o, '__dict__', None)
        if isinstance(d, dict):
            out += [(str(k), v) for k, v in list(d.items())]
        for cls in type(o).__mro__:
            slots = cls.__dict__.get('__slots__', ())
            for name in ((slots,) if isinstance(slots, str) else tuple(slots)):
                if name in ('__dict__', '__weakref__'):
                    continue
                try:
                    out.append((name, object.__getattribute__(o, name)))
                except AttributeError:
                    pass
    except Exception:      # noqa: BLE001 - an object that does not let itself be inspected has no children here
        return out
    return out


def reach(roots):
    """id -> object for every non-atom object reachable from `roots`."""
    seen = {}
    todo = list(roots)
    while todo:
        o = todo.pop()
        if is_atom(o) or id(o) in seen:
            continue
        seen[id(o)] = o
        todo.extend(children(o))
    return seen


def graph_block(roots):
    """The object graph below `roots` as one model block. Returns (cells, {id: index}, [root index]).
    Containers keep their identity (one cell per object); atoms get a cell per occurrence."""
    cells, idx = [], {}

    def add(o):
        if not is_container(o):
            cells.append({'leaf': leaf_wire(o)})
            return len(cells) - 1
        if id(o) in idx:
            return idx[id(o)]
        i = len(cells)
        idx[id(o)] = i
        cells.append(None)
        if isinstance(o, cabc.Mapping):
            cells[i] = {'dict': [[key_str(wire(k)), add(v)] for k, v in o.items()]}
        elif isinstance(o, tuple):
            cells[i] = {'tuple': [add(x) for x in o]}
        elif isinstance(o, cabc.Set):
            cells[i] = {'set': [add(x) for x in sorted(o, key=lambda x: canon(wire(x)))]}
        else:
            cells[i] = {'list': [add(x) for x in o]}
        return i
    rts = [add(r) for r in roots]
    return cells, idx, rts


def leaf_wire(o):
    w = wire(o)
    if isinstance(w, dict) and 'o' in w:
        return 'obj:' + canon(w)
    return w


class SharedIndex:
    """The shared state of the process as the model sees it: `defs` (one block per cached
    definition, in the order of `names`), `cfg` (config.vars = cell 0, then config.shortcuts)."""

    def __init__(self, names, pipelines, config):
        self.names = list(names)
        self.keep = []             # keeps the indexed objects alive: ids stay valid
        self.ref_of = {}           # id -> model address
        self.label_of = {}         # id -> human readable location
        self.defs = []
        for n, name in enumerate(self.names):
            body = pipelines[name]
            cells, idx, _ = graph_block([body])
            self.defs.append(cells)
            self._register(body, idx, {'g': 'defn', 'n': n}, f'definition {name}')
        vars_, shortcuts = config.vars, config.shortcuts
        if not isinstance(vars_, cabc.Mapping):
            raise common.Infra('config.vars is not a mapping')
        cells, idx, roots = graph_block([vars_, shortcuts])
        if not cells or roots[0] != 0:
            raise common.Infra('config.vars is not cell 0 of the config block')
        self.cfg = cells
        self.shortcuts_root = roots[1]
        self._register(vars_, idx, {'g': 'config'}, 'config.vars')
        self._register(shortcuts, idx, {'g': 'config'}, 'config.shortcuts')
        self.vars_obj, self.shortcuts_obj = vars_, shortcuts

    def _register(self, root, idx, reg, what):
        self.keep.append(root)
        paths = {}

        def walk(o, path):
            if is_atom(o) or id(o) in paths:
                return
            paths[id(o)] = path
            if isinstance(o, cabc.Mapping):
                for k, v in o.items():
                    walk(v, path + [k])
            elif isinstance(o, (list, tuple)):
                for i, v in enumerate(o):
                    walk(v, path + [i])
            elif not isinstance(o, cabc.Set):
                for a, v in attr_items(o):
                    walk(v, path + ['.' + a])
        walk(root, [])
        for i, o in reach([root]).items():
            if i in idx:
                self.ref_of.setdefault(i, dict(reg, i=idx[i]))
            # objects the model has no cell for (a tag object, what its `.value` holds, anything inside another
            # object's attributes) are known to the id() monitor all the same: label without a model address
            if i in idx or i in paths:
                self.label_of.setdefault(i, {'what': what, 'path': [p if isinstance(p, (int, str)) else repr(p)
                                                                     for p in paths.get(i, ['?'])]})

    def ref_at(self, src):
        """Symbolic address -> model address, by following the path through the block's cells (works for
        atoms too). src = {'defn': name, 'path': [...]} | {'config': ['vars' | 'shortcuts', ...]}."""
        if 'defn' in src:
            n = self.names.index(src['defn'])
            cells, at, reg, path = self.defs[n], 0, {'g': 'defn', 'n': n}, src['path']
        else:
            cells, reg, path = self.cfg, {'g': 'config'}, src['config'][1:]
            at = 0 if src['config'][0] == 'vars' else self.shortcuts_root
        for p in path:
            c = cells[at]
            if 'dict' in c and isinstance(p, str):
                nxt = [j for k, j in c['dict'] if k == p]
                if not nxt:
                    raise common.Infra(f'no model address for {src}: no key {p!r}')
                at = nxt[0]
            elif 'list' in c and isinstance(p, int) and p < len(c['list']):
                at = c['list'][p]
            else:
                raise common.Infra(f'no model address for {src} at {p!r}')
        return dict(reg, i=at)

    def foreign(self, ctx):
        """Shared non-atom objects reachable from the context object: (model addresses of all of them, labels
        of the MUTABLE ones, labels of those that are immutable all the way down - atom-only tuples,
        frozensets: sharing them is as harmless as sharing atoms)."""
        seen = reach([ctx])
        hits = [i for i in seen if i in self.label_of]
        # an object that is immutable all the way down (an atom-only tuple: `copy.deepcopy` hands back the very same
        # object) is shared like an atom is - unobservable; the model gives every copy cells of its own
        refs = sorted((self.ref_of[i] for i in hits if i in self.ref_of and not deep_immutable(seen[i])), key=canon)
        labels = sorted((self.label_of[i] for i in hits if not deep_immutable(seen[i])), key=canon)
        frozen = sorted((self.label_of[i] for i in hits if deep_immutable(seen[i])), key=canon)
        return refs, labels, frozen


def deep_immutable(o, depth=0):
    if is_atom(o) or isinstance(o, frozenset):
        return True
    if isinstance(o, tuple):
        return depth < 50 and all(deep_immutable(x, depth + 1) for x in o)
    # a value object of the package itself (a `!py` / `!sic` tag, a `!jsonify` of a scalar) that holds atoms only:
    # shared like an atom is; one that holds a container (a `!jsonify` of a mapping / sequence) is not
    if type(o).__module__.startswith('pypyr.') and not isinstance(o, (cabc.Mapping, list, cabc.Set) + _NO_WALK):
        items = attr_items(o)
        return bool(items) and depth < 50 and all(deep_immutable(v, depth + 1) for _, v in items)
    return False


# ---------------------------------------------------------------------------------------------
# yaml tag objects (!jsonify / !py / !sic) as arguments: pipelines as text + a step that changes, in place, every
# mutable container it can reach from the context - THROUGH objects' attributes too
# ---------------------------------------------------------------------------------------------

POISON_SRC = '''"""step of the C12 harness: in-place change of every mutable container reachable from the context,
looking inside objects (a tag object's .value, instance attributes)."""
import collections.abc as cabc

ATOMS = (type(None), bool, int, float, str, bytes, complex)


def attrs(o):
    out = []
    d = getattr(o, '__dict__', None)
    if isinstance(d, dict):
        out += list(d.values())
    for cls in type(o).__mro__:
        slots = cls.__dict__.get('__slots__', ())
        for name in ((slots,) if isinstance(slots, str) else tuple(slots)):
            try:
                out.append(object.__getattribute__(o, name))
            except AttributeError:
                pass
    return out


def poison(roots, mark, skip=()):
    seen = set(id(x) for x in skip)
    count = 0
    todo = list(roots)
    while todo:
        o = todo.pop()
        if isinstance(o, ATOMS) or id(o) in seen or isinstance(o, (type, BaseException)) or callable(o):
            continue
        seen.add(id(o))
        if isinstance(o, cabc.MutableMapping):
            todo.extend(list(o.values()))
            o['poison'] = o.get('poison', '') + mark
            count += 1
        elif isinstance(o, list):
            todo.extend(list(o))
            o.append(mark)
            count += 1
        elif isinstance(o, tuple):
            todo.extend(o)
        elif isinstance(o, cabc.MutableSet):
            o.add(mark)
            count += 1
        elif isinstance(o, (bytearray, cabc.Set, cabc.Mapping)):
            pass
        elif type(o).__module__ != 'builtins':
            todo.extend(attrs(o))
    return count


def run_step(context):
    """Every value of the context (not the Context object's own top level)."""
    mark = str(dict.get(context, 'tag', '?'))
    n = poison(list(dict.values(context)), mark)
    context['poisoned'] = dict.get(context, 'poisoned', 0) + n
'''


# ---------------------------------------------------------------------------------------------
# yaml rendering
# ---------------------------------------------------------------------------------------------

def yv(v):
    """Python plain value -> yaml flow text (JSON where possible, `!!set` for sets)."""
    if isinstance(v, (set, frozenset)):
        items = sorted(v, key=lambda x: canon(wire(x)))
        return '!!set {' + ', '.join(f'{yv(x)}: null' for x in items) + '}' if items else '!!set {}'
    if isinstance(v, dict):
        return '{' + ', '.join(f'{json.dumps(str(k))}: {yv(x)}' for k, x in v.items()) + '}'
    if isinstance(v, (list, tuple)):
        return '[' + ', '.join(yv(x) for x in v) + ']'
    if isinstance(v, PyTag):
        return '!py ' + json.dumps(v.value, ensure_ascii=True)
    return json.dumps(v, ensure_ascii=True)


def render_pipe(pipe, probes=False):
    lines = []
    if pipe.get('parser'):
        lines.append(f"context_parser: {pipe['parser']}")
    lines.append('steps:')
    if probes:
        lines.append('  - vobs')
    for st in pipe['steps']:
        lines.append('  - ' + (st if isinstance(st, str) else yv(st)))
        if probes:
            lines.append('  - vobs')
    if not pipe['steps'] and not probes:
        lines[-1] = 'steps: []'
    for gname, gsteps in (pipe.get('groups') or {}).items():      # step groups that `pypyr.steps.call` runs
        lines.append(f'{gname}:')
        for st in gsteps:
            lines.append('  - ' + (st if isinstance(st, str) else yv(st)))
            if probes:
                lines.append('  - vobs')
        if not gsteps:
            lines[-1] = f'{gname}: []'
    return '\n'.join(lines) + '\n'


# ---------------------------------------------------------------------------------------------
# generator: pipelines of real steps + what each run does to objects
# ---------------------------------------------------------------------------------------------

ATOMS = [0, 1, 2, 3, 7, 'a', 'b', 'xy', 'q r', True, False, None]
STEP_KINDS = ['append_in', 'append_ctx', 'add', 'add_in', 'set', 'setf', 'set_ff', 'default', 'merge',
              'contextcopy', 'py_append', 'py_extend', 'py_dictset', 'py_add', 'py_alias', 'py_in',
              'configvars', 'foreach', 'foreach_list', 'foreach_dict', 'foreach_set', 'onerror', 'retry', 'while',
              'call', 'pype_parent', 'pype_child', 'pype_arglist', 'ticks', 'foreach_probe', 'fail']


def gen_atom(rng):
    return rng.choice(ATOMS)


EMPTY_P = 0.22      # how often a generated container is EMPTY (at every nesting level)


def gen_size(rng, lo=1, hi=3):
    return 0 if rng.random() < EMPTY_P else rng.randint(lo, hi)


def gen_val(rng, depth=2, kind=None):
    """Brace-free plain value: atoms, lists, dicts with str keys; containers are empty now and then,
    and below the last level an empty container stands where an atom would."""
    if kind is None:
        if depth > 0:
            kind = rng.choice(['atom', 'atom', 'list', 'dict'])
        else:
            c = rng.random()
            return [] if c < 0.08 else {} if c < 0.16 else gen_atom(rng)
    if kind == 'atom':
        return gen_atom(rng)
    if kind == 'list':
        return [gen_val(rng, depth - 1) for _ in range(gen_size(rng))]
    if kind == 'dict':
        return {f'm{j}': gen_val(rng, depth - 1) for j in range(gen_size(rng))}
    if kind == 'set':
        return {x for x in (gen_hashable(rng) for _ in range(gen_size(rng)))}
    if kind == 'tuple':      # an immutable container that may hold mutable ones (deepcopy copies it then)
        return tuple(gen_val(rng, depth - 1) for _ in range(gen_size(rng)))
    raise ValueError(kind)


def gen_hashable(rng):
    # no bools: 1 == True inside a set
    return rng.choice([0, 1, 2, 3, 7, 'a', 'b', 'xy'])


def py_lit(v):
    return repr(v)


def py_unit(*forms):
    """A `pypyr.steps.py` step as the list of the code forms it is rendered from (`PyForm` of the model)."""
    return {'i': 'py', 'forms': list(forms)}


def F_append(path, w):
    return {'f': 'append', 'path': list(path), 'w': vw(w)}


def F_setitem(path, k, w):
    return {'f': 'setItem', 'path': list(path), 'k': k, 'w': vw(w)}


def F_add(path, a):
    return {'f': 'add', 'path': list(path), 'a': vw(a)}


def F_alias(src, dst):
    return {'f': 'alias', 'src': src, 'dst': dst}


class Emit:
    """Appends steps to one pipeline and the corresponding object-level operations of one run."""

    def __init__(self, gen, pipe, r, shadow, prog, depth=0, group='steps'):
        self.gen, self.pipe, self.r, self.shadow, self.prog, self.depth = gen, pipe, r, shadow, prog, depth
        self.group = group          # the step group of `pipe` this emitter appends to
        self.rng = gen.rng

    def steplist(self):
        pipe = self.gen.pipes[self.pipe]
        return pipe['steps'] if self.group == 'steps' else pipe.setdefault('groups', {}).setdefault(self.group, [])

    # -- primitive emissions (operation + the same change on the shadow value) ----------------
    def op(self, o, r=None):
        self.prog.append([self.r if r is None else r, o])

    def unit(self, instr, r=None):
        """The operations emitted from here on (until the next unit) are this emitter's READING of the
        step-level unit `instr` (lean/PypyrModel/Heap.lean `Instr`); the driver reads the unit itself
        (`opsOf`) and the two readings are compared."""
        self.prog.append(['instr', self.r if r is None else r, instr])

    def obs(self):
        self.prog.append(['obs', self.r])

    def node(self, path):
        o = self.shadow
        for p in path:
            o = o[p]
        return o

    def set_key(self, k, v):
        self.op({'o': 'setKey', 'key': k, 'v': wire(v)})
        self.shadow[k] = v

    def dict_set(self, path, k, v):
        v = copy.deepcopy(v)
        if not path:
            return self.set_key(k, v)
        self.op({'o': 'dictSetAt', 'path': list(path), 'k': k, 'v': wire(v)})
        self.node(path)[k] = v

    def append(self, path, v):
        v = copy.deepcopy(v)
        self.op({'o': 'appendAt', 'path': list(path), 'v': wire(v)})
        self.node(path).append(v)

    def extend(self, path, vs):
        vs = copy.deepcopy(list(vs))
        self.op({'o': 'extendAt', 'path': list(path), 'vs': [wire(v) for v in vs]})
        self.node(path).extend(vs)

    def add(self, path, a):
        self.op({'o': 'addAt', 'path': list(path), 'v': wire(a)})
        self.node(path).add(a)

    def copy_key(self, src, dst):
        self.op({'o': 'copyKey', 'src': src, 'dst': dst})
        self.shadow[dst] = self.shadow[src]

    def append_step(self, K, W, unpack):
        """`pypyr.steps.append` with `list: K`: appends to / extends the list in place if `context.get(K)`
        is TRUTHY, otherwise (no such key, None, an EMPTY list) binds a new list."""
        if self.shadow.get(K):
            return self.extend([K], W) if unpack else self.append([K], W)
        return self.set_key(K, copy.deepcopy(list(W)) if unpack else [copy.deepcopy(W)])

    def add_step(self, K, a):
        """`pypyr.steps.add` with `set: K`: same truthiness rule as append."""
        if self.shadow.get(K):
            return self.add([K], a)
        return self.set_key(K, {a})

    # -- steps ----------------------------------------------------------------------------
    def step(self, name, inargs, body, foreach=None, retry=None, retry_fail_until=0, while_max=None,
             on_error=None, swallow=False, fails=None, instr=None, unswallowed=False):
        """One step of the pipeline + what running it does to objects.  `foreach`: the items are objects
        of the DEFINITION that the step copies by formatting before `i` is bound to them (operation
        `fmtSetAt`); `fails` (an exception instance) + `swallow`: the body raises it, `Step.save_error`
        then records it – with the formatted `onError` value of the definition – under `runErrors`."""
        steps = self.steplist()
        idx = len(steps)
        st = {'name': name}
        if inargs:
            st['in'] = inargs
        if foreach is not None:
            st['foreach'] = foreach
        if retry is not None:
            st['retry'] = retry
        if while_max is not None:
            st['while'] = {'max': while_max}
        if swallow:
            st['swallow'] = True
        if on_error is not None:
            st['onError'] = on_error
        steps.append(st)
        if inargs:
            self.unit({'i': 'enter', 'ins': [[k, {'defn': self.pipe, 'path': [self.group, idx, 'in', k]}] for k in inargs]})
        for k, v in inargs.items():
            self.op({'o': 'inCopy', 'key': k, 'src': {'defn': self.pipe, 'path': [self.group, idx, 'in', k]}})
            self.shadow[k] = copy.deepcopy(v)

        def once():
            if instr is not None:        # None: the body is made of steps of its own (call, pype)
                self.unit(instr() if callable(instr) else instr)
            body()
            self.obs()
            if fails is not None:
                self.save_error(idx, name, fails, on_error, swallow)
            if unswallowed:
                self.unit({'i': 'raise'})
                self.op({'o': 'fail'})
                self.gen.failed = True

        def counter(cname, n):
            self.unit({'i': 'counter', 'name': cname, 'n': n})
            self.set_key(cname, n)
        if foreach is not None:
            for j, item in enumerate(foreach):
                src = {'defn': self.pipe, 'path': [self.group, idx, 'foreach', j]}
                self.unit({'i': 'foreachItem', 'src': src})
                self.op({'o': 'fmtSetAt', 'path': [], 'k': 'i', 'src': src})
                self.shadow['i'] = copy.deepcopy(item)
                once()
        elif retry is not None:
            counter('retryCounter', 0)
            for n in range(1, retry_fail_until + 1):
                counter('retryCounter', n)
                once()
        elif while_max is not None:
            for n in range(1, while_max + 1):
                counter('whileCounter', n)
                once()
        else:
            once()
        if self.gen.failed:          # the exception went through: the step's `in` arguments stay where they are
            return st
        if inargs:
            self.unit({'i': 'leave', 'keys': list(inargs)})
        for k in inargs:
            self.op({'o': 'unsetIn', 'key': k})
            self.shadow.pop(k, None)
        return st

    def save_error(self, idx, name, exc, on_error, swallowed):
        """`Step.save_error`: `context.setdefault('runErrors', []).append({… 'customError':
        context.get_formatted_value(self.on_error) if self.on_error else {} …})`."""
        parser = 1 if self.gen.pipes[self.pipe].get('parser') else 0
        failure = {'name': type(exc).__name__, 'description': str(exc), 'customError': None,
                   'line': parser + 2 + idx, 'col': 5, 'step': name, 'exception': exc, 'swallowed': swallowed}
        self.unit({'i': 'saveError', 'failure': vw(failure),
                   'onError': {'defn': self.pipe, 'path': [self.group, idx, 'onError']} if on_error else None})
        if 'runErrors' not in self.shadow:
            self.set_key('runErrors', [])
        n = len(self.shadow['runErrors'])
        self.append(['runErrors'], failure)
        if on_error:
            self.op({'o': 'fmtSetAt', 'path': ['runErrors', n], 'k': 'customError',
                     'src': {'defn': self.pipe, 'path': [self.group, idx, 'onError']}})
            self.shadow['runErrors'][n]['customError'] = copy.deepcopy(on_error)
        else:
            self.dict_set(['runErrors', n], 'customError', {})

    def simple(self, name, body, instr):
        self.steplist().append(name)
        self.unit(instr)
        body()
        self.obs()

    # -- where things are in the shadow context -----------------------------------------------
    def paths(self, pred, top_only=False):
        out = []

        def walk(o, path):
            if path and pred(o):
                out.append(path)
            if top_only and path:
                return
            if len(path) >= 4:
                return
            if isinstance(o, dict):
                for k, v in o.items():
                    if isinstance(k, str):
                        walk(v, path + [k])
            elif isinstance(o, list):
                for i, v in enumerate(o):
                    walk(v, path + [i])
        walk(self.shadow, [])
        # not the `call` argument itself: Step.reset_context_counters puts it back after the called group
        return [p for p in out if isinstance(p[0], str) and p[0].isidentifier() and p[0] != 'call']

    def fresh_key(self, prefix):
        self.gen.nkey += 1
        return f'{prefix}{self.gen.nkey}'

    @staticmethod
    def expr(path):
        return path[0] + ''.join(f'[{p!r}]' for p in path[1:])

    # -- step kinds -----------------------------------------------------------------------------
    def emit(self, kind, forced=None):
        rng = self.rng
        forced = forced or {}
        self.gen.kinds.append(kind)
        lists = self.paths(lambda o: isinstance(o, list))      # also the EMPTY ones
        dicts = self.paths(lambda o: isinstance(o, dict))
        sets = self.paths(lambda o: isinstance(o, set))
        tops = [p for p in self.paths(lambda o: True, top_only=True)]
        if kind == 'append_in':       # the F4 shape: a container given under `in`, mutated in place
            K = self.fresh_key('l')
            unpack = rng.random() < 0.3
            W = gen_val(rng, 1, 'list') if unpack else gen_val(rng, 2)
            arg = {'list': K, 'addMe': W}
            if unpack:
                arg['unpack'] = True
            V = gen_val(rng, 2, 'list')
            self.step('pypyr.steps.append', {K: V, 'append': arg}, lambda: self.append_step(K, W, unpack),
                      instr={'i': 'append', 'K': K, 'W': vw(W), 'unpack': unpack})
        elif kind == 'append_ctx':
            cands = [p for p in lists if len(p) == 1]
            unpack = rng.random() < 0.3
            W = gen_val(rng, 1, 'list') if unpack else gen_val(rng, 2)
            K = rng.choice(cands)[0] if cands and rng.random() < 0.8 else self.fresh_key('l')
            arg = {'list': K, 'addMe': W}
            if unpack:
                arg['unpack'] = True
            self.step('pypyr.steps.append', {'append': arg}, lambda: self.append_step(K, W, unpack),
                      instr={'i': 'append', 'K': K, 'W': vw(W), 'unpack': unpack})
        elif kind == 'add':
            cands = [p for p in sets if len(p) == 1]
            a = gen_hashable(rng)
            K = forced.get('K') or (rng.choice(cands)[0] if cands and rng.random() < 0.8 else self.fresh_key('s'))
            self.step('pypyr.steps.add', {'add': {'set': K, 'addMe': a}}, lambda: self.add_step(K, a),
                      instr={'i': 'add', 'K': K, 'a': vw(a)})
        elif kind == 'add_in':        # a set given under `in` (yaml !!set), added to in place
            K = self.fresh_key('s')
            a = gen_hashable(rng)
            self.step('pypyr.steps.add', {K: gen_val(rng, 1, 'set'), 'add': {'set': K, 'addMe': a}},
                      lambda: self.add_step(K, a), instr={'i': 'add', 'K': K, 'a': vw(a)})
        elif kind in ('set', 'setf'):
            pairs = {self.fresh_key('k') if rng.random() < 0.7 or not tops else rng.choice(tops)[0]: gen_val(rng, 2)
                     for _ in range(rng.randint(1, 2))}
            key = 'set' if kind == 'set' else 'contextSetf'

            def body():
                if kind == 'set':     # the step pops its own argument first
                    self.op({'o': 'unsetIn', 'key': 'set'})
                    self.shadow.pop('set', None)
                for k, v in pairs.items():
                    self.set_key(k, copy.deepcopy(v))
            self.step('pypyr.steps.' + ('set' if kind == 'set' else 'contextsetf'), {key: pairs}, body,
                      instr={'i': kind, 'pairs': [[k, vw(v)] for k, v in pairs.items()]})
        elif kind == 'set_ff':        # '{src:ff}' returns the object itself: aliasing inside the run
            cands = [p for p in tops if is_container(self.node(p))]
            if not cands:
                return self.emit('set')
            src = rng.choice(cands)[0]
            dst = self.fresh_key('k')

            def body():
                self.op({'o': 'unsetIn', 'key': 'set'})
                self.shadow.pop('set', None)
                self.copy_key(src, dst)
            self.step('pypyr.steps.set', {'set': {dst: '{' + src + ':ff}'}}, body,
                      instr={'i': 'setff', 'dst': dst, 'src': src})
        elif kind == 'default':
            dfl = self.overlay(dicts, tops)
            self.step('pypyr.steps.default', {'defaults': dfl}, lambda: self.default_ops([], self.shadow, dfl),
                      instr={'i': 'default', 'v': vw(dfl)})
        elif kind == 'merge':
            add = self.overlay(dicts, tops)
            self.step('pypyr.steps.contextmerge', {'contextMerge': add}, lambda: self.merge_ops([], self.shadow, add),
                      instr={'i': 'merge', 'v': vw(add)})
        elif kind == 'contextcopy':
            if not tops:
                return self.emit('set')
            src = rng.choice(tops)[0]
            dst = self.fresh_key('k')
            self.step('pypyr.steps.contextcopy', {'contextCopy': {dst: src}}, lambda: self.copy_key(src, dst),
                      instr={'i': 'contextcopy', 'dst': dst, 'src': src})
        elif kind == 'py_append':
            if not lists:
                return self.emit('append_ctx')
            p = rng.choice(lists)
            W = gen_val(rng, 2)
            self.step('pypyr.steps.py', {'py': f'{self.expr(p)}.append({py_lit(W)})'}, lambda: self.append(p, W),
                      instr=py_unit(F_append(p, W)))
        elif kind == 'py_extend':
            if not lists:
                return self.emit('append_ctx')
            p = rng.choice(lists)
            W = gen_val(rng, 1, 'list')
            self.step('pypyr.steps.py', {'py': f'{self.expr(p)}.extend({py_lit(W)})'}, lambda: self.extend(p, W),
                      instr=py_unit({'f': 'extend', 'path': list(p), 'ws': [vw(x) for x in W]}))
        elif kind == 'py_dictset':
            if not dicts:
                return self.emit('set')
            p = rng.choice(dicts)
            node = self.node(p)
            k2 = rng.choice(list(node)) if node and rng.random() < 0.4 else self.fresh_key('m')
            if not isinstance(k2, str):
                k2 = self.fresh_key('m')
            W = gen_val(rng, 2)
            self.step('pypyr.steps.py', {'py': f'{self.expr(p)}[{k2!r}] = {py_lit(W)}'},
                      lambda: self.dict_set(p, k2, W), instr=py_unit(F_setitem(p, k2, W)))
        elif kind == 'py_add':
            if not sets:
                return self.emit('add')
            p = rng.choice(sets)
            a = gen_hashable(rng)
            self.step('pypyr.steps.py', {'py': f'{self.expr(p)}.add({py_lit(a)})'}, lambda: self.add(p, a),
                      instr=py_unit(F_add(p, a)))
        elif kind == 'py_alias':
            cands = [p for p in tops if is_container(self.node(p))]
            if not cands:
                return self.emit('set')
            src = rng.choice(cands)[0]
            dst = self.fresh_key('k')
            self.step('pypyr.steps.py', {'py': f"{dst} = {src}\nsave('{dst}')"}, lambda: self.copy_key(src, dst),
                      instr=py_unit(F_alias(src, dst)))
        elif kind == 'py_in':         # a container under `in`, mutated by py code and kept under another key
            K, dst = self.fresh_key('l'), self.fresh_key('k')
            V = gen_val(rng, 2, rng.choice(['list', 'dict']))
            W = gen_val(rng, 1)
            if isinstance(V, list):
                code = f"{K}.append({py_lit(W)})\n{dst} = {K}\nsave('{dst}')"

                forms = [F_append([K], W), F_alias(K, dst)]

                def body():
                    self.append([K], W)
                    self.copy_key(K, dst)
            else:
                code = f"{K}['zz'] = {py_lit(W)}\n{dst} = {K}\nsave('{dst}')"

                forms = [F_setitem([K], 'zz', W), F_alias(K, dst)]

                def body():
                    self.dict_set([K], 'zz', W)
                    self.copy_key(K, dst)
            self.step('pypyr.steps.py', {K: V, 'py': code}, body, instr=py_unit(*forms))
        elif kind == 'configvars':
            def body():
                self.op({'o': 'configvarsCopy'})
                for k, v in self.gen.config['vars'].items():
                    self.shadow[k] = copy.deepcopy(v)
            self.simple('pypyr.steps.configvars', body, {'i': 'configvars'})
        elif kind in ('foreach', 'foreach_list', 'foreach_dict', 'foreach_set'):
            # items of the definition (containers, EMPTY ones included, nested) that the step copies by
            # formatting; the body changes the current item IN PLACE through `i` (py, contextmerge
            # into `i`, append / add on `i`) and keeps it beyond the loop under another key
            shape = {'foreach': rng.choice(['list', 'dict', 'set']), 'foreach_list': 'list', 'foreach_dict': 'dict',
                     'foreach_set': 'set'}[kind]
            n = len(forced['items']) if 'items' in forced else rng.randint(1, 3)
            W = gen_val(rng, 1)
            acc = self.fresh_key('k')
            keep = f"\n{acc} = i\nsave('{acc}')" if rng.random() < 0.6 else ''

            def kept():
                if keep:
                    self.copy_key('i', acc)
            kforms = [F_alias('i', acc)] if keep else []
            if shape == 'list':
                items = forced.get('items') or [gen_val(rng, 1, 'list') for _ in range(n)]
                how = forced.get('how') or rng.choice(['py', 'merge', 'append'])
                if how == 'py':
                    def body():
                        self.append(['i'], W)
                        kept()
                    self.step('pypyr.steps.py', {'py': f'i.append({py_lit(W)})' + keep}, body, foreach=items,
                              instr=py_unit(F_append(['i'], W), *kforms))
                elif how == 'merge':
                    add = {'i': gen_val(rng, 1, 'list')}
                    self.step('pypyr.steps.contextmerge', {'contextMerge': add},
                              lambda: self.merge_ops([], self.shadow, add), foreach=items, instr={'i': 'merge', 'v': vw(add)})
                else:
                    self.step('pypyr.steps.append', {'append': {'list': 'i', 'addMe': W}},
                              lambda: self.append_step('i', W, False), foreach=items,
                              instr={'i': 'append', 'K': 'i', 'W': vw(W), 'unpack': False})
            elif shape == 'dict':
                items = [{'name': gen_atom(rng), 'done': gen_val(rng, 1, 'list'), 'meta': gen_val(rng, 1, 'dict')}
                         for _ in range(n)]
                if rng.random() < 0.3:
                    items[rng.randrange(n)] = {'name': gen_atom(rng), 'done': [], 'meta': {}}
                items = forced.get('items') or items
                how = forced.get('how') or rng.choice(['py_list', 'py_dict', 'merge', 'merge'])
                if how == 'py_list':
                    def body():
                        self.append(['i', 'done'], W)
                        kept()
                    self.step('pypyr.steps.py', {'py': f"i['done'].append({py_lit(W)})" + keep}, body, foreach=items,
                              instr=py_unit(F_append(['i', 'done'], W), *kforms))
                elif how == 'py_dict':
                    def body():
                        self.dict_set(['i', 'meta'], 'zz', W)
                        kept()
                    self.step('pypyr.steps.py', {'py': f"i['meta']['zz'] = {py_lit(W)}" + keep}, body, foreach=items,
                              instr=py_unit(F_setitem(['i', 'meta'], 'zz', W), *kforms))
                else:
                    add = {'i': {'done': gen_val(rng, 1, 'list'), 'meta': {'zz': W}}}
                    if rng.random() < 0.5:
                        add[self.fresh_key('k')] = gen_val(rng, 1)
                    self.step('pypyr.steps.contextmerge', {'contextMerge': add},
                              lambda: self.merge_ops([], self.shadow, add), foreach=items, instr={'i': 'merge', 'v': vw(add)})
            else:
                items = forced.get('items') or [gen_val(rng, 1, 'set') for _ in range(n)]
                a = gen_hashable(rng)
                if (forced.get('how') or rng.choice(['py', 'add'])) == 'py':
                    def body():
                        self.add(['i'], a)
                        kept()
                    self.step('pypyr.steps.py', {'py': f'i.add({py_lit(a)})' + keep}, body, foreach=items,
                              instr=py_unit(F_add(['i'], a), *kforms))
                else:
                    self.step('pypyr.steps.add', {'add': {'set': 'i', 'addMe': a}}, lambda: self.add_step('i', a),
                              foreach=items, instr={'i': 'add', 'K': 'i', 'a': vw(a)})
        elif kind == 'onerror' and (not isinstance(self.shadow.get('runErrors', []), list) or self.group != 'steps'):
            # an earlier step bound runErrors to something save_error cannot append to / inside a called group
            # (the line number save_error records is only known once the whole file is laid out)
            return self.emit('set')
        elif kind == 'onerror':
            # a step that fails and is swallowed: `Step.save_error` keeps the formatted `onError` value of
            # the definition under runErrors; a later step changes that value in place
            E = rng.choice([gen_val(rng, 2, 'dict'), gen_val(rng, 2, 'list'), {'why': [], 'ctx': {}},
                            {'why': gen_val(rng, 1, 'list'), 'ctx': gen_val(rng, 1, 'dict')}, gen_atom(rng)])
            E = forced.get('onError', E)
            exc = rng.choice([ValueError('boom'), KeyError('nokey'), RuntimeError('stop 1')])
            code = f'raise {type(exc).__name__}({exc.args[0]!r})'
            self.step('pypyr.steps.py', {'py': code}, lambda: None, on_error=E, swallow=True, fails=exc,
                      instr=py_unit({'f': 'raise'}))
            n = len(self.shadow['runErrors']) - 1
            ce = ['runErrors', n, 'customError']
            node = self.node(ce)
            W = gen_val(rng, 1)
            targets = [ce] if isinstance(node, (list, dict)) else []
            if isinstance(node, dict):
                targets += [ce + [k] for k, v in node.items() if isinstance(v, (list, dict))]
            elif isinstance(node, list):
                targets += [ce + [j] for j, v in enumerate(node) if isinstance(v, (list, dict))]
            if targets:
                p = rng.choice(targets)
                if isinstance(self.node(p), list):
                    self.step('pypyr.steps.py', {'py': f'{self.expr(p)}.append({py_lit(W)})'}, lambda: self.append(p, W),
                              instr=py_unit(F_append(p, W)))
                else:
                    self.step('pypyr.steps.py', {'py': f"{self.expr(p)}['zz'] = {py_lit(W)}"},
                              lambda: self.dict_set(p, 'zz', W), instr=py_unit(F_setitem(p, 'zz', W)))
        elif kind == 'retry':         # container-valued retry inputs; the first attempt(s) fail
            cands = [p for p in lists if len(p) == 1 and p[0] not in ('whileCounter', 'retryCounter', 'i')]
            if not cands:
                return self.emit('append_ctx')
            K = rng.choice(cands)[0]
            until = rng.randint(1, 3)
            retry = {'max': 4, 'sleep': [0, 0] if rng.random() < 0.5 else 0, 'retryOn': ['ValueError', 'KeyError'],
                     'stopOn': rng.choice([['TypeError'], []]),
                     'backoffArgs': rng.choice([{'x': [1, 2]}, {'x': []}, {}, {'x': {}, 'y': [[]]}])}
            code = f"{K}.append(retryCounter)\nif retryCounter < {until}:\n    raise ValueError('again')"
            self.step('pypyr.steps.py', {'py': code}, lambda: self.append([K], self.shadow['retryCounter']),
                      retry=retry, retry_fail_until=until,
                      instr=lambda: py_unit(F_append([K], self.shadow['retryCounter']),
                                            *([{'f': 'raise'}] if self.shadow['retryCounter'] < until else [])))
        elif kind == 'while':
            cands = [p for p in lists if len(p) == 1 and p[0] not in ('whileCounter', 'retryCounter', 'i')]
            if not cands:
                return self.emit('append_ctx')
            K = rng.choice(cands)[0]
            W = gen_val(rng, 1, 'list')
            self.step('pypyr.steps.py', {'py': f"{K}.append([whileCounter] + {py_lit(W)})"},
                      lambda: self.append([K], [self.shadow['whileCounter']] + W), while_max=rng.randint(1, 3),
                      instr=lambda: py_unit(F_append([K], [self.shadow['whileCounter']] + W)))
        elif kind == 'call':
            # `pypyr.steps.call`: Step.invoke_step runs another step group of the same pipeline through
            # `context.current_pipeline.steps_runner` - the runner the running Pipeline object holds
            if self.depth > 0:
                return self.emit('set')
            self.gen.ngroup += 1
            gname = f'g{self.gen.ngroup}'
            self.gen.pipes[self.pipe].setdefault('groups', {})[gname] = []

            def body():
                sub = Emit(self.gen, self.pipe, self.r, self.shadow, self.prog, self.depth + 1, group=gname)
                sub.emit_many(rng.randint(1, 2))
            self.step('pypyr.steps.call', {'call': gname}, body)
        elif kind == 'pype_parent':
            if self.depth > 0:
                return self.emit('set')
            child = self.gen.new_child()
            args = {self.fresh_key('a'): gen_val(rng, 2, rng.choice(['list', 'dict', 'atom']))
                    for _ in range(rng.randint(1, 2))}

            def body():
                self.unit({'i': 'setf', 'pairs': [[k, vw(v)] for k, v in args.items()]})
                for k, v in args.items():
                    self.set_key(k, copy.deepcopy(v))
                sub = Emit(self.gen, child, self.r, self.shadow, self.prog, self.depth + 1)
                sub.emit_many(rng.randint(1, 3))
            self.step('pypyr.steps.pype', {'pype': {'name': child, 'args': args, 'useParentContext': True}}, body)
        elif kind == 'pype_child':
            if self.depth > 0:
                return self.emit('set')
            child = self.gen.new_child()
            cr = self.gen.new_child_run()
            args = {self.fresh_key('a'): gen_val(rng, 2, rng.choice(['list', 'dict', 'list']))
                    for _ in range(rng.randint(1, 2))}
            pype = {'name': child, 'args': args, 'useParentContext': False}

            def body():
                cshadow = copy.deepcopy(args)
                self.unit({'i': 'ctxStart', 'v': vw(cshadow)}, r=cr)
                self.op({'o': 'start', 'v': wire(cshadow)}, r=cr)
                sub = Emit(self.gen, child, cr, cshadow, self.prog, self.depth + 1)
                sub.emit_many(rng.randint(1, 3))
                outs = [k for k in cshadow if isinstance(k, str)]
                outs = rng.sample(outs, min(len(outs), rng.randint(1, 2)))
                pype['out'] = outs
                if isinstance(self.shadow.get('pype'), dict):
                    self.shadow['pype']['out'] = list(outs)
                self.unit({'i': 'setf', 'pairs': [[k, vw(cshadow[k])] for k in outs]})
                for k in outs:
                    self.set_key(k, copy.deepcopy(cshadow[k]))
            self.step('pypyr.steps.pype', {'pype': pype}, body)
        elif kind == 'pype_arglist':
            # `pypyr.steps.pype` with `pipeArg: <string>`: the string is split (shlex) into a NEW list, which is the
            # child Pipeline's context_args; the child (a context of its own) has `context_parser: pypyr.parser.list`,
            # which binds THAT list as argList; the child changes argList IN PLACE (a tool wrapper appending its
            # default flags, peeling off a sub-command); the same pipeArg string is used again - by a later pype of
            # this run, by the next run, on another thread: every use must see the args the string spells
            if self.depth > 0:
                return self.emit('set')
            child = self.gen.new_child()
            self.gen.pipes[child]['parser'] = 'pypyr.parser.list'
            cr = self.gen.new_child_run()
            if self.gen.pipeargs and rng.random() < 0.5 and 'toks' not in forced:
                toks = list(rng.choice(self.gen.pipeargs))       # the same string as an earlier pype of this case
            else:
                toks = list(forced.get('toks') or [rng.choice(['lint', 'src', 'k=v', 'x y', '--strict', 'a', "it's"])
                                                   for _ in range(rng.randint(1, 3))])
                self.gen.pipeargs.append(list(toks))
            pype = {'name': child, 'pipeArg': shlex.join(toks)}
            W = gen_atom(rng) if rng.random() < 0.7 else gen_val(rng, 1, 'list')

            def body():
                cshadow = {}
                self.unit({'i': 'ctxStart', 'v': vw(cshadow)}, r=cr)
                self.op({'o': 'start', 'v': wire(cshadow)}, r=cr)
                sub = Emit(self.gen, child, cr, cshadow, self.prog, self.depth + 1)
                sub.unit({'i': 'parserList', 'args': list(toks)})
                sub.set_key('argList', list(toks))
                how = rng.choice(['append', 'py', 'py'])
                if how == 'append':
                    sub.step('pypyr.steps.append', {'append': {'list': 'argList', 'addMe': W}},
                             lambda: sub.append_step('argList', W, False),
                             instr={'i': 'append', 'K': 'argList', 'W': vw(W), 'unpack': False})
                else:
                    sub.step('pypyr.steps.py', {'py': f'argList.append({py_lit(W)})'}, lambda: sub.append(['argList'], W),
                             instr=py_unit(F_append(['argList'], W)))
                sub.emit_many(rng.randint(0, 2))
                outs = ['argList'] if 'argList' in cshadow and rng.random() < 0.8 else []
                more = [k for k in cshadow if isinstance(k, str) and k != 'argList']
                outs += rng.sample(more, min(len(more), rng.randint(0, 1)))
                if outs:
                    pype['out'] = outs
                    if isinstance(self.shadow.get('pype'), dict):
                        self.shadow['pype']['out'] = list(outs)
                    self.unit({'i': 'setf', 'pairs': [[k, vw(cshadow[k])] for k in outs]})
                    for k in outs:
                        self.set_key(k, copy.deepcopy(cshadow[k]))
            self.step('pypyr.steps.pype', {'pype': pype}, body)
        elif kind == 'ticks':
            # hand-off points INSIDE the formatting of a large mapping: every value of `contextSetf` is a `!py`
            # expression calling vobs.tick (a no-op without a hook), which a thread scheduler parks at
            n = rng.randint(5, 12)
            vals = {self.fresh_key('t'): rng.choice([gen_atom(rng), gen_val(rng, 1, 'list')]) for _ in range(n)}
            self.step('pypyr.steps.pyimport', {'pyImport': 'import vobs'}, lambda: None, instr=py_unit())

            def body():
                for k, v in vals.items():
                    self.set_key(k, copy.deepcopy(v))
            self.step('pypyr.steps.contextsetf', {'contextSetf': {k: PyTag(f'vobs.tick({k!r}, {py_lit(v)})') for k, v in vals.items()}},
                      body, instr={'i': 'setf', 'pairs': [[k, vw(v)] for k, v in vals.items()]})
        elif kind == 'foreach_probe':
            # hand-off points inside a foreach: the probe step itself runs once per item
            items = [gen_val(rng, 1, 'list') for _ in range(rng.randint(2, 4))]
            self.step('vobs', {}, lambda: None, foreach=items, instr=py_unit())
        elif kind == 'fail' and (self.depth > 0 or not isinstance(self.shadow.get('runErrors', []), list)):
            return self.emit('set')
        elif kind == 'fail':
            # a step that raises and is NOT swallowed: Step.save_error records it, the exception ends the run
            exc = rng.choice([ValueError('stop here'), KeyError('gone')])
            code = f'raise {type(exc).__name__}({exc.args[0]!r})'
            self.step('pypyr.steps.py', {'py': code}, lambda: None, fails=exc, swallow=False, unswallowed=True,
                      instr=py_unit({'f': 'raise'}))
        else:
            raise ValueError(kind)

    def overlay(self, dicts, tops):
        """A value to merge / default into the context: new keys, existing keys, nested keys."""
        rng = self.rng
        out = {}
        used = set()       # one step does not address ONE object under two keys (aliases made by contextcopy / :ff /
        #                    py): the model reads the context once, when the step starts (ASSUMPTIONS)
        for _ in range(rng.randint(1, 3)):
            c = rng.random()
            if c < 0.4 or not tops:
                out[self.fresh_key('k')] = gen_val(rng, 2)
            elif c < 0.8:
                k = rng.choice(tops)[0]
                cur = self.shadow[k]
                if is_container(cur) and k not in out:
                    if id(cur) in used:
                        out[self.fresh_key('k')] = gen_val(rng, 2)
                        continue
                    used.add(id(cur))
                if isinstance(cur, dict):
                    out[k] = {rng.choice([kk for kk in cur if isinstance(kk, str)] or ['m0']) if rng.random() < 0.5
                              else self.fresh_key('m'): gen_val(rng, 1) for _ in range(rng.randint(1, 2))}
                elif isinstance(cur, list):
                    out[k] = gen_val(rng, 1, 'list')
                else:
                    out[k] = gen_val(rng, 1)
            else:
                k = rng.choice(tops)[0]
                cur = self.shadow[k]
                if is_container(cur) and k not in out:
                    if id(cur) in used:
                        k = self.fresh_key('k')
                    else:
                        used.add(id(cur))
                out[k] = gen_val(rng, 2)
        return out

    def merge_ops(self, path, cur, add):
        """What `Context.merge` does to objects, on the value domain of the generator."""
        for k, v in add.items():
            if isinstance(v, str):
                self.dict_set(path, k, v)
            elif k in cur:
                c = cur[k]
                if isinstance(c, dict) and isinstance(v, dict):
                    self.merge_ops(path + [k], c, v)
                elif isinstance(c, list) and isinstance(v, list):
                    self.extend(path + [k], v)
                else:
                    self.dict_set(path, k, v)
            else:
                self.dict_set(path, k, v)

    def default_ops(self, path, cur, dfl):
        for k, v in dfl.items():
            if k in cur:
                if isinstance(cur[k], dict) and isinstance(v, dict):
                    self.default_ops(path + [k], cur[k], v)
            else:
                self.dict_set(path, k, v)

    def emit_many(self, n, kinds=None):
        for _ in range(n):
            if self.gen.failed:
                break
            pool = kinds or (STEP_KINDS if self.depth == 0 else
                             [k for k in STEP_KINDS if not k.startswith('pype') and k != 'call'])
            self.emit(self.rng.choice(pool))


class ProgGen:
    """One case: pipelines, config, and for every entry point the operations one run performs."""

    def __init__(self, rng, config=None):
        self.rng = rng
        self.pipes = {}
        self.nkey = 0
        self.nchild = 0
        self.nchildrun = 0
        self.ngroup = 0
        self.pipeargs = []         # the pipeArg token lists the pype steps of this case have used
        self.kinds = []
        self.failed = False        # the run being generated has raised: nothing more of it is executed
        self.config = config if config is not None else {'vars': {}, 'shortcuts': {}}

    def new_child(self):
        self.nchild += 1
        name = f'c{self.nchild}'
        self.pipes[name] = {'parser': None, 'steps': []}
        return name

    def new_child_run(self):
        self.nchildrun += 1
        return self.nchildrun

    def entry(self, name, dict_in=None, shortcut=None, args_in=None, parser=None, nsteps=4, kinds=None,
              script=None):
        """Generate pipeline `name` and the program of a run entered through `shortcut` (a name in
        config.shortcuts) or directly. Returns the entry description (JSON-able)."""
        self.pipes[name] = {'parser': parser, 'steps': []}
        self.nchildrun = 0
        self.failed = False
        prog = []
        sc = self.config['shortcuts'].get(shortcut) if shortcut else None
        eff_in = copy.deepcopy(dict_in) if dict_in is not None else None
        context_args = list(args_in) if args_in else None
        if sc is not None:
            if sc.get('parser_args'):
                context_args = list(sc['parser_args']) + (context_args or [])
            if sc.get('args'):
                eff_in = copy.deepcopy(sc['args'])
                eff_in.update(copy.deepcopy(dict_in) if dict_in else {})
        e = Emit(self, name, 0, {}, prog)
        if sc is not None and sc.get('args'):
            e.unit({'i': 'shortcutArgs', 'src': {'config': ['shortcuts', shortcut, 'args']},
                    'dictIn': [[k, vw(v)] for k, v in (dict_in or {}).items()]})
            e.op({'o': 'start', 'v': {'d': []}})
            e.op({'o': 'shortcutArgsCopy', 'src': {'config': ['shortcuts', shortcut, 'args']}})
            for k, v in sc['args'].items():
                e.shadow[k] = copy.deepcopy(v)
            for k, v in (dict_in or {}).items():
                e.set_key(k, copy.deepcopy(v))
        else:
            e.shadow.update(copy.deepcopy(eff_in) if eff_in else {})
            e.unit({'i': 'ctxStart', 'v': vw(e.shadow)})
            e.op({'o': 'start', 'v': wire(e.shadow)})
        parse_input = not (not context_args and eff_in is not None)
        if parse_input and parser == 'pypyr.parser.list':
            e.unit({'i': 'parserList', 'args': list(context_args or [])})
            e.set_key('argList', list(context_args or []))
        prog.append(['steps', 0])     # up to here: the caller's Context(...) and _prepare_context; from here: the runner
        if script:
            for kind in script:          # 'kind' or ['kind', {forced choices}]
                if self.failed:
                    break
                if isinstance(kind, str):
                    e.emit(kind)
                else:
                    e.emit(kind[0], kind[1])
        else:
            e.emit_many(nsteps, kinds)
        e.obs()   # the final context of the run
        return {'run': shortcut or name, 'pipe': name, 'dict_in': wire(dict_in) if dict_in is not None else None,
                'args_in': args_in, 'prog': prog, 'final': wire(e.shadow), 'fails': self.failed}


def unwire(w):
    """wire -> plain Python value (what the harness passes as dict_in)."""
    if isinstance(w, list):
        return [unwire(x) for x in w]
    if isinstance(w, dict):
        if 'd' in w:
            return {unwire(k): unwire(v) for k, v in w['d']}
        if 'set' in w:
            return {unwire(x) for x in w['set']}
        if 't' in w:
            return tuple(unwire(x) for x in w['t'])
        if 'f' in w:
            return w['f'][0] / (1 << w['f'][1])
    return w


def instantiate(prog, r, shared, obj=None):
    """Program with placeholder run ids and symbolic addresses -> one call of the model at STEP granularity
    ({obj, run, pre: [unit…], steps: [[null | nested run, unit]…]}, `RunHeap.KCall`), the harness's own
    reading of it as operations [[run, op]…], and the positions of the observation points
    [(index of the last operation before it, run)]."""
    kpre, ksteps, flat, points = [], [], [], []
    in_steps = False
    have_unit = False

    def rid(x):
        return r if x == 0 else 100 * r + x

    def addr(a):
        return shared.ref_at(a) if isinstance(a, dict) and ('defn' in a or 'config' in a) else a
    for ent in prog:
        who = ent[0]
        if who == 'obs':
            points.append((len(flat) - 1, rid(ent[1])))
            continue
        if who == 'steps':
            in_steps = True
            continue
        if who == 'instr':
            _, w, u = ent
            u = dict(u)
            if 'src' in u:
                u['src'] = addr(u['src'])
            if u.get('onError') is not None:
                u['onError'] = addr(u['onError'])
            if 'ins' in u:
                u['ins'] = [[k, addr(a)] for k, a in u['ins']]
            if in_steps:
                ksteps.append([None if w == 0 else rid(w), u])
            elif w != 0:
                raise common.Infra('a nested run before the steps of a call')
            else:
                kpre.append(u)
            have_unit = True
            continue
        if not have_unit:
            raise common.Infra('an operation of the generator outside any step-level unit')
        o = dict(ent[1])
        if 'src' in o:
            o['src'] = addr(o['src'])
        if 'v' in o:
            o['b'] = block_of_wire(o.pop('v'))
        if 'vs' in o:
            o['bs'] = [block_of_wire(v) for v in o.pop('vs')]
        flat.append([rid(who), o])
    return {'obj': r if obj is None else obj, 'run': r, 'pre': kpre, 'steps': ksteps}, flat, points


# ---------------------------------------------------------------------------------------------
# the implementation side
# ---------------------------------------------------------------------------------------------

class Sandbox:
    """Scratch directory + process-wide pypyr state, restored on close."""

    def __init__(self):
        common.use_repo()
        import pypyr.cache.admin
        import pypyr.moduleloader as ml
        from pypyr.config import config
        self.root = Path(tempfile.mkdtemp(prefix='c12_')).resolve()
        self.n = 0
        self.admin, self.ml, self.config = pypyr.cache.admin, ml, config
        self._saved = (list(sys.path), set(ml._known_dirs) if hasattr(ml, '_known_dirs') else None,
                       config.vars, config.shortcuts, logging.root.manager.disable)
        logging.disable(logging.CRITICAL)
        self.admin.clear_all()
        self.dir = None
        self.vobs = None
        self.objs = {}             # entry key -> the pypyr.pipeline.Pipeline object that entry's runs re-use
        self.last_live = None
        self.reused = 0
        self.refreshed = 0
        # every Context a pipeline was run on - the top-level runs' and those `pypyr.steps.pype` makes for a child with
        # a context of its own (a run like any other): recorded from outside at Pipeline.load_and_run_pipeline
        self.run_contexts = []
        import pypyr.pipeline as pl
        self._pl = pl
        self._orig_larp = getattr(pl.Pipeline, 'load_and_run_pipeline', None)
        if self._orig_larp is not None:
            sb, orig = self, self._orig_larp

            def load_and_run_pipeline(pipeline, context, *a, **kw):
                if not any(c is context for c in sb.run_contexts[-50:]):
                    sb.run_contexts.append(context)
                return orig(pipeline, context, *a, **kw)
            pl.Pipeline.load_and_run_pipeline = load_and_run_pipeline

    def install(self, pipes, cfg, probes=False):
        """Write the pipelines of one case (replacing the previous case's), set config, empty the caches."""
        import importlib
        self.n += 1
        if self.dir is None:
            self.dir = self.root / 'w'
            self.dir.mkdir()
            (self.dir / 'vobs.py').write_text(VOBS_SRC)
            (self.dir / 'vpoison.py').write_text(POISON_SRC)
            sys.path.insert(0, str(self.dir))
            importlib.invalidate_caches()
            sys.modules.pop('vobs', None)
            self.vobs = importlib.import_module('vobs')
        for f in self.dir.glob('*.yaml'):
            f.unlink()
        for name, pipe in pipes.items():
            (self.dir / f'{name}.yaml').write_text(pipe if isinstance(pipe, str) else render_pipe(pipe, probes))
        self.admin.clear_all()
        self.vobs.HOOK = None
        self.objs = {}
        self.run_contexts = []
        raw = cfg.get('vars') or {}
        # vars that hold sets / tuples travel in wire form inside a (JSON-able) case
        vars_ = unwire(raw['__wire__']) if isinstance(raw, dict) and '__wire__' in raw else unwire(wire(raw))
        shortcuts = {}
        for name, sc in (cfg.get('shortcuts') or {}).items():
            sc = unwire(wire(sc))
            sc['pipeline_name'] = str(self.dir / sc['pipeline_name'])
            shortcuts[name] = sc
        self.config.vars, self.config.shortcuts = vars_, shortcuts
        if cfg.get('via') == 'yaml' and vars_:
            # the vars come out of a REAL config file: ruamel round-trip objects (CommentedMap / CommentedSeq /
            # CommentedSet for `!!set`), merged in by Config.handle_path like `config.init()` does per file
            f = self.root / f'pypyr-config-{self.n}.yaml'
            f.write_text('vars: ' + yv(vars_) + '\n')
            self.config.vars = {}
            loaded = getattr(self.config, '_config_loaded_paths', None)
            n0 = len(loaded) if isinstance(loaded, list) else None
            self.config.handle_path(f)
            if n0 is not None:
                del loaded[n0:]
            if canon(norm(wire(self.config.vars))) != canon(norm(wire(vars_))):
                raise common.Infra('the config file the harness wrote does not load as the vars it spells')
        return self.dir

    def ensure_vobs(self):
        if self.dir is None:
            self.install({}, {})
        self.admin.clear_all()
        self.vobs.HOOK = None
        self.config.vars, self.config.shortcuts = {}, {}

    def scratch(self):
        """A new empty directory for a case that lays out its own tree."""
        self.n += 1
        d = self.root / f'o{self.n}'
        d.mkdir()
        return d

    def load(self, names):
        """Every pipeline through the real loader and caches (no step runs): name -> definition body."""
        from pypyr.cache.loadercache import loader_cache
        loader = loader_cache.get_pype_loader(None)
        return {n: loader.get_pipeline(name=str(self.dir / n), parent=None).pipeline for n in names}

    def fresh(self, name):
        """What the loader produces for this file right now, bypassing every cache."""
        from pypyr.loaders.file import load_pipeline_from_file
        return load_pipeline_from_file(self.dir / f'{name}.yaml').pipeline

    def cached_bodies(self, names):
        """Snapshot of every cached definition: through the loader (cache hit) and, where the cache
        internals are still reachable, straight from the cache tables."""
        from pypyr.cache.loadercache import loader_cache
        out = {}
        loader = loader_cache.get_pype_loader(None)
        for n in names:
            out[f'loader:{n}'] = wire(loader.get_pipeline(name=str(self.dir / n), parent=None).pipeline)
        try:
            from pypyr.cache.filecache import file_cache
            for k, pd in list(file_cache._cache.items()):
                out['filecache:' + Path(k).name] = wire(pd.pipeline)
            for lname, ld in list(loader_cache._cache.items()):
                for k, pd in list(ld._pipeline_cache._cache.items()):
                    out['pipecache:' + Path(str(k[-1] if isinstance(k, tuple) else k)).name] = wire(pd.pipeline)
        except AttributeError:
            pass
        return out

    def target(self, name):
        return name if name in self.config.shortcuts else str(self.dir / name)

    def pipeline_object(self, key, name, dict_in=None, args_in=None):
        """The `pypyr.pipeline.Pipeline` object of entry `key` and the dict that initialises the context
        of this run, through the public constructors.  The first request makes the object the way
        `pipelinerunner.run` does (`Pipeline.new_pipe_and_args`; for a plain pipeline name, every other
        time, the bare constructor `Pipeline(name, context_args, parse_input)`); later requests hand
        back THE SAME object.  The inputs handed to a Pipeline belong to the caller, every run gets equal
        inputs: the argument list the object holds is assigned afresh before a re-run (`pypyr.parser.list`
        hands that very list to the context as argList, so a run may have changed it)."""
        from pypyr.pipeline import Pipeline
        target = self.target(name)
        fresh, args = Pipeline.new_pipe_and_args(name=target, context_args=list(args_in) if args_in else None,
                                                 dict_in=dict_in)
        pipeline = self.objs.get(key)
        if pipeline is None:
            if name not in self.config.shortcuts and self.n % 2:
                pipeline = Pipeline(target, context_args=fresh.context_args, parse_input=fresh.parse_input)
            else:
                pipeline = fresh
            self.objs[key] = pipeline
        else:
            self.reused += 1
            if pipeline.context_args is not None or fresh.context_args is not None:
                self.refreshed += 1
            pipeline.context_args = fresh.context_args
        return pipeline, args

    def run(self, name, dict_in=None, args_in=None, via='runner', key=None):
        """One run through the public API. Returns (outcome, context).  via='runner':
        `pipelinerunner.run` (a new Pipeline object inside); via='object': `Pipeline.run(context)` on the
        Pipeline object of entry `key`, which is made on that entry's first run and RE-USED afterwards,
        with a new `Context` for every run."""
        import pypyr.pipelinerunner as pr
        from pypyr.context import Context
        ctx = self.last_live = None
        try:
            if via == 'object':
                pipeline, args = self.pipeline_object(key, name, dict_in, args_in)
                ctx = Context(args) if args else Context()
                pipeline.run(ctx)
            else:
                kwargs = {}
                if dict_in is not None:
                    kwargs['dict_in'] = dict_in
                if args_in:
                    kwargs['args_in'] = list(args_in)
                ctx = pr.run(self.target(name), **kwargs)
            self.last_live = ctx
            return 'ok', ctx
        except Exception as e:   # noqa: BLE001 - the run's own outcome
            self.last_live = ctx       # the Context object a failed run worked on, where the caller made it
            return {'err': common.exc_name(e), 'msg': str(e).replace(str(self.dir), '<dir>')}, None

    def close(self):
        if self._orig_larp is not None:
            self._pl.Pipeline.load_and_run_pipeline = self._orig_larp
        path, known, vars_, shortcuts, disabled = self._saved
        self.admin.clear_all()
        sys.path[:] = path
        if known is not None:
            self.ml._known_dirs.clear()
            self.ml._known_dirs.update(known)
        self.config.vars, self.config.shortcuts = vars_, shortcuts
        logging.disable(disabled)
        sys.modules.pop('vobs', None)
        sys.modules.pop('vpoison', None)
        shutil.rmtree(self.root, ignore_errors=True)


# ---------------------------------------------------------------------------------------------
# process-global state of the package under test (module-level caches, memo tables)
# ---------------------------------------------------------------------------------------------

_SKIP_TYPES = (types.ModuleType, type, types.CodeType, types.FrameType, types.BuiltinFunctionType,
               types.MethodDescriptorType, types.WrapperDescriptorType, types.GetSetDescriptorType,
               types.MemberDescriptorType, logging.Logger, logging.Handler, threading.Thread)
_LOCK_TYPES = (type(threading.Lock()), type(threading.RLock()))


def _is_memo_wrapper(o):
    return callable(o) and hasattr(o, 'cache_info') and hasattr(o, '__wrapped__')


def global_state(prefix='pypyr'):
    """id -> (object, how it is reached) for everything MUTABLE that the package's process-global state keeps alive:
    module-level names of every loaded `pypyr*` module, class attributes of its classes, the memo tables of
    functools caches (`cache_info`), closures / defaults / attributes of its functions, and whatever those objects
    hold (containers: their members; instances of the package's classes: everything the garbage collector sees them
    refer to).  Modules, classes, code, loggers, locks and instances of foreign classes are not entered."""
    seen, out, todo = set(), {}, []
    for name, mod in list(sys.modules.items()):
        if mod is None or not (name == prefix or name.startswith(prefix + '.')):
            continue
        for attr, val in list(vars(mod).items()):
            if attr.startswith('__') and attr.endswith('__'):
                continue
            if isinstance(val, type):
                if getattr(val, '__module__', '') == name:
                    for a, v in list(vars(val).items()):
                        if not (a.startswith('__') and a.endswith('__')) and not isinstance(v, _SKIP_TYPES):
                            todo.append((v, f'{name}.{val.__name__}.{a}', 0))
                continue
            if isinstance(val, types.FunctionType) and getattr(val, '__module__', None) != name:
                continue        # a function another module defines (imported here): that module's business
            todo.append((val, f'{name}.{attr}', 0))
    while todo:
        o, how, depth = todo.pop()
        if id(o) in seen or is_atom(o) or isinstance(o, _SKIP_TYPES) or isinstance(o, _LOCK_TYPES) or depth > 40:
            continue
        seen.add(id(o))
        if len(seen) > 200000:
            break
        nxt = []
        if _is_memo_wrapper(o):
            nxt = [(r, how + ' (functools cache)') for r in gc.get_referents(o) if not isinstance(r, (type, types.FunctionType))]
        elif isinstance(o, types.FunctionType):
            for c in (o.__closure__ or ()):
                try:
                    nxt.append((c.cell_contents, how + ' (closure)'))
                except ValueError:
                    pass
            nxt += [(d, how + ' (default)') for d in (o.__defaults__ or ())]
            nxt += [(v, how + f'.{k}') for k, v in (getattr(o, '__dict__', None) or {}).items()]
        elif isinstance(o, types.MethodType):
            nxt = [(o.__self__, how)]
        elif isinstance(o, (cabc.Mapping, list, tuple, cabc.Set, collections.deque)):
            if not deep_immutable(o):
                out[id(o)] = (o, how)
            try:
                if isinstance(o, cabc.Mapping):
                    for k, v in list(o.items()):
                        nxt.append((k, how + ' key'))
                        nxt.append((v, how + f'[{k!r:.30}]'))
                else:
                    nxt = [(v, how + '[…]') for v in list(o)]
            except Exception:      # noqa: BLE001 - an odd container: take what the collector sees
                nxt = [(r, how) for r in gc.get_referents(o)]
        elif isinstance(o, (bytearray,)):
            out[id(o)] = (o, how)
        elif (type(o).__module__ or '').split('.')[0] == prefix or type(o).__name__ in ('partial', 'cell'):
            nxt = [(r, how + f' <{type(o).__name__}>') for r in gc.get_referents(o) if not isinstance(r, type)]
        for v, h in nxt:
            todo.append((v, h, depth + 1))
    return out


def run_objects(ctx):
    """The MUTABLE objects of a run: what its context can reach as data (members of containers)."""
    return {i: o for i, o in reach([ctx]).items()
            if o is not ctx and not deep_immutable(o) and (is_container(o) or isinstance(o, bytearray))}


def held_by_process(ctxs):
    """[(label of the run, description)] for every finished run one of whose mutable objects the package's
    process-global state holds on to (so that a later run can be handed it)."""
    g = global_state()
    out = []
    done = set()
    for label, ctx in ctxs:
        if ctx is None or id(ctx) in done:
            continue
        done.add(id(ctx))
        hits = [(o, g[i][1]) for i, o in run_objects(ctx).items() if i in g]
        if hits:
            o, how = hits[0]
            out.append((label, f'{type(o).__name__} {json.dumps(norm(wire(o)))[:80]} is held by {how}'))
    return out


class CwdControl:
    """pypyr fixes its working directory when `pypyr.config` is imported (`CWD`, and
    `pypyr.loaders.file.cwd_pipelines_dir` derived from it). The harness points both at a scratch
    directory from outside for the duration of one case. `ok` is False if that is no longer possible."""

    def __init__(self, cwd):
        import pypyr.config
        import pypyr.loaders.file
        self.cfgmod, self.filemod, self.cwd = pypyr.config, pypyr.loaders.file, Path(cwd)
        self.ok = hasattr(self.cfgmod, 'CWD') and hasattr(self.filemod, 'cwd_pipelines_dir')

    def __enter__(self):
        if self.ok:
            self.saved = (self.cfgmod.CWD, self.filemod.cwd_pipelines_dir)
            self.cfgmod.CWD = self.cwd
            self.filemod.cwd_pipelines_dir = self.cwd.joinpath(self.cfgmod.config.pipelines_subdir)
            self.ok = self.cfgmod.config.cwd == self.cwd
        return self

    def __exit__(self, *exc):
        if hasattr(self, 'saved'):
            self.cfgmod.CWD, self.filemod.cwd_pipelines_dir = self.saved
        return False


class StepObserver:
    """Wraps Step.invoke_step: one observation after every step body, whatever its outcome."""

    def __init__(self, shared):
        import pypyr.dsl
        self.dsl = pypyr.dsl
        self.shared = shared
        self.events = []
        self.first_ctx = None       # the Context of the outermost run (a failed run returns none to its caller)
        self.orig = getattr(pypyr.dsl.Step, 'invoke_step', None)
        self.active = self.orig is not None

    def __enter__(self):
        if self.active:
            obs, orig = self, self.orig

            def invoke_step(step, context):
                if obs.first_ctx is None:
                    obs.first_ctx = context
                try:
                    return orig(step, context)
                finally:
                    obs.record(context, getattr(step, 'name', None))
            self.dsl.Step.invoke_step = invoke_step
        return self

    def record(self, context, what):
        refs, labels, frozen = self.shared.foreign(context)
        self.events.append({'step': what, 'ctx': wire(dict(context)), 'foreign': refs, 'labels': labels, 'frozen': frozen})

    def __exit__(self, *exc):
        if self.active:
            self.dsl.Step.invoke_step = self.orig
        return False


class ProbeSched(Sched):
    """Threads run whole pipelines and hand control back at every `vobs` step."""

    def __init__(self, programs):
        super().__init__(programs)
        self.traces = [[] for _ in programs]

    def hook(self, context):
        t = self.tid()
        if t is None:
            return
        self.traces[t].append({'tick': context[1]} if isinstance(context, tuple) else wire(dict(context)))
        self.park('probe')


class SoloTrace:
    """vobs hook for single-threaded runs: the probe trace of the current run."""

    def __init__(self):
        self.trace = []

    def hook(self, context):
        self.trace.append({'tick': context[1]} if isinstance(context, tuple) else wire(dict(context)))


# ---------------------------------------------------------------------------------------------
# stream `loads`: the real loaders observed after a history in this process and alone in a pristine process
# ---------------------------------------------------------------------------------------------

def typed(o, depth=0):
    """Deep snapshot that keeps the CLASS of every node and the yaml tag of tagged nodes (a `False` is not a
    `'no'`, an OctalInt 493 not an int 755, a CommentedSet not a list): what "deep-equal to what its loader
    produced" compares when the loader itself is under test."""
    t = type(o).__name__
    if depth > 60:
        return ['too-deep']
    if o is None:
        return None
    if isinstance(o, bool):
        return [t, bool(o)]
    if isinstance(o, int):
        return [t, int(o)]
    if isinstance(o, float):
        return [t, repr(float(o))]
    if isinstance(o, str):
        return [t, str(o)]
    if isinstance(o, (bytes, bytearray)):
        return [t, bytes(o).hex()]
    if isinstance(o, (datetime.date, datetime.time, datetime.timedelta)):
        return [t, str(o)]
    tag = getattr(o, '_yaml_tag', None)
    tag = None if tag is None else str(tag)
    if isinstance(o, cabc.Mapping):
        return {'T': t, 'tag': tag, 'd': [[typed(k, depth + 1), typed(v, depth + 1)] for k, v in o.items()]}
    if isinstance(o, (list, tuple)):
        return {'T': t, 'tag': tag, 'l': [typed(x, depth + 1) for x in o]}
    if isinstance(o, cabc.Set):
        return {'T': t, 's': sorted((typed(x, depth + 1) for x in o), key=canon)}
    if hasattr(o, 'value'):
        return {'T': t, 'tag': None if getattr(o, 'tag', None) is None else str(getattr(o, 'tag')),
                'value': typed(getattr(o, 'value'), depth + 1)}
    return {'T': f'{type(o).__module__}.{t}'}


def load_probe(spec, root=''):
    """ONE observation of the real loaders - the same code in the harness process (after a history) and in the
    pristine process. spec = {'do': 'get' | 'direct' | 'run', 'loader': 'file' | 'string', 'name': …, 'parent': …}:
    get = through the loader cache as a run or a pype does; direct = the loader function past every cache;
    run = pipelinerunner.run with a fixed initial context."""
    from pypyr.cache.loadercache import loader_cache
    lname = 'pypyr.loaders.string' if spec['loader'] == 'string' else None
    try:
        if spec['do'] == 'get':
            parent = Path(spec['parent']) if spec.get('parent') else None
            d = loader_cache.get_pype_loader(lname).get_pipeline(name=spec['name'], parent=parent)
            return {'def': typed(d.pipeline)}
        if spec['do'] == 'direct':
            if lname:
                from pypyr.loaders.string import get_pipeline_definition
                d = get_pipeline_definition(spec['name'], None)
            else:
                from pypyr.loaders.file import load_pipeline_from_file
                d = load_pipeline_from_file(Path(spec['name'] + '.yaml'))
            return {'def': typed(d.pipeline)}
        import pypyr.pipelinerunner as pr
        ctx = pr.run(spec['name'], dict_in={'seen': ['start']}, loader=lname)
        return {'outcome': 'ok', 'final': typed(dict(ctx))}
    except RecursionError:
        return {'err': 'RecursionError'}
    except Exception as e:      # noqa: BLE001 - the outcome of the load / the run
        return {'err': common.exc_name(e), 'msg': ' '.join(str(e).replace(root, '<dir>').split())[:240] if root else
                ' '.join(str(e).split())[:240]}


def _forked(fn, timeout):
    """fn() in a forked child of this (pristine) process; its JSON result."""
    import os
    import select
    import signal
    import time
    r, w = os.pipe()
    pid = os.fork()
    if pid == 0:
        code = 0
        try:
            os.close(r)
            data = json.dumps(fn()).encode()
            while data:
                n = os.write(w, data)
                data = data[n:]
        except BaseException:      # noqa: BLE001
            code = 3
        finally:
            os._exit(code)
    os.close(w)
    buf, deadline, timed_out = b'', time.time() + timeout, False
    while True:
        left = deadline - time.time()
        rd = select.select([r], [], [], left)[0] if left > 0 else []
        if not rd:
            timed_out = True
            break
        b = os.read(r, 1 << 16)
        if not b:
            break
        buf += b
    os.close(r)
    if timed_out:
        try:
            os.kill(pid, signal.SIGKILL)
        except OSError:
            pass
    os.waitpid(pid, 0)
    if timed_out:
        return {'timeout': timeout}
    try:
        return json.loads(buf.decode())
    except Exception:      # noqa: BLE001
        return {'crashed': 'the process died without a result'}


def pristine_main():
    """`python -m harness.impl_c12`: a process that has imported the tree under test and in which NOTHING has been
    loaded or run. One JSON request per line: {"jobs": [[spec, …], …], "root": dir} -> for every job a forked child
    that performs the job's specs in order and returns their observations (the parent stays pristine)."""
    common.use_repo()
    import pypyr.pipelinerunner     # noqa: F401
    import pypyr.loaders.file       # noqa: F401
    import pypyr.loaders.string     # noqa: F401
    import pypyr.cache.loadercache  # noqa: F401
    logging.disable(logging.CRITICAL)
    sys.stdout.write(json.dumps({'ready': True}) + '\n')
    sys.stdout.flush()
    for line in sys.stdin:
        line = line.strip()
        if not line:
            continue
        try:
            req = json.loads(line)
            out = [_forked(lambda job=job: [load_probe(s, req.get('root', '')) for s in job], req.get('timeout', 20))
                   for job in req['jobs']]
        except Exception as e:      # noqa: BLE001
            out = {'helper-error': f'{type(e).__name__}: {e}'}
        sys.stdout.write(json.dumps(out) + '\n')
        sys.stdout.flush()


class Pristine:
    """Client side: one pristine helper process per harness process."""

    def __init__(self):
        import subprocess
        self.p = subprocess.Popen([sys.executable, '-m', 'harness.impl_c12'], cwd=str(common.VERIF),
                                  stdin=subprocess.PIPE, stdout=subprocess.PIPE, text=True, bufsize=1)
        first = self.p.stdout.readline()
        if not first or 'ready' not in first:
            raise common.Infra('C12 pristine-process helper did not start: ' + repr(first))

    def jobs(self, jobs, root, timeout=20):
        import select
        try:
            self.p.stdin.write(json.dumps({'jobs': jobs, 'root': root, 'timeout': timeout}) + '\n')
            self.p.stdin.flush()
            rd, _, _ = select.select([self.p.stdout], [], [], timeout * (len(jobs) + 1) + 20)
            if not rd:
                raise common.Infra('C12 pristine-process helper does not answer')
            line = self.p.stdout.readline()
            if not line:
                raise common.Infra('C12 pristine-process helper closed the stream')
            out = json.loads(line)
        except BaseException:
            self.close(kill=True)
            raise
        if isinstance(out, dict):
            raise common.Infra('C12 pristine-process helper: ' + str(out.get('helper-error')))
        return out

    def close(self, kill=False):
        p, self.p = self.p, None
        if p is None:
            return
        try:
            if kill:
                p.kill()
            else:
                p.stdin.close()
            p.wait(timeout=5)
        except Exception:      # noqa: BLE001
            p.kill()


if __name__ == '__main__':
    pristine_main()
