"""C17 implementation side: run the real cmd/shell/cmds/shells steps on real subprocesses.

Every command of a case is the tiny script CHILD run by the interpreter (`sys.executable -S`):
  * appends `S <id> <pid>` to <dir>/log and creates <dir>/started.<id>   (proof that it started)
  * for the concurrent steps waits until <dir>/go.<id> exists                (explicit hand-off)
  * writes the scripted stdout / stderr, appends `D <id>`, creates <dir>/done.<id>
  * exits with the scripted code - or, for a negative code -N, kills itself with signal N (default
    disposition restored first), so the implementation sees returncode -N.
A command that *cannot be started* (P["spawn"]) is no child at all:
  missing  -> <dir>/missing.<id>   (no such file: FileNotFoundError out of Popen)
  noexec   -> <dir>/noexec.<id>    (a 0644 file: PermissionError)
  badquote -> an instruction with an unbalanced quote (ValueError out of shlex.split; not under a shell)
  cwd      -> an ordinary child command inside a map whose `cwd` is <dir>/nocwd.<key> (FileNotFoundError for
              every command of that map - also under a shell)
The exception's `filename` identifies the command (map for `cwd`); the marker files prove nothing started.
A harness thread (`Releaser`) creates the go files in the completion order of the case's schedule,
waiting after each release until the process is gone and - in a serial sub-list - until its successor
has started. No sleeps are used to order anything; every wait polls for an explicit file/pid
condition under a watchdog. A process that starts although the plan does not expect it is released
at once (so nothing can deadlock) and reported as an anomaly.

Abstract configuration (JSON) -> the `cmd` / `cmds` context value, and -> the model request:
  P    = {"id", "code", "out", "err"[, "orep": n][, "erep": n][, "spawn": "missing"|"noexec"|"badquote"|"cwd"[, "cwdkey": id]]}
         code: 0, 1..255, or -N (killed by signal N); with "spawn": code 0, out/err ""
         orep / erep: the command writes `out` / `err` that many times (outputs larger than a pipe buffer)
  cmd  : {"str": P} | {"map": M} | {"list": [{"str": P} | {"map": M}]}
         M = {"run": {"str": P} | {"list": [P]}, "save": bool, "bytes": bool}
  cmds : {"str": P} | {"map": A} | {"list": [{"str": P} | {"sub": [P]} | {"map": A}]}
         A = {"run": {"str": P} | {"list": [{"str": P} | {"sub": [P]}]}, "save": bool, "bytes": bool}
"""
from __future__ import annotations

import json
import os
import re
import select
import shlex
import shutil
import signal
import sys
import tempfile
import threading
import time

CHILD = r'''
import os, sys, time
d, ident, code, wait, out, err = sys.argv[1:7]
def log(line):
    fd = os.open(os.path.join(d, 'log'), os.O_WRONLY | os.O_APPEND | os.O_CREAT, 0o644)
    os.write(fd, line.encode()); os.close(fd)
log('S %s %d\n' % (ident, os.getpid()))
open(os.path.join(d, 'started.' + ident), 'w').close()
if wait == '1':
    go = os.path.join(d, 'go.' + ident)
    t0 = time.monotonic()
    while not os.path.exists(go):
        if time.monotonic() - t0 > 120:
            log('T %s\n' % ident); os._exit(97)
        time.sleep(0.001)
def text(spec):
    # '<hex>' or 'R<n>:<hex>' = the text repeated n times (output larger than a pipe buffer)
    n = 1
    if spec[0] == 'R':
        n, spec = spec[1:].split(':')
    return bytes.fromhex(spec).decode('ascii') * int(n)
if out != '-':
    sys.stdout.write(text(out))
if err != '-':
    sys.stderr.write(text(err))
sys.stdout.flush(); sys.stderr.flush()
log('D %s\n' % ident)
open(os.path.join(d, 'done.' + ident), 'w').close()
c = int(code)
if c < 0:
    import signal
    try:
        signal.signal(-c, signal.SIG_DFL)
    except (OSError, ValueError):
        pass
    os.kill(os.getpid(), -c)
    time.sleep(10)
    os._exit(98)
os._exit(c)
'''

SENTINEL = '<<cmdOut untouched>>'
WATCHDOG_S = 60.0          # whole case (releaser's own view; the case process is killed before: CASE_DEADLINE_S)
WAIT_S = 10.0              # one expected condition
CASE_DEADLINE_S = 25.0     # a step that has not returned by then never returns: the case's process group is killed


# --------------------------------------------------------------------------
# abstract config -> model request
# --------------------------------------------------------------------------

SPAWN_KIND = {'missing': 'notFound', 'cwd': 'notFound', 'noexec': 'permission', 'badquote': 'badArgs'}
KIND_TYPE = {'notFound': 'FileNotFoundError', 'permission': 'PermissionError', 'badArgs': 'ValueError'}


def eff_out(p):
    return p['out'] * p.get('orep', 1)


def eff_err(p):
    return p['err'] * p.get('erep', 1)


def mp(p):
    """P -> the model's Proc."""
    sp = p.get('spawn')
    return {'id': p['id'], 'spawn': SPAWN_KIND[sp] if sp else None, 'code': p['code'], 'out': eff_out(p),
            'err': eff_err(p)}


def spawn_label(p):
    """What identifies an unstartable command in the exception the implementation raises."""
    sp = p.get('spawn')
    if sp in ('missing', 'noexec'):
        return f"{sp}.{p['id']}"
    if sp == 'cwd':
        return f"nocwd.{p['cwdkey']}"
    return sp    # 'badquote' (a ValueError carries no command) / None


def serial_model_cmds(cfg, conv=mp):
    def of_map(m):
        run = m['run']
        ps = [conv(run['str'])] if 'str' in run else [conv(p) for p in run['list']]
        save = bool(m.get('save', False))
        return {'run': ps, 'save': save, 'text': save and not m.get('bytes', False)}

    def of_item(it):
        if 'str' in it:
            return {'run': [conv(it['str'])], 'save': False, 'text': False}
        return of_map(it['map'])
    if 'list' in cfg:
        return [of_item(it) for it in cfg['list']]
    return [of_item(cfg)]


def async_model_cmds(cfg, conv=mp):
    def entry(e):
        return {'one': conv(e['str'])} if 'str' in e else {'serial': [conv(p) for p in e['sub']]}

    def of_map(m):
        run = m['run']
        save = bool(m.get('save', False))
        r = {'single': conv(run['str'])} if 'str' in run else {'many': [entry(e) for e in run['list']]}
        return {'run': r, 'save': save, 'text': save and not m.get('bytes', False)}

    def of_item(it):
        if 'str' in it:
            return {'run': {'single': conv(it['str'])}, 'save': False, 'text': False}
        if 'sub' in it:   # Command([cmd]): a one-element run list holding the serial sub-list
            return {'run': {'many': [{'serial': [conv(p) for p in it['sub']]}]}, 'save': False, 'text': False}
        return of_map(it['map'])
    if 'list' in cfg:
        return [of_item(it) for it in cfg['list']]
    return [of_item(cfg)]


def serial_decls(cfg):
    """Declaration order: [(P, save, text)] - written from the config, not through the model."""
    out = []
    for c in serial_model_cmds(cfg, conv=lambda p: p):
        for p in c['run']:
            out.append((p, c['save'], c['text']))
    return out


def async_lanes(cfg):
    """Lanes in declaration order: [([P], save, text)]."""
    lanes = []
    for c in async_model_cmds(cfg, conv=lambda p: p):
        r = c['run']
        if 'single' in r:
            lanes.append(([r['single']], c['save'], c['text']))
        else:
            for e in r['many']:
                lanes.append(([e['one']] if 'one' in e else list(e['serial']), c['save'], c['text']))
    return lanes


# --------------------------------------------------------------------------
# abstract config -> real step input
# --------------------------------------------------------------------------

class Scratch:
    def __init__(self, wait, shell):
        self.dir = tempfile.mkdtemp(prefix='c17_')
        self.script = os.path.join(self.dir, 'child.py')
        with open(self.script, 'w') as f:
            f.write(CHILD)
        self.wait = '1' if wait else '0'
        self.shell = shell

    def cmdline(self, p):
        sp = p.get('spawn')
        if sp in ('missing', 'noexec', 'badquote'):
            if self.shell:
                raise ValueError(f'spawn fault {sp!r} does not exist under a shell (the shell starts)')
            if sp == 'missing':
                return os.path.join(self.dir, f"missing.{p['id']}") + ' --arg'
            if sp == 'noexec':
                path = os.path.join(self.dir, f"noexec.{p['id']}")
                with open(path, 'w') as f:
                    f.write('#!/bin/sh\nexit 0\n')
                os.chmod(path, 0o644)
                return path + ' --arg'
            return os.path.join(self.dir, f"bq.{p['id']}") + ' "no closing quotation'
        hx = lambda s, n: (f'R{n}:' if n != 1 else '') + s.encode('ascii').hex() if s and n else '-'
        line = (f"{sys.executable} -S {self.script} {self.dir} {p['id']} {p['code']} {self.wait} "
                f"{hx(p['out'], p.get('orep', 1))} {hx(p['err'], p.get('erep', 1))}")
        # under a shell `exec` makes the interpreter replace the shell: one pid per command
        return 'exec ' + line if self.shell else line

    def expected_cmd(self, p):
        line = self.cmdline(p)
        return line if self.shell else shlex.split(line)

    def close(self):
        shutil.rmtree(self.dir, ignore_errors=True)


def map_procs(m):
    """All P of one expanded-syntax map, in declaration order."""
    run = m['run']
    if 'str' in run:
        return [run['str']]
    out = []
    for e in run['list']:
        out += [e] if 'id' in e else ([e['str']] if 'str' in e else list(e['sub']))
    return out


def real_config(cfg, sc: Scratch):
    def P(p):
        if p.get('spawn') == 'cwd':
            raise ValueError('a `cwd` fault outside an expanded-syntax map')
        return sc.cmdline(p)

    def of_map(m):
        run = m['run']
        ps = map_procs(m)
        cwd = None
        if any(p.get('spawn') == 'cwd' for p in ps):
            keys = {p.get('cwdkey') for p in ps}
            if not all(p.get('spawn') == 'cwd' for p in ps) or len(keys) != 1 or None in keys:
                raise ValueError('a missing cwd makes every command of its map unstartable')
            cwd = os.path.join(sc.dir, f'nocwd.{keys.pop()}')
            P_ = lambda p: sc.cmdline({**p, 'spawn': None})     # an ordinary command; it is the cwd that is missing
        else:
            P_ = P
        if 'str' in run:
            r = P_(run['str'])
        else:
            r = [(P_(e) if 'id' in e else (P_(e['str']) if 'str' in e else [P_(x) for x in e['sub']]))
                 for e in run['list']]
        d = {'run': r}
        if cwd:
            d['cwd'] = cwd
        if 'save' in m:
            d['save'] = m['save']
        if m.get('bytes'):
            d['bytes'] = True
        return d

    def of_item(it):
        if 'str' in it:
            return P(it['str'])
        if 'sub' in it:
            return [P(x) for x in it['sub']]
        return of_map(it['map'])
    if 'list' in cfg:
        return [of_item(it) for it in cfg['list']]
    return of_item(cfg)


def ident_of(cmd):
    toks = list(cmd) if isinstance(cmd, (list, tuple)) else shlex.split(cmd)
    if toks and toks[0] == 'exec':
        toks = toks[1:]
    return int(toks[4])


# --------------------------------------------------------------------------
# observation helpers
# --------------------------------------------------------------------------

def out_obs(v):
    if v is None:
        return None
    if isinstance(v, bytes):
        return {'b': v.decode('ascii', 'replace')}
    if isinstance(v, str):
        return {'t': v}
    return {'?': repr(v)}


def result_obs(r, sc, procs):
    from pypyr.subproc import SubprocessResult
    if isinstance(r, SubprocessResult):
        try:
            i = ident_of(r.cmd)
        except Exception:
            return {'?': repr(r)[:200]}
        return {'id': i, 'code': r.returncode, 'stdout': out_obs(r.stdout), 'stderr': out_obs(r.stderr),
                'cmd_ok': r.cmd == sc.expected_cmd(procs[i])}
    if isinstance(r, BaseException):
        return {'exc': spawn_err_obs(r, sc) or {'type': type(r).__name__, 'msg': str(r)[:200]}}
    return {'?': repr(r)[:200]}


_LABEL = re.compile(r'^(missing|noexec|nocwd)\.\d+$')


def spawn_err_obs(e, sc):
    """The exception of a command that could not be started -> {'spawn': label, 'type': name}; else None."""
    from pypyr.errors import get_error_name
    if isinstance(e, OSError) and e.filename is not None:
        fn = os.fsdecode(e.filename)
        if os.path.dirname(fn) == sc.dir and _LABEL.match(os.path.basename(fn)):
            return {'spawn': os.path.basename(fn), 'type': get_error_name(e)}
    if type(e) is ValueError and 'No closing quotation' in str(e):
        return {'spawn': 'badquote', 'type': get_error_name(e)}
    return None


def err_obs(e, sc, procs):
    from pypyr.errors import get_error_name
    name = get_error_name(e)
    if hasattr(e, 'cmd') and hasattr(e, 'returncode'):
        try:
            i = ident_of(e.cmd)
            return {'id': i, 'code': e.returncode, 'type': name, 'cmd_ok': e.cmd == sc.expected_cmd(procs[i])}
        except Exception:
            pass
    sp = spawn_err_obs(e, sc)
    if sp:
        return sp
    return {'type': name, 'msg': str(e)[:300]}


def read_log(sc):
    ev, pids = [], {}
    try:
        with open(os.path.join(sc.dir, 'log')) as f:
            for line in f:
                parts = line.split()
                if parts[0] == 'S':
                    ev.append(['s', int(parts[1])])
                    pids[int(parts[1])] = int(parts[2])
                elif parts[0] == 'D':
                    ev.append(['f', int(parts[1])])
                elif parts[0] == 'T':
                    ev.append(['timeout', int(parts[1])])
    except FileNotFoundError:
        pass
    return ev, pids


def quiet_logging():
    import logging
    logging.getLogger('pypyr').setLevel(logging.CRITICAL + 10)
    logging.getLogger('pypyr').propagate = False
    logging.getLogger().setLevel(logging.CRITICAL + 10)


def all_procs_serial(cfg):
    return {p['id']: p for p, _, _ in serial_decls(cfg)}


def all_procs_async(cfg):
    return {p['id']: p for ps, _, _ in async_lanes(cfg) for p in ps}


# --------------------------------------------------------------------------
# serial steps
# --------------------------------------------------------------------------

def run_serial(case):
    import importlib
    from pypyr.context import Context
    quiet_logging()
    shell = case['step'] == 'shell'
    sc = Scratch(wait=False, shell=shell)
    try:
        procs = all_procs_serial(case['cfg'])
        ctx = Context({'cmd': real_config(case['cfg'], sc), 'cmdOut': SENTINEL})
        step = importlib.import_module('pypyr.steps.' + case['step'])
        err = None
        try:
            step.run_step(ctx)
        except Exception as e:
            err = err_obs(e, sc, procs)
        ev, _ = read_log(sc)
        co = ctx.get('cmdOut', '<<deleted>>')
        if isinstance(co, str) and co == SENTINEL:
            cmd_out, results = None, []
        elif isinstance(co, list):
            results = [result_obs(r, sc, procs) for r in co]
            cmd_out = {'many': results}
        else:
            results = [result_obs(co, sc, procs)]
            cmd_out = {'single': results[0]}
        return {'started': [i for k, i in ev if k == 's'], 'err': err, 'results': results, 'cmdOut': cmd_out,
                'log': ev}
    finally:
        sc.close()


# --------------------------------------------------------------------------
# concurrent steps
# --------------------------------------------------------------------------

class Releaser(threading.Thread):
    """Follows the plan (the model's event trace for the case's schedule) against the real processes."""

    def __init__(self, sc, plan, all_ids, finished):
        super().__init__(daemon=True)
        self.sc, self.plan, self.all_ids, self.finished = sc, plan, all_ids, finished
        self.anomalies = []
        self.infra = None
        self.expected = set()       # ids the plan has started so far
        self.released = set()
        self.free_run = False       # the plan could not be followed: just let everything go
        self.t0 = time.monotonic()

    # -- primitives
    def exists(self, kind, i):
        return os.path.exists(os.path.join(self.sc.dir, f'{kind}.{i}'))

    def release(self, i):
        if i not in self.released:
            self.released.add(i)
            open(os.path.join(self.sc.dir, f'go.{i}'), 'w').close()

    def sweep_unexpected(self):
        """A process the plan has not started is running: report it and let it go."""
        for i in self.all_ids:
            if i not in self.expected and i not in self.released and self.exists('started', i):
                self.anomalies.append(['unexpected_start', i])
                self.release(i)

    def wait_for(self, cond, what):
        """Poll `cond` (an explicit file/pid condition). Returns True when it holds, False when the
        step finished first or the per-condition deadline passed (reported as an anomaly)."""
        t1 = time.monotonic()
        while True:
            if cond():
                return True
            if self.finished.is_set():
                if cond():
                    return True
                self.anomalies.append(['step_finished_before', what])
                return False
            now = time.monotonic()
            if now - self.t0 > WATCHDOG_S:
                self.infra = f'watchdog: case exceeded {WATCHDOG_S}s waiting for {what}'
                return False
            if now - t1 > WAIT_S:
                self.anomalies.append(['never_happened', what])
                self.free_run = True
                return False
            self.sweep_unexpected()
            time.sleep(0.001)

    def pid_gone(self, i):
        _, pids = read_log(self.sc)
        pid = pids.get(i)
        if pid is None:
            return True
        try:
            with open(f'/proc/{pid}/stat') as f:
                st = f.read()
            # still there; a zombie has not been reaped by the implementation yet
            return False if st else True
        except (FileNotFoundError, ProcessLookupError):
            return True

    def run(self):
        try:
            self._run()
        except Exception as e:  # pragma: no cover
            self.infra = f'releaser crashed: {type(e).__name__}: {e}'
        finally:
            # whatever happened, never leave a child waiting
            for _ in range(3):
                for i in self.all_ids:
                    self.release(i)

    def _run(self):
        plan = list(self.plan)
        # 1. every lane's first process must be running before anything is allowed to exit
        k = 0
        while k < len(plan) and plan[k][0] == 's':
            self.expected.add(plan[k][1])
            k += 1
        first = sorted(self.expected)
        ok = self.wait_for(lambda: all(self.exists('started', i) for i in first), ['all_started', first])
        if not ok:
            missing = [i for i in first if not self.exists('started', i)]
            if missing and not self.finished.is_set():
                # is it the implementation or the machine? time a trivial spawn
                import subprocess
                t1 = time.monotonic()
                subprocess.run([sys.executable, '-S', '-c', 'pass'])
                if time.monotonic() - t1 > 2.0:
                    self.infra = 'machine too slow to judge concurrency (trivial spawn took > 2 s)'
                    return
            if missing:
                self.anomalies.append(['not_started_concurrently', missing])
        if self.infra:
            return
        # 2. the schedule
        for kind, i in plan[k:]:
            if self.infra:
                return
            if self.free_run or self.finished.is_set():
                break
            if kind == 'f':
                if not self.exists('started', i):
                    if not self.wait_for(lambda: self.exists('started', i), ['started', i]):
                        continue
                self.release(i)
                if self.wait_for(lambda: self.exists('done', i), ['done', i]):
                    self.wait_for(lambda: self.pid_gone(i), ['reaped', i])
            else:
                self.expected.add(i)
                self.wait_for(lambda: self.exists('started', i), ['started', i])
        # 3. until the step returns: anything else that starts is unexpected (and is let go)
        while not self.finished.is_set():
            if time.monotonic() - self.t0 > WATCHDOG_S:
                self.infra = f'watchdog: step did not return within {WATCHDOG_S}s'
                return
            if self.free_run:
                for i in self.all_ids:
                    if self.exists('started', i):
                        self.release(i)
            else:
                self.sweep_unexpected()
            time.sleep(0.001)


def slots_obs(co, sc, procs):
    if isinstance(co, str) and co == SENTINEL:
        return None
    if not isinstance(co, list):
        return {'?': repr(co)[:200]}
    out = []
    for r in co:
        if isinstance(r, list):
            out.append({'sub': [result_obs(x, sc, procs) for x in r]})
        else:
            out.append({'res': result_obs(r, sc, procs)})
    return out


def canon_trace(ev):
    """Concurrent lanes start in an order the OS decides: sort the leading block of starts."""
    k = 0
    while k < len(ev) and ev[k][0] == 's':
        k += 1
    return sorted(ev[:k]) + ev[k:]


def run_async(case, plan):
    import importlib
    from pypyr.context import Context
    from pypyr.errors import MultiError, get_error_name
    quiet_logging()
    shell = case['step'] == 'shells'
    sc = Scratch(wait=True, shell=shell)
    finished = threading.Event()
    try:
        procs = all_procs_async(case['cfg'])
        ctx = Context({'cmds': real_config(case['cfg'], sc), 'cmdOut': SENTINEL})
        step = importlib.import_module('pypyr.steps.' + case['step'])
        rel = Releaser(sc, plan, sorted(procs), finished)
        rel.start()
        err_type, errors = None, []
        try:
            step.run_step(ctx)
        except MultiError as e:
            err_type = get_error_name(e)
            errors = [err_obs(x, sc, procs) for x in e.errors]
        except Exception as e:
            err_type = get_error_name(e)
            errors = [err_obs(e, sc, procs)]
        finally:
            # "wait for all of them": the moment the step returns, every process it started has finished
            ev0, _ = read_log(sc)
            fin0 = {i for k, i in ev0 if k == 'f'}
            running_at_return = sorted({i for k, i in ev0 if k == 's'} - fin0)
            finished.set()
        rel.join(WATCHDOG_S + 10)
        if rel.is_alive() or rel.infra:
            return {'infra': rel.infra or 'releaser did not stop'}
        # let released stragglers finish before the directory goes away
        t0 = time.monotonic()
        while time.monotonic() - t0 < 5:
            ev, _ = read_log(sc)
            st = {i for k, i in ev if k == 's'}
            dn = {i for k, i in ev if k == 'f'}
            if st <= dn:
                break
            time.sleep(0.002)
        ev, _ = read_log(sc)
        return {'trace': canon_trace(ev), 'started': sorted({i for k, i in ev if k == 's'}),
                'err_type': err_type, 'errors': errors,
                'cmdOut': slots_obs(ctx.get('cmdOut', '<<deleted>>'), sc, procs),
                'running_at_return': running_at_return,
                'anomalies': rel.anomalies}
    finally:
        finished.set()
        sc.close()


# --------------------------------------------------------------------------
# worker entry (multiprocessing)
# --------------------------------------------------------------------------

def worker_init():
    # commands without `save` inherit stdout/stderr: keep the scripted output off the check's output
    dn = os.open(os.devnull, os.O_WRONLY)
    os.dup2(dn, 1)
    os.dup2(dn, 2)


def run_case(case, plan):
    try:
        if case['kind'] == 'serial':
            return run_serial(case)
        return run_async(case, plan)
    except Exception as e:
        import traceback
        return {'infra': f'{type(e).__name__}: {e}\n{traceback.format_exc()[-1500:]}'}


def _scratch_logs(root):
    """(started, finished) ids found in the child-script logs below `root` (a killed case leaves them)."""
    st, fn = [], []
    for dp, _, fs in os.walk(root):
        if 'log' in fs and os.path.basename(dp).startswith('c17_'):
            class _S:
                dir = dp
            ev, _ = read_log(_S)
            st += [i for k, i in ev if k == 's']
            fn += [i for k, i in ev if k == 'f']
    return st, fn


RUN_ROOT = None     # set by begin_run() before the worker pool forks: every case directory lives below it


def begin_run():
    global RUN_ROOT
    RUN_ROOT = tempfile.mkdtemp(prefix='c17run_')
    return RUN_ROOT


def end_run():
    """After the pool is gone (workers may have been terminated in the middle of a case): kill every case
    process group that is still there and remove every scratch directory of the run."""
    global RUN_ROOT
    root, RUN_ROOT = RUN_ROOT, None
    if not root:
        return
    try:
        names = os.listdir(root)
    except OSError:
        names = []
    for n in names:
        if n.endswith('.pid'):
            try:
                with open(os.path.join(root, n)) as f:
                    pid = int(f.read().strip())
            except (OSError, ValueError):
                continue
            for kill in (os.killpg, os.kill):
                try:
                    kill(pid, signal.SIGKILL)
                except (ProcessLookupError, PermissionError):
                    pass
    shutil.rmtree(root, ignore_errors=True)


def isolated(case, plan, deadline=None):
    """Run one case in a process (group) of its own under a deadline. The implementation under test may
    never return (an event loop that never finishes, a wait on a process nobody reaps, unbounded recursion
    into C): that must be an observation - `{'hang': ...}` - never a hang of the check. The observation
    comes back as JSON over a pipe; on the deadline the whole process group (the step and every command it
    spawned) is killed."""
    deadline = CASE_DEADLINE_S if deadline is None else deadline
    root = tempfile.mkdtemp(prefix='case_', dir=RUN_ROOT)
    r, w = os.pipe()
    pid = os.fork()
    if pid != 0 and RUN_ROOT:
        with open(root + '.pid', 'w') as f:
            f.write(str(pid))
    if pid == 0:
        code = 0
        try:
            os.close(r)
            os.setsid()
            tempfile.tempdir = root
            data = json.dumps(run_case(case, plan)).encode()
            while data:
                n = os.write(w, data)
                data = data[n:]
        except BaseException as e:      # noqa: the child must never fall back into the pool's code
            try:
                os.write(w, json.dumps({'infra': f'case process: {type(e).__name__}: {e}'}).encode())
            except Exception:
                code = 3
        finally:
            os._exit(code)
    os.close(w)
    t0 = time.monotonic()
    buf = b''
    timed_out = False
    try:
        while True:
            left = deadline - (time.monotonic() - t0)
            if left <= 0:
                timed_out = True
                break
            rd, _, _ = select.select([r], [], [], min(left, 1.0))
            if rd:
                chunk = os.read(r, 1 << 16)
                if not chunk:
                    break
                buf += chunk
        if timed_out:
            st, fn = _scratch_logs(root)
            # the machine, or the implementation? time a trivial spawn
            import subprocess
            t1 = time.monotonic()
            subprocess.run([sys.executable, '-S', '-c', 'pass'])
            slow = time.monotonic() - t1
            if slow > 2.0:
                return {'infra': f'case not finished after {deadline}s on a machine where a trivial spawn takes {slow:.1f}s'}
            return {'hang': {'after_s': deadline, 'started': st, 'finished': fn}}
        if not buf:
            return {'infra': 'case process died without an observation'}
        return json.loads(buf.decode())
    finally:
        os.close(r)
        for kill in (os.killpg, os.kill):
            try:
                kill(pid, signal.SIGKILL)
            except (ProcessLookupError, PermissionError):
                pass
        try:
            os.waitpid(pid, 0)
        except ChildProcessError:
            pass
        shutil.rmtree(root, ignore_errors=True)
        try:
            os.unlink(root + '.pid')
        except OSError:
            pass


def worker(job):
    idx, case, plan = job
    try:
        return idx, isolated(case, plan)
    except Exception as e:
        import traceback
        return idx, {'infra': f'{type(e).__name__}: {e}\n{traceback.format_exc()[-1500:]}'}
