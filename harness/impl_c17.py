"""C17 implementation side: run the real cmd/shell/cmds/shells steps on real subprocesses.

Every command of a case is the tiny script CHILD run by the interpreter (`sys.executable -S`):
  * claims the next free OCCURRENCE slot k of its instruction: creates <dir>/claim.<id>.<k> with O_EXCL
    (identical instructions - the same entry declared twice - are told apart by k), appends `S <id> <pid> <k>`
    to <dir>/log and creates <dir>/started.<id>.<k>   (proof that it started)
  * with "rdv": n waits until n processes of its instruction have started (workers that need each other)
  * for the concurrent steps waits until <dir>/go.<id>.<k> exists            (explicit hand-off)
  * writes the scripted stdout / stderr, appends `D <id> <k>`, creates <dir>/done.<id>.<k>
  * exits with the scripted code - or, for a negative code -N, kills itself with signal N (default
    disposition restored first), so the implementation sees returncode -N.
A command that *cannot be started* (P["spawn"]) is no child at all:
  missing  -> <dir>/missing.<id>   (no such file: FileNotFoundError out of Popen)
  noexec   -> <dir>/noexec.<id>    (a 0644 file: PermissionError)
  badquote -> an instruction with an unbalanced quote (ValueError out of shlex.split; not under a shell)
  cwd      -> an ordinary child command inside a map whose `cwd` is <dir>/nocwd.<key> (FileNotFoundError for
              every command of that map - also under a shell)
The exception's `filename` identifies the command (map for `cwd`); the marker files prove nothing started.
A harness thread (`Releaser`) creates the go files in the completion order of the case's schedule,
waiting after each release until the process is gone and - in a serial sub-list - until its successor
has started. No sleeps are used to order anything; every wait polls for an explicit file/pid
condition under a watchdog. A process that starts although the plan does not expect it is released
at once (so nothing can deadlock) and reported as an anomaly.

Abstract configuration (JSON) -> the `cmd` / `cmds` context value, and -> the model request:
  P    = {"id", "code", "out", "err"[, "orep": n][, "erep": n][, "rdv": n][, "spawn": "missing"|"noexec"|"badquote"|"cwd"[, "cwdkey": id]]}
         `id` names the CONTENT of the instruction (its command line): the same P may occur any number of times in a
         configuration (identical entries); what is observed is per occurrence (multisets of ids)
         code: 0, 1..255, or -N (killed by signal N); with "spawn": code 0, out/err ""
         out / err: the BYTES the command writes, one character per byte (latin-1): ASCII text, or bytes a1..ff
         (e.g. "\xff\xfe#7\n": not text in utf-8 / ascii)
         orep / erep: the command writes `out` / `err` that many times (outputs larger than a pipe buffer)
  cmd  : {"str": P} | {"map": M} | {"list": [{"str": P} | {"map": M}]}
         M = {"run": {"str": P} | {"list": [P]}, "save": bool, "bytes": bool, OPT}
  cmds : {"str": P} | {"map": A} | {"list": [{"str": P} | {"sub": [P]} | {"map": A}]}
         A = {"run": {"str": P} | {"list": [{"str": P} | {"sub": [P]}]}, "save": bool, "bytes": bool, OPT}
         {"ref": j} in place of a top-level list item / of an element of a `run` list: the SAME python object as
         item / element j of that list (a yaml alias)
  OPT  = ["encoding": "utf-8"|"latin-1"|"ascii"][, "stdout": T][, "stderr": T][, "append": bool]
  T    = "devnull" | "stdout" (stderr only) | {"file": k[, "bad": "isDir"|"parentFile"][, "pre": "old content"]}
         file k is <dir>/out/f<k>; bad: the path is a directory / its parent directory is a regular file

From it `cfg_value` makes the configuration VALUE with placeholders ("p<id>" for an instruction, "@f<k>" for an
output path, "@cwd<k>" for a missing working directory); the model gets that value (its own parser reads it,
lean/PypyrModel/Cmd.lean §0) plus the world (the outcome of each placeholder); the real step gets the value with
the placeholders replaced by real command lines / paths (`realize`).
"""
from __future__ import annotations

import collections
import copy
import json
import os
import re
import select
import shlex
import shutil
import signal
import sys
import tempfile
import threading
import time

CHILD = r'''
import os, sys, time
d, ident, code, wait, out, err = sys.argv[1:7]
rdv = int(sys.argv[7]) if len(sys.argv) > 7 else 0
def log(line):
    fd = os.open(os.path.join(d, 'log'), os.O_WRONLY | os.O_APPEND | os.O_CREAT, 0o644)
    os.write(fd, line.encode()); os.close(fd)
# identical instructions are told apart by the OCCURRENCE slot each process claims (atomically) when it starts
k = 0
while True:
    try:
        os.close(os.open(os.path.join(d, 'claim.%s.%d' % (ident, k)), os.O_WRONLY | os.O_CREAT | os.O_EXCL, 0o644))
        break
    except FileExistsError:
        k += 1
log('S %s %d %d\n' % (ident, os.getpid(), k))
open(os.path.join(d, 'started.%s.%d' % (ident, k)), 'w').close()
if rdv:
    # a worker that needs its identical siblings: goes on only once `rdv` of them are running
    t0 = time.monotonic()
    pre = 'started.%s.' % ident
    while len([n for n in os.listdir(d) if n.startswith(pre)]) < rdv:
        if time.monotonic() - t0 > 120:
            log('T %s\n' % ident); os._exit(97)
        time.sleep(0.002)
if wait == '1':
    go = os.path.join(d, 'go.%s.%d' % (ident, k))
    t0 = time.monotonic()
    while not os.path.exists(go):
        if time.monotonic() - t0 > 120:
            log('T %s\n' % ident); os._exit(97)
        time.sleep(0.001)
def data(spec):
    # '<hex>' or 'R<n>:<hex>' = the bytes repeated n times (output larger than a pipe buffer)
    n = 1
    if spec[0] == 'R':
        n, spec = spec[1:].split(':')
    return bytes.fromhex(spec) * int(n)
if out != '-':
    sys.stdout.buffer.write(data(out)); sys.stdout.buffer.flush()
if err != '-':
    sys.stderr.buffer.write(data(err)); sys.stderr.buffer.flush()
log('D %s %d\n' % (ident, k))
open(os.path.join(d, 'done.%s.%d' % (ident, k)), 'w').close()
c = int(code)
if c < 0:
    import signal
    try:
        signal.signal(-c, signal.SIG_DFL)
    except (OSError, ValueError):
        pass
    os.kill(os.getpid(), -c)
    time.sleep(10)
    os._exit(98)
os._exit(c)
'''

SENTINEL = '<<cmdOut untouched>>'
WATCHDOG_S = 60.0          # whole case (releaser's own view; the case process is killed before: CASE_DEADLINE_S)
WAIT_S = 10.0              # one expected condition
CASE_DEADLINE_S = 25.0     # a step that has not returned by then never returns: the case's process group is killed


# --------------------------------------------------------------------------
# abstract config -> model request
# --------------------------------------------------------------------------

SPAWN_KIND = {'missing': 'notFound', 'cwd': 'notFound', 'noexec': 'permission', 'badquote': 'badArgs'}
KIND_TYPE = {'notFound': 'FileNotFoundError', 'permission': 'PermissionError', 'badArgs': 'ValueError'}


def eff_out(p):
    return p['out'] * p.get('orep', 1)


def eff_err(p):
    return p['err'] * p.get('erep', 1)


def pname(p):
    return f"p{p['id']}"


def decodable(p, enc):
    """Are the bytes the command writes text under the encoding in force? (the codec library decides)"""
    e = enc or 'utf-8'
    try:
        eff_out(p).encode('latin-1').decode(e)
        eff_err(p).encode('latin-1').decode(e)
        return True
    except UnicodeDecodeError:
        return False


def spawn_label(p):
    """What identifies an unstartable command in the exception the implementation raises."""
    sp = p.get('spawn')
    if sp in ('missing', 'noexec'):
        return f"{sp}.{p['id']}"
    if sp == 'cwd':
        return f"nocwd.{p['cwdkey']}"
    return sp    # 'badquote' (a ValueError carries no command) / None


def map_procs(m):
    """All P of one expanded-syntax map, in declaration order."""
    run = m['run']
    if 'str' in run:
        return [run['str']]
    out = []
    for e in expand_list(run['list']):
        out += [e] if 'id' in e else ([e['str']] if 'str' in e else list(e['sub']))
    return out


def expand_list(xs):
    """A list with every {"ref": j} replaced by (a copy of) element j."""
    out = []
    for x in xs:
        out.append(copy.deepcopy(out[x['ref']]) if isinstance(x, dict) and 'ref' in x else x)
    return out


def expand(cfg):
    """The configuration without aliases (same content)."""
    def of_item(it):
        if 'map' in it and 'list' in it['map']['run']:
            m = dict(it['map'])
            m['run'] = {'list': expand_list(m['run']['list'])}
            return {**it, 'map': m}
        return it
    if 'list' in cfg:
        return {**cfg, 'list': [of_item(it) for it in expand_list(cfg['list'])]}
    return of_item(cfg)


def occurrences(cfg):
    """How often each instruction is declared."""
    return collections.Counter(p['id'] for c in commands(cfg) for p in c['procs'])


def commands(cfg):
    """The harness's own reading of the abstract configuration (not through the model): one dict per command
    object: entries = [[P, ...], ...] (a top-level instruction is a one-element entry; `single`: `run` is one
    string), procs = all P in declaration order, save / text / enc / stdout / stderr / append."""
    def mk(entries, single=False, sub=None, **kw):
        d = {'entries': entries, 'single': single, 'sub': sub or [len(e) > 1 for e in entries],
             'procs': [p for e in entries for p in e], 'save': False, 'text': False, 'bytes': False, 'enc': None,
             'stdout': None, 'stderr': None, 'append': False}
        d.update(kw)
        return d

    def of_map(m):
        run = m['run']
        if 'str' in run:
            entries, single, sub = [[run['str']]], True, [False]
        else:
            entries, sub = [], []
            for e in run['list']:
                if 'id' in e:
                    entries.append([e]); sub.append(False)
                elif 'str' in e:
                    entries.append([e['str']]); sub.append(False)
                else:
                    entries.append(list(e['sub'])); sub.append(True)
            single = False
        save = bool(m.get('save', False))
        return mk(entries, single, sub, save=save, bytes=bool(m.get('bytes', False)),
                  text=save and not m.get('bytes', False), enc=m.get('encoding'), stdout=m.get('stdout'),
                  stderr=m.get('stderr'), append=bool(m.get('append', False)))

    def of_item(it):
        if 'str' in it:
            return mk([[it['str']]], True, [False])
        if 'sub' in it:       # Command([cmd]): a one-element run list holding the serial sub-list
            return mk([list(it['sub'])], False, [True])
        return of_map(it['map'])
    cfg = expand(cfg)
    items = cfg['list'] if 'list' in cfg else [cfg]
    return [of_item(it) for it in items]


def bad_target(c):
    """(label, kind) of the first output handle of the command that cannot be opened (stdout is opened first)."""
    for k in ('stdout', 'stderr'):
        t = c.get(k)
        if isinstance(t, dict) and t.get('bad'):
            return f"@f{t['file']}", t['bad']
    return None


def sync_decodes(c):
    """subprocess.run decodes what it captured: text mode, or an encoding is given."""
    return c['save'] and (c['text'] or bool(c['enc']))


def async_decodes(c):
    return c['save'] and c['text']


def serial_decls(cfg):
    """Declaration order: [(P, save, text)] - written from the config, not through the model."""
    return [(p, c['save'], c['text']) for c in commands(cfg) for p in c['procs']]


def async_lanes(cfg):
    """Lanes in declaration order: [([P], save, text)] (of the commands whose output handles can be opened)."""
    return [(list(e), c['save'], c['text']) for c in commands(cfg) if not bad_target(c) for e in c['entries']]


def file_targets(cfg):
    """{label: T} of every output file named in the configuration."""
    out = {}
    for c in commands(cfg):
        for k in ('stdout', 'stderr'):
            t = c.get(k)
            if isinstance(t, dict):
                out[f"@f{t['file']}"] = t
    return out


def tval(t):
    if t is None:
        return None
    if t == 'devnull':
        return '/dev/null'
    if t == 'stdout':
        return '/dev/stdout'
    return f"@f{t['file']}"


def cfg_value(cfg):
    """Abstract configuration -> the configuration value with placeholders."""
    def of_map(m):
        run = m['run']
        if 'str' in run:
            r = pname(run['str'])
        else:
            r = []
            for e in run['list']:
                r.append(r[e['ref']] if 'ref' in e else
                         (pname(e) if 'id' in e else (pname(e['str']) if 'str' in e else [pname(x) for x in e['sub']])))
        d = {'run': r}
        ps = map_procs(m)
        if any(p.get('spawn') == 'cwd' for p in ps):
            keys = {p.get('cwdkey') for p in ps}
            if not all(p.get('spawn') == 'cwd' for p in ps) or len(keys) != 1 or None in keys:
                raise ValueError('a missing cwd makes every command of its map unstartable')
            d['cwd'] = f'@cwd{keys.pop()}'
        if 'save' in m:
            d['save'] = m['save']
        if m.get('bytes'):
            d['bytes'] = True
        if m.get('encoding'):
            d['encoding'] = m['encoding']
        for k in ('stdout', 'stderr'):
            if m.get(k) is not None:
                d[k] = tval(m[k])
        if 'append' in m:
            d['append'] = m['append']
        return d

    def P(p):
        if p.get('spawn') == 'cwd':
            raise ValueError('a `cwd` fault outside an expanded-syntax map')
        return pname(p)

    def of_item(it):
        if 'str' in it:
            return P(it['str'])
        if 'sub' in it:
            return [P(x) for x in it['sub']]
        return of_map(it['map'])
    if 'list' in cfg:
        out = []
        for it in cfg['list']:
            out.append(out[it['ref']] if 'ref' in it else of_item(it))     # the same object again
        return out
    return of_item(cfg)


def world_of(cfg, is_async):
    """The scripted outcome of every placeholder, for the model."""
    procs, seen = [], {}
    for c in commands(cfg):
        for p in c['procs']:
            sp = p.get('spawn')
            w = {'name': pname(p), 'id': p['id'], 'spawn': SPAWN_KIND[sp] if sp else None, 'code': p['code'],
                 'out': eff_out(p), 'err': eff_err(p), 'decodeFails': (not sp) and not decodable(p, c['enc'])}
            # an instruction declared more than once: one and the same outcome
            if p['id'] in seen:
                if seen[p['id']] != (p, w):
                    raise ValueError(f"instruction {p['id']} declared twice with different content / decodability")
                continue
            seen[p['id']] = (p, w)
            procs.append(w)
    paths = [{'path': lab, 'bad': t.get('bad'), 'content': t.get('pre')} for lab, t in sorted(file_targets(cfg).items())]
    return {'procs': procs, 'paths': paths}


# --------------------------------------------------------------------------
# abstract config -> real step input
# --------------------------------------------------------------------------

class Scratch:
    def __init__(self, wait, shell):
        self.dir = tempfile.mkdtemp(prefix='c17_')
        self.script = os.path.join(self.dir, 'child.py')
        with open(self.script, 'w') as f:
            f.write(CHILD)
        self.wait = '1' if wait else '0'
        self.shell = shell
        self.paths = {}        # label -> real path

    def cmdline(self, p):
        sp = p.get('spawn')
        if sp in ('missing', 'noexec', 'badquote'):
            if self.shell:
                raise ValueError(f'spawn fault {sp!r} does not exist under a shell (the shell starts)')
            if sp == 'missing':
                return os.path.join(self.dir, f"missing.{p['id']}") + ' --arg'
            if sp == 'noexec':
                path = os.path.join(self.dir, f"noexec.{p['id']}")
                with open(path, 'w') as f:
                    f.write('#!/bin/sh\nexit 0\n')
                os.chmod(path, 0o644)
                return path + ' --arg'
            return os.path.join(self.dir, f"bq.{p['id']}") + ' "no closing quotation'
        hx = lambda s, n: (f'R{n}:' if n != 1 else '') + s.encode('latin-1').hex() if s and n else '-'
        line = (f"{sys.executable} -S {self.script} {self.dir} {p['id']} {p['code']} {self.wait} "
                f"{hx(p['out'], p.get('orep', 1))} {hx(p['err'], p.get('erep', 1))}")
        if p.get('rdv'):
            if self.wait != '1':
                raise ValueError('workers that wait for each other exist only in the concurrent steps')
            line += f" {p['rdv']}"
        # under a shell `exec` makes the interpreter replace the shell: one pid per command
        return 'exec ' + line if self.shell else line

    def expected_cmd(self, p):
        # a `cwd` fault is an ordinary command line (it is the directory that is missing)
        line = self.cmdline({**p, 'spawn': None} if p.get('spawn') == 'cwd' else p)
        return line if self.shell else shlex.split(line)

    def prepare_files(self, cfg):
        """Create the world the output paths live in. A good path is <dir>/out/f<k> (the directory `out` does
        not exist yet: the code creates it); isDir: the path is a directory; parentFile: <dir>/pf<k>/f<k>
        where <dir>/pf<k> is a regular file."""
        for lab, t in file_targets(cfg).items():
            k = t['file']
            if t.get('bad') == 'parentFile':
                parent = os.path.join(self.dir, f'pf{k}')
                open(parent, 'w').close()
                path = os.path.join(parent, f'f{k}')
            else:
                path = os.path.join(self.dir, 'out', f'f{k}')
                if t.get('bad') == 'isDir':
                    os.makedirs(path)
                elif t.get('pre') is not None:
                    os.makedirs(os.path.dirname(path), exist_ok=True)
                    with open(path, 'wb') as f:
                        f.write(t['pre'].encode('latin-1'))
            self.paths[lab] = path

    def files_obs(self, cfg):
        out = {}
        for lab, t in file_targets(cfg).items():
            path = self.paths.get(lab)
            if path and not t.get('bad') and os.path.isfile(path):
                with open(path, 'rb') as f:
                    out[lab] = f.read().decode('latin-1')
        return out

    def close(self):
        shutil.rmtree(self.dir, ignore_errors=True)


def realize(value, sc: Scratch, procs):
    """The configuration value with every placeholder replaced by the real thing."""
    by_name = {pname(p): p for p in procs.values()}
    memo = {}       # the same object in, the same object out (aliases survive)

    def go(v):
        if isinstance(v, (list, dict)):
            if id(v) not in memo:
                memo[id(v)] = go1(v)
            return memo[id(v)]
        return go1(v)

    def go1(v):
        if isinstance(v, str):
            if v in by_name:
                p = by_name[v]
                return sc.cmdline({**p, 'spawn': None} if p.get('spawn') == 'cwd' else p)
            if v.startswith('@f'):
                return sc.paths[v]
            if v.startswith('@cwd'):
                return os.path.join(sc.dir, 'nocwd.' + v[4:])
            return v
        if isinstance(v, list):
            return [go(x) for x in v]
        if isinstance(v, tuple):
            return tuple(go(x) for x in v)
        if isinstance(v, dict):
            return {k: go(x) for k, x in v.items()}
        return v
    return go(value)


def real_config(cfg, sc: Scratch, procs=None):
    if procs is None:
        procs = {p['id']: p for c in commands(cfg) for p in c['procs']}
    sc.prepare_files(cfg)
    return realize(cfg_value(cfg), sc, procs)


def ident_of(cmd):
    toks = list(cmd) if isinstance(cmd, (list, tuple)) else shlex.split(cmd)
    if toks and toks[0] == 'exec':
        toks = toks[1:]
    return int(toks[4])


# --------------------------------------------------------------------------
# observation helpers
# --------------------------------------------------------------------------

def out_obs(v):
    if v is None:
        return None
    if isinstance(v, bytes):
        return {'b': v.decode('latin-1')}
    if isinstance(v, str):
        return {'t': v}
    return {'?': repr(v)}


def result_obs(r, sc, procs):
    from pypyr.subproc import SubprocessResult
    if isinstance(r, SubprocessResult):
        try:
            i = ident_of(r.cmd)
        except Exception:
            return {'?': repr(r)[:200]}
        return {'id': i, 'code': r.returncode, 'stdout': out_obs(r.stdout), 'stderr': out_obs(r.stderr),
                'cmd_ok': r.cmd == sc.expected_cmd(procs[i])}
    if isinstance(r, BaseException):
        return {'exc': spawn_err_obs(r, sc) or decode_err_obs(r) or open_err_obs(r, sc)
                or {'type': type(r).__name__, 'msg': str(r)[:200]}}
    return {'?': repr(r)[:200]}


_LABEL = re.compile(r'^(missing|noexec|nocwd)\.\d+$')


def spawn_err_obs(e, sc):
    """The exception of a command that could not be started -> {'spawn': label, 'type': name}; else None."""
    from pypyr.errors import get_error_name
    if isinstance(e, OSError) and e.filename is not None:
        fn = os.fsdecode(e.filename)
        if os.path.dirname(fn) == sc.dir and _LABEL.match(os.path.basename(fn)):
            return {'spawn': os.path.basename(fn), 'type': get_error_name(e)}
    if type(e) is ValueError and 'No closing quotation' in str(e):
        return {'spawn': 'badquote', 'type': get_error_name(e)}
    return None


_UNDEC = re.compile(rb'#(\d+)')


def decode_err_obs(e):
    """The UnicodeDecodeError of a command whose captured output is not text -> {'decode': id, 'type'}; the
    undecodable outputs the harness scripts carry `#<id>`."""
    if isinstance(e, UnicodeDecodeError):
        m = _UNDEC.search(bytes(e.object))
        if m:
            return {'decode': int(m.group(1)), 'type': 'UnicodeDecodeError'}
    return None


def open_err_obs(e, sc):
    """The OSError of an output file that cannot be opened -> {'open': label, 'type': name}."""
    from pypyr.errors import get_error_name
    if isinstance(e, OSError) and e.filename is not None:
        fn = os.fsdecode(e.filename)
        for lab, path in sc.paths.items():
            if fn == path or fn == os.path.dirname(path) and os.path.basename(os.path.dirname(path)).startswith('pf'):
                return {'open': lab, 'type': get_error_name(e)}
    return None


def err_obs(e, sc, procs):
    from pypyr.errors import get_error_name
    name = get_error_name(e)
    if hasattr(e, 'cmd') and hasattr(e, 'returncode'):
        try:
            i = ident_of(e.cmd)
            return {'id': i, 'code': e.returncode, 'type': name, 'cmd_ok': e.cmd == sc.expected_cmd(procs[i])}
        except Exception:
            pass
    sp = spawn_err_obs(e, sc) or decode_err_obs(e) or open_err_obs(e, sc)
    if sp:
        return sp
    return {'type': name, 'msg': str(e)[:300]}


def read_log(sc):
    ev, pids = [], {}
    try:
        with open(os.path.join(sc.dir, 'log')) as f:
            for line in f:
                parts = line.split()
                if parts[0] == 'S':
                    ev.append(['s', int(parts[1])])
                    pids[(int(parts[1]), int(parts[3]))] = int(parts[2])
                elif parts[0] == 'D':
                    ev.append(['f', int(parts[1])])
                elif parts[0] == 'T':
                    ev.append(['timeout', int(parts[1])])
    except FileNotFoundError:
        pass
    return ev, pids


def quiet_logging():
    import logging
    logging.getLogger('pypyr').setLevel(logging.CRITICAL + 10)
    logging.getLogger('pypyr').propagate = False
    logging.getLogger().setLevel(logging.CRITICAL + 10)


def all_procs_serial(cfg):
    return {p['id']: p for c in commands(cfg) for p in c['procs']}


all_procs_async = all_procs_serial


PREV_LIST = ['result of an earlier step', {'returncode': 0}]


def prev_value(case):
    """What context['cmdOut'] holds before the step: (present, value)."""
    k = case.get('prev', 'str')
    if k == 'absent':
        return False, None
    return True, (list(PREV_LIST) if k == 'list' else SENTINEL)


# --------------------------------------------------------------------------
# serial steps
# --------------------------------------------------------------------------

def run_serial(case):
    import importlib
    from pypyr.context import Context
    from . import common
    quiet_logging()
    shell = case['step'] == 'shell'
    sc = Scratch(wait=False, shell=shell)
    try:
        procs = all_procs_serial(case['cfg'])
        has_prev, prev = prev_value(case)
        d = {'cmd': real_config(case['cfg'], sc, procs)}
        if has_prev:
            d['cmdOut'] = prev
        ctx = Context(d)
        step = importlib.import_module('pypyr.steps.' + case['step'])
        err = None
        try:
            step.run_step(ctx)
        except Exception as e:
            err = err_obs(e, sc, procs)
        ev, _ = read_log(sc)
        if 'cmdOut' not in ctx:
            after, cmd_out, results = {'prior': {'absent': True}}, None, []
        else:
            co = ctx['cmdOut']
            if has_prev and co is prev:
                # not written by the step: what was there before is still there
                after, cmd_out, results = {'prior': {'val': common.enc(co)}}, None, []
            elif isinstance(co, list):
                results = [result_obs(r, sc, procs) for r in co]
                after = cmd_out = {'many': results}
            else:
                results = [result_obs(co, sc, procs)]
                after = cmd_out = {'single': results[0]}
        return {'started': [i for k, i in ev if k == 's'], 'err': err, 'results': results, 'cmdOut': cmd_out,
                'after': after, 'files': sc.files_obs(case['cfg']), 'log': ev}
    finally:
        sc.close()


# --------------------------------------------------------------------------
# concurrent steps
# --------------------------------------------------------------------------

_MARK = re.compile(r'^(started|done)\.(\d+)\.(\d+)$')


def scan_markers(d):
    """{'started': {id: {k, ...}}, 'done': {...}}: the occurrence slots claimed / finished so far."""
    out = {'started': {}, 'done': {}}
    try:
        names = os.listdir(d)
    except OSError:
        return out
    for n in names:
        m = _MARK.match(n)
        if m:
            out[m.group(1)].setdefault(int(m.group(2)), set()).add(int(m.group(3)))
    return out


class Releaser(threading.Thread):
    """Follows the plan (the model's event trace for the case's schedule) against the real processes.

    Processes are identified by (instruction id, occurrence slot). The plan speaks of instruction ids: where
    an instruction is declared more than once its processes are interchangeable (the generators only put
    identical instructions where what follows them is identical too), so `start i` means "one more process of
    instruction i is running" and `fin i` "one of the running processes of instruction i exits now"."""

    def __init__(self, sc, plan, occ, finished):
        super().__init__(daemon=True)
        self.sc, self.plan, self.occ, self.finished = sc, plan, dict(occ), finished
        self.all_ids = sorted(self.occ)
        self.anomalies = []
        self.infra = None
        self.expected = collections.Counter()     # starts the plan has asked for so far, per instruction
        self.unexpected = collections.Counter()   # processes running beyond that (reported, let go)
        self.released = set()                      # (id, slot)
        self.free_run = False       # the plan could not be followed: just let everything go
        self.t0 = time.monotonic()

    # -- primitives
    def nstarted(self, i):
        return len(scan_markers(self.sc.dir)['started'].get(i, ()))

    def is_done(self, i, k):
        return os.path.exists(os.path.join(self.sc.dir, f'done.{i}.{k}'))

    def release(self, i, k):
        if (i, k) not in self.released:
            self.released.add((i, k))
            open(os.path.join(self.sc.dir, f'go.{i}.{k}'), 'w').close()

    def release_one(self, i):
        """Let one running, not yet released process of instruction i go; its slot, or None."""
        for k in sorted(scan_markers(self.sc.dir)['started'].get(i, ())):
            if (i, k) not in self.released:
                self.release(i, k)
                return k
        return None

    def release_all_started(self):
        for i, ks in scan_markers(self.sc.dir)['started'].items():
            for k in ks:
                self.release(i, k)

    def expect(self, i):
        self.expected[i] += 1
        if self.unexpected[i] > 0:       # it was early, not surplus
            self.unexpected[i] -= 1

    def sweep_unexpected(self):
        """A process the plan has not started is running: report it and let one go."""
        st = scan_markers(self.sc.dir)['started']
        for i in self.all_ids:
            while len(st.get(i, ())) > self.expected[i] + self.unexpected[i]:
                self.unexpected[i] += 1
                self.anomalies.append(['unexpected_start', i])
                self.release_one(i)

    def wait_for(self, cond, what):
        """Poll `cond` (an explicit file/pid condition). Returns True when it holds, False when the
        step finished first or the per-condition deadline passed (reported as an anomaly)."""
        t1 = time.monotonic()
        while True:
            if cond():
                return True
            if self.finished.is_set():
                if cond():
                    return True
                self.anomalies.append(['step_finished_before', what])
                return False
            now = time.monotonic()
            if now - self.t0 > WATCHDOG_S:
                self.infra = f'watchdog: case exceeded {WATCHDOG_S}s waiting for {what}'
                return False
            if now - t1 > WAIT_S:
                self.anomalies.append(['never_happened', what])
                self.free_run = True
                return False
            self.sweep_unexpected()
            time.sleep(0.001)

    def pid_gone(self, i, k):
        _, pids = read_log(self.sc)
        pid = pids.get((i, k))
        if pid is None:
            return True
        try:
            with open(f'/proc/{pid}/stat') as f:
                st = f.read()
            # still there; a zombie has not been reaped by the implementation yet
            return False if st else True
        except (FileNotFoundError, ProcessLookupError):
            return True

    def run(self):
        try:
            self._run()
        except Exception as e:  # pragma: no cover
            self.infra = f'releaser crashed: {type(e).__name__}: {e}'
        finally:
            # whatever happened, never leave a child waiting (also one that starts only now)
            for i in self.all_ids:
                for k in range(self.occ[i] + 2):
                    self.release(i, k)

    def _run(self):
        plan = list(self.plan)
        # 1. every lane's first process must be running before anything is allowed to exit
        k = 0
        while k < len(plan) and plan[k][0] == 's':
            self.expect(plan[k][1])
            k += 1
        first = collections.Counter(self.expected)

        def missing():
            st = scan_markers(self.sc.dir)['started']
            return sorted(i for i, n in first.items() for _ in range(n - len(st.get(i, ()))))
        ok = self.wait_for(lambda: not missing(), ['all_started', sorted(first.elements())])
        if not ok:
            miss = missing()
            if miss and not self.finished.is_set():
                # is it the implementation or the machine? time a trivial spawn
                import subprocess
                t1 = time.monotonic()
                subprocess.run([sys.executable, '-S', '-c', 'pass'])
                if time.monotonic() - t1 > 2.0:
                    self.infra = 'machine too slow to judge concurrency (trivial spawn took > 2 s)'
                    return
            if miss:
                self.anomalies.append(['not_started_concurrently', miss])
        if self.infra:
            return
        # 2. the schedule
        for kind, i in plan[k:]:
            if self.infra:
                return
            if self.free_run or self.finished.is_set():
                break
            if kind == 'f':
                got = [self.release_one(i)]

                def try_release():
                    got[0] = self.release_one(i)
                    return got[0] is not None
                if got[0] is None and not self.wait_for(try_release, ['started', i]):
                    continue
                slot = got[0]
                if self.wait_for(lambda: self.is_done(i, slot), ['done', i]):
                    self.wait_for(lambda: self.pid_gone(i, slot), ['reaped', i])
            else:
                self.expect(i)
                self.wait_for(lambda: self.nstarted(i) >= self.expected[i], ['started', i])
        # 3. until the step returns: anything else that starts is unexpected (and is let go)
        while not self.finished.is_set():
            if time.monotonic() - self.t0 > WATCHDOG_S:
                self.infra = f'watchdog: step did not return within {WATCHDOG_S}s'
                return
            if self.free_run:
                self.release_all_started()
            else:
                self.sweep_unexpected()
            time.sleep(0.001)


def slots_obs(co, sc, procs):
    if isinstance(co, str) and co == SENTINEL:
        return None
    if not isinstance(co, list):
        return {'?': repr(co)[:200]}
    out = []
    for r in co:
        if isinstance(r, list):
            out.append({'sub': [result_obs(x, sc, procs) for x in r]})
        else:
            out.append({'res': result_obs(r, sc, procs)})
    return out


def canon_trace(ev):
    """Concurrent lanes start in an order the OS decides: sort the leading block of starts."""
    k = 0
    while k < len(ev) and ev[k][0] == 's':
        k += 1
    return sorted(ev[:k]) + ev[k:]


def run_async(case, plan):
    import importlib
    from pypyr.context import Context
    from pypyr.errors import MultiError, get_error_name
    quiet_logging()
    shell = case['step'] == 'shells'
    sc = Scratch(wait=True, shell=shell)
    finished = threading.Event()
    try:
        procs = all_procs_async(case['cfg'])
        ctx = Context({'cmds': real_config(case['cfg'], sc, procs), 'cmdOut': SENTINEL})
        step = importlib.import_module('pypyr.steps.' + case['step'])
        rel = Releaser(sc, plan, occurrences(case['cfg']), finished)
        rel.start()
        err_type, errors = None, []
        try:
            step.run_step(ctx)
        except MultiError as e:
            err_type = get_error_name(e)
            errors = [err_obs(x, sc, procs) for x in e.errors]
        except Exception as e:
            err_type = get_error_name(e)
            errors = [err_obs(e, sc, procs)]
        finally:
            # "wait for all of them": the moment the step returns, every process it started has finished
            ev0, _ = read_log(sc)
            running_at_return = sorted((collections.Counter(i for k, i in ev0 if k == 's')
                                        - collections.Counter(i for k, i in ev0 if k == 'f')).elements())
            finished.set()
        rel.join(WATCHDOG_S + 10)
        if rel.is_alive() or rel.infra:
            return {'infra': rel.infra or 'releaser did not stop'}
        # let released stragglers finish before the directory goes away
        t0 = time.monotonic()
        while time.monotonic() - t0 < 5:
            ev, _ = read_log(sc)
            if not (collections.Counter(i for k, i in ev if k == 's') - collections.Counter(i for k, i in ev if k == 'f')):
                break
            time.sleep(0.002)
        ev, _ = read_log(sc)
        return {'trace': canon_trace(ev), 'started': sorted(i for k, i in ev if k == 's'),
                'err_type': err_type, 'errors': errors,
                'cmdOut': slots_obs(ctx.get('cmdOut', '<<deleted>>'), sc, procs),
                'running_at_return': running_at_return,
                'files': sc.files_obs(case['cfg']),
                'anomalies': rel.anomalies}
    finally:
        finished.set()
        sc.close()


# --------------------------------------------------------------------------
# the constructors alone: configuration value -> Command objects (no process is started)
# --------------------------------------------------------------------------

CTOR_TAGS = (('config is wrong', 'bad-item'), ('config should be either', 'bad-config'),
             ('must have a value for', 'run-empty'), ("doesn't exist for", 'run-missing'),
             ("You can't set `stdout` or `stderr`", 'save-with-redirect'))


def ctor_err_obs(e):
    from pypyr.errors import get_error_name
    name = get_error_name(e).rsplit('.', 1)[-1]
    msg = str(e)
    if name == 'KeyNotInContextError' and 'context[' in msg:
        return {'name': name, 'msg': 'config-missing'}
    if name == 'KeyInContextHasNoValueError' and msg.startswith('context['):
        return {'name': name, 'msg': 'config-none'}
    for needle, tag in CTOR_TAGS:
        if needle in msg:
            return {'name': name, 'msg': tag}
    return {'name': name, 'msg': '?' + msg[:80]}


def target_obs(v, is_err):
    if not v:
        return None
    if v == '/dev/null':
        return 'devnull'
    if is_err and v == '/dev/stdout':
        return 'stdout'
    return {'file': v}


def norm_cmd(c):
    if isinstance(c, (list, tuple)):
        return [norm_cmd(x) for x in c]
    return c


def ctor_obs(value, present, is_async, shell):
    """CmdStep(...) / AsyncCmdStep(...) on a context holding the configuration value: the Command objects it
    builds (their attributes), or the exception it raises."""
    from pypyr.context import Context
    quiet_logging()
    key = 'cmds' if is_async else 'cmd'
    ctx = Context({'other': 1, **({key: value} if present else {})})
    try:
        if is_async:
            from pypyr.steps.dsl.cmdasync import AsyncCmdStep
            import pypyr.aio.subproc as aio
            step = AsyncCmdStep(name='pypyr.steps.' + ('shells' if shell else 'cmds'), context=ctx, is_shell=shell)
            import locale
            from pypyr.config import config as _cfg
            # the default an aio Command falls back to (computed here, not read from a module attribute of the tree)
            cmds, dflt_enc = list(step.commands), (_cfg.default_cmd_encoding or locale.getpreferredencoding(False))
        else:
            from pypyr.steps.dsl.cmd import CmdStep
            step = CmdStep(name='pypyr.steps.' + ('shell' if shell else 'cmd'), context=ctx, is_shell=shell)
            cmds, dflt_enc = list(step.commands), None
    except Exception as e:
        return {'err': ctor_err_obs(e)}
    out = []
    for c in cmds:
        so, se = (None, None) if c.is_save else (c.stdout, c.stderr)     # aio: PIPE when saving
        out.append({'run': norm_cmd(c.cmd), 'shell': bool(c.is_shell), 'cwd': c.cwd, 'save': bool(c.is_save),
                    'text': bool(c.is_text), 'encoding': c.encoding,
                    'stdout': target_obs(so, False), 'stderr': target_obs(se, True), 'append': bool(c.append)})
    # `encoding if encoding else <default>`: None for the synchronous Command, the locale's for the asynchronous one
    return {'ok': out, 'default_encoding': dflt_enc}


def ctor_run_obs(value, present, step_name):
    """The whole step on a configuration the constructor refuses: the error, and cmdOut afterwards."""
    import importlib
    from pypyr.context import Context
    quiet_logging()
    key = 'cmds' if step_name in ('cmds', 'shells') else 'cmd'
    ctx = Context({'cmdOut': SENTINEL, **({key: value} if present else {})})
    step = importlib.import_module('pypyr.steps.' + step_name)
    try:
        step.run_step(ctx)
        err = None
    except Exception as e:
        err = ctor_err_obs(e)
    return {'err': err, 'cmdOut_untouched': ctx.get('cmdOut') is SENTINEL}


# --------------------------------------------------------------------------
# histories in ONE FRESH interpreter: import modules / set configuration / run steps, in any order
# --------------------------------------------------------------------------

HIST_EMIT = r"""
import os, sys
d, ident, code, o, e = sys.argv[1:6]
open(os.path.join(d, 'started.' + ident), 'w').close()
if o != '-':
    sys.stdout.buffer.write(bytes.fromhex(o)); sys.stdout.buffer.flush()
if e != '-':
    sys.stderr.buffer.write(bytes.fromhex(e)); sys.stderr.buffer.flush()
os._exit(int(code))
"""

HIST_CHILD = r"""
import importlib, io, json, os, sys
spec = json.load(open(sys.argv[1]))
sys.path.insert(0, spec['repo'])
d = spec['dir']
dn = os.open(os.devnull, os.O_WRONLY); os.dup2(dn, 1); os.dup2(dn, 2)
import logging
logging.disable(logging.CRITICAL)
obs = {'default': io.TextIOWrapper(io.BytesIO()).encoding, 'setup': [], 'runs': []}
file_enc = spec.get('env_file')
SENT = '<<cmdOut untouched>>'

def conf():
    from pypyr.config import config
    return config

def write_cfg(name, text):
    with open(name, 'w', encoding=file_enc or 'utf-8') as f:
        f.write(text)

def txt(v):
    if isinstance(v, (bytes, bytearray)):
        return {'bytes': bytes(v).hex()}
    return v if (v is None or isinstance(v, str)) else {'repr': repr(v)}

try:
    for k, op in enumerate(spec['ops']):
        if op['op'] == 'imp':
            importlib.import_module(op['mod'])
        elif op['op'] in ('setCmd', 'setFile'):
            key = 'default_cmd_encoding' if op['op'] == 'setCmd' else 'default_encoding'
            v, how = op['v'], op['how']
            config = conf()
            if how == 'assign':
                setattr(config, key, v)
            else:
                for f in ('pypyr-config.yaml', 'pyproject.toml'):
                    if os.path.exists(f):
                        os.unlink(f)
                os.environ.pop('PYPYR_CONFIG_GLOBAL', None)
                if how == 'init-yaml':
                    write_cfg('pypyr-config.yaml', '%s: %s\n' % (key, v if v is not None else 'null'))
                elif how == 'init-toml':
                    with open('pyproject.toml', 'wb') as f:
                        f.write(('[tool.pypyr]\n%s = "%s"\n' % (key, v)).encode())
                else:
                    write_cfg('global-%d.yaml' % k, '%s: %s\n' % (key, v if v is not None else 'null'))
                    os.environ['PYPYR_CONFIG_GLOBAL'] = os.path.join(os.getcwd(), 'global-%d.yaml' % k)
                config.init()
            if op['op'] == 'setFile':
                file_enc = v
            obs['setup'].append([config.default_cmd_encoding, config.default_encoding])
        else:
            step = importlib.import_module('pypyr.steps.' + op['step'])
            from pypyr.context import Context
            lines = []
            for i, c in enumerate(op['cmds']):
                line = '%s -S %s %s %d_%d %d %s %s' % (sys.executable, spec['emit'], d, k, i, c['code'],
                                                       c['hexout'] or '-', c['hexerr'] or '-')
                lines.append('exec ' + line if op['step'] in ('shell', 'shells') else line)
            def settings(c):
                m = {'save': op['save']}
                if c['own'] is not None:
                    m['encoding'] = c['own']
                return m
            if op['form'] == 'single':
                cfg = {'run': lines[0], **settings(op['cmds'][0])}
            elif op['form'] == 'runlist':
                cfg = {'run': lines, **settings(op['cmds'][0])}
            else:
                cfg = [{'run': l, **settings(c)} for l, c in zip(lines, op['cmds'])]
            ctx = Context({('cmds' if op['step'] in ('cmds', 'shells') else 'cmd'): cfg, 'cmdOut': SENT})
            at = conf().default_cmd_encoding
            err = None
            try:
                step.run_step(ctx)
            except BaseException as e:
                which = None
                ecmd = getattr(e, 'cmd', None)
                for i, l in enumerate(lines):
                    if ecmd is not None and (ecmd == l or (isinstance(ecmd, list) and ' '.join(ecmd) == l)):
                        which = i
                err = {'type': type(e).__name__, 'code': getattr(e, 'returncode', None), 'cmd': which,
                       'msg': str(e)[:160]}
            co = ctx.get('cmdOut', None)
            if isinstance(co, str) and co == SENT:
                results = 'untouched'
            else:
                rs = co if isinstance(co, list) else [co]
                results = [({'exc': type(r).__name__, 'msg': str(r)[:160]} if isinstance(r, BaseException) else
                            [getattr(r, 'returncode', None), txt(getattr(r, 'stdout', None)),
                             txt(getattr(r, 'stderr', None))]) for r in rs]
            started = sorted(int(n.split('_')[1]) for n in os.listdir(d) if n.startswith('started.%d_' % k))
            obs['runs'].append({'config_at_run': at, 'started': started, 'err': err, 'results': results})
except BaseException as e:
    import traceback
    obs['crash'] = '%s: %s | %s' % (type(e).__name__, e, traceback.format_exc()[-800:])
with open(os.path.join(d, 'obs.json'), 'w') as f:
    json.dump(obs, f)
"""


def run_hist(case):
    """One history in a FRESH interpreter (fork alone would inherit whatever the pool process imported already)."""
    import subprocess
    from . import common
    d = tempfile.mkdtemp(prefix='c17_hist_')
    try:
        emit, child, specf = (os.path.join(d, n) for n in ('emit.py', 'hist_child.py', 'spec.json'))
        with open(emit, 'w') as f:
            f.write(HIST_EMIT)
        with open(child, 'w') as f:
            f.write(HIST_CHILD)
        ops = []
        for op in case['ops']:
            if op['op'] == 'run':
                op = {**op, 'cmds': [{**c, 'hexout': c['out'].encode(c['penc']).hex(),
                                      'hexerr': c['err'].encode(c['penc']).hex()} for c in op['cmds']]}
            ops.append(op)
        with open(specf, 'w') as f:
            json.dump({'repo': str(common.REPO), 'dir': d, 'emit': emit, 'ops': ops,
                       'env_file': case.get('env_file')}, f)
        env = {k: v for k, v in os.environ.items() if not k.startswith('PYPYR_') and k not in ('PYTHONPATH',)}
        env['XDG_CONFIG_HOME'] = os.path.join(d, 'xdg')
        env['XDG_CONFIG_DIRS'] = os.path.join(d, 'xdgdirs')
        env['HOME'] = d
        if case.get('env_cmd'):
            env['PYPYR_CMD_ENCODING'] = case['env_cmd']
        if case.get('env_file'):
            env['PYPYR_ENCODING'] = case['env_file']
        work = os.path.join(d, 'cwd')
        os.mkdir(work)
        p = subprocess.run([sys.executable, child, specf], cwd=work, env=env, stdin=subprocess.DEVNULL,
                           stdout=subprocess.DEVNULL, stderr=subprocess.PIPE)
        try:
            with open(os.path.join(d, 'obs.json')) as f:
                return json.load(f)
        except (OSError, ValueError):
            return {'crash': f'history process left no observation (exit {p.returncode}): '
                             f'{p.stderr.decode("utf-8", "replace")[-600:]}'}
    finally:
        shutil.rmtree(d, ignore_errors=True)


# --------------------------------------------------------------------------
# worker entry (multiprocessing)
# --------------------------------------------------------------------------

def worker_init():
    # commands without `save` inherit stdout/stderr: keep the scripted output off the check's output
    dn = os.open(os.devnull, os.O_WRONLY)
    os.dup2(dn, 1)
    os.dup2(dn, 2)


def run_case(case, plan):
    try:
        if case['kind'] == 'serial':
            return run_serial(case)
        if case['kind'] == 'hist':
            return run_hist(case)
        return run_async(case, plan)
    except Exception as e:
        import traceback
        return {'infra': f'{type(e).__name__}: {e}\n{traceback.format_exc()[-1500:]}'}


def _scratch_logs(root):
    """(started, finished) ids found in the child-script logs below `root` (a killed case leaves them)."""
    st, fn = [], []
    for dp, _, fs in os.walk(root):
        if 'log' in fs and os.path.basename(dp).startswith('c17_'):
            class _S:
                dir = dp
            ev, _ = read_log(_S)
            st += [i for k, i in ev if k == 's']
            fn += [i for k, i in ev if k == 'f']
    return st, fn


RUN_ROOT = None     # set by begin_run() before the worker pool forks: every case directory lives below it


def begin_run():
    global RUN_ROOT
    RUN_ROOT = tempfile.mkdtemp(prefix='c17run_')
    return RUN_ROOT


def end_run():
    """After the pool is gone (workers may have been terminated in the middle of a case): kill every case
    process group that is still there and remove every scratch directory of the run."""
    global RUN_ROOT
    root, RUN_ROOT = RUN_ROOT, None
    if not root:
        return
    try:
        names = os.listdir(root)
    except OSError:
        names = []
    for n in names:
        if n.endswith('.pid'):
            try:
                with open(os.path.join(root, n)) as f:
                    pid = int(f.read().strip())
            except (OSError, ValueError):
                continue
            for kill in (os.killpg, os.kill):
                try:
                    kill(pid, signal.SIGKILL)
                except (ProcessLookupError, PermissionError):
                    pass
    shutil.rmtree(root, ignore_errors=True)


def isolated(case, plan, deadline=None):
    """Run one case in a process (group) of its own under a deadline. The implementation under test may
    never return (an event loop that never finishes, a wait on a process nobody reaps, unbounded recursion
    into C): that must be an observation - `{'hang': ...}` - never a hang of the check. The observation
    comes back as JSON over a pipe; on the deadline the whole process group (the step and every command it
    spawned) is killed."""
    deadline = CASE_DEADLINE_S if deadline is None else deadline
    root = tempfile.mkdtemp(prefix='case_', dir=RUN_ROOT)
    r, w = os.pipe()
    pid = os.fork()
    if pid != 0 and RUN_ROOT:
        with open(root + '.pid', 'w') as f:
            f.write(str(pid))
    if pid == 0:
        code = 0
        try:
            os.close(r)
            os.setsid()
            tempfile.tempdir = root
            data = json.dumps(run_case(case, plan)).encode()
            while data:
                n = os.write(w, data)
                data = data[n:]
        except BaseException as e:      # noqa: the child must never fall back into the pool's code
            try:
                os.write(w, json.dumps({'infra': f'case process: {type(e).__name__}: {e}'}).encode())
            except Exception:
                code = 3
        finally:
            os._exit(code)
    os.close(w)
    t0 = time.monotonic()
    buf = b''
    timed_out = False
    try:
        while True:
            left = deadline - (time.monotonic() - t0)
            if left <= 0:
                timed_out = True
                break
            rd, _, _ = select.select([r], [], [], min(left, 1.0))
            if rd:
                chunk = os.read(r, 1 << 16)
                if not chunk:
                    break
                buf += chunk
        if timed_out:
            st, fn = _scratch_logs(root)
            # the machine, or the implementation? time a trivial spawn
            import subprocess
            t1 = time.monotonic()
            subprocess.run([sys.executable, '-S', '-c', 'pass'])
            slow = time.monotonic() - t1
            if slow > 2.0:
                return {'infra': f'case not finished after {deadline}s on a machine where a trivial spawn takes {slow:.1f}s'}
            return {'hang': {'after_s': deadline, 'started': st, 'finished': fn}}
        if not buf:
            return {'infra': 'case process died without an observation'}
        return json.loads(buf.decode())
    finally:
        os.close(r)
        for kill in (os.killpg, os.kill):
            try:
                kill(pid, signal.SIGKILL)
            except (ProcessLookupError, PermissionError):
                pass
        try:
            os.waitpid(pid, 0)
        except ChildProcessError:
            pass
        shutil.rmtree(root, ignore_errors=True)
        try:
            os.unlink(root + '.pid')
        except OSError:
            pass


def worker(job):
    idx, case, plan = job
    try:
        return idx, isolated(case, plan)
    except Exception as e:
        import traceback
        return idx, {'infra': f'{type(e).__name__}: {e}\n{traceback.format_exc()[-1500:]}'}
