"""Directed families of round 3 (expectations from the property texts, see harness/floworacle.py):

  hidden inputs   the LOG LEVEL (prog['log'] = 10 / 20 / 25 / absent) - what a pipeline does must not depend on it:
                  foreach over ONE-SHOT iterables (iterators, generators, zip / map / enumerate / reversed objects),
                  retry schedules from stateful back-off objects (list-valued sleep);
  odd exception objects  falsy (`__len__` 0, `__bool__` False), equal-to-everything, CHAINED (`raise X from Y`,
                  `raise X from None`, implicit `__context__`): an error is the error the step raised - for the
                  retry filters, for runErrors, for the caller;
  large numbers   counters beyond CPython's small-int cache (-5..256): retry / while max 257, 300, 1000, as text,
                  foreach over 300 items;
  yaml scalar classes  conditions written single-quoted / plain / as `|-`, `>-` block scalars / with anchors and
                  aliases / pulled in by merge keys: the same value, the same decision;
  instructions under the raiser's own decorators  a jump whose step carries retry / while / foreach / swallow
                  leaves there and then: the step ran once, its expressions were evaluated once;
  jump queues     handler-less `jump: [c1, c2]` with stopstepgroup inside the jumped-to groups, failure handlers
                  that jump; blank pipeArg; out keys the parent already holds.

Cases marked meta['impl_only'] use python source outside the modelled `!py` language (wire form {'pyraw': src}) or
steps the model does not have: they run on the implementation alone and are judged by the expectation."""
from __future__ import annotations

import itertools
import json

from .flowgen import D, P, pycmp, pyname
from .floworacle import (ANY, MISSING, TEXT_FALSE, TEXT_TRUE, _call, _jump, _pype, c03_caller, cover_first, probe,
                         prog_of, subsets, with_layout)

LOGS = [None, 10, 20, 25]
T = lambda *xs: {'t': list(xs)}  # noqa: E731   a tuple in wire form


def raw(src):
    return {'pyraw': src}


# --------------------------------------------------------------------------
# C05: foreach over one-shot iterables, at every log level
# --------------------------------------------------------------------------

ONE_SHOT = [
    ('iter(lst)', ['a', 'b', 'c']),
    ('zip(lst, nums)', [T('a', 1), T('b', 2), T('c', 3)]),
    ('(x * 2 for x in nums)', [2, 4, 6]),
    ('reversed(lst)', ['c', 'b', 'a']),
    ('enumerate(lst)', [T(0, 'a'), T(1, 'b'), T(2, 'c')]),
    ('map(str, nums)', ['1', '2', '3']),
    ('filter(None, [0, 1, None, 2])', [1, 2]),
    ('iter(())', []),
    ('dict(a=1, b=2).items()', [T('a', 1), T('b', 2)]),          # re-iterable views / ranges as controls
    ('range(3)', [0, 1, 2]),
    ('iter(range(2))', [0, 1]),
    ('(c for c in "xy")', ['x', 'y']),
]


def c05_oneshot_family(rng, n):
    """foreach executes the step once per item of its once-evaluated iterable, in order, `i` bound to the item -
    also when the iterable can be walked only once; nested in while every iteration evaluates the expression
    afresh and runs the complete sequence. Whatever the log level."""
    cases = []
    for (src, items), wmax, log, deco in itertools.product(ONE_SHOT, (None, 2), LOGS, ('plain', 'retry', 'swallow', 'run')):
        cases.append((src, items, wmax, log, deco))
    rng.shuffle(cases)
    cases = cover_first(cases, lambda c: (c[0], c[3] == 10), lambda c: (c[2], c[3]), lambda c: c[4])
    for src, items, wmax, log, deco in cases[:n]:
        st = probe('L')
        st['foreach'] = raw(src)
        if wmax:
            st['while'] = {'max': wmax}
        if deco == 'retry':
            st['retry'] = {'max': 2}
        elif deco == 'swallow':
            st['swallow'] = True
        elif deco == 'run':
            st['run'] = '{go}'
        events = []
        for w in ([MISSING] if not wmax else range(1, wmax + 1)):
            events += [('L', x, w, ANY) for x in items]
        events.append(('Z', ANY, ANY, ANY))
        prog = prog_of([['steps', [st, probe('Z')]]], ctx={'lst': ['a', 'b', 'c'], 'nums': [1, 2, 3], 'go': 'true'})
        prog['log'] = log
        yield prog, {'events': events, 'outcome': 'ok', 'nerr': 0}, {
            'family': 'c05-one-shot-iterable', 'foreach': src, 'while_max': wmax, 'log': log, 'decorator': deco,
            'impl_only': True}


def c05_big_family(rng, n):
    """loops beyond CPython's small-int cache: foreach over 300 items, while max 257 / 300 (also as text), with
    and without errorOnMax; every iteration runs, counters count on."""
    out = []
    big = list(range(1000, 1300))
    st = probe('L')
    st['foreach'] = '{big}'
    out.append((prog_of([['steps', [st, probe('Z')]]], ctx={'big': big}),
                {'events': [('L', x, ANY, ANY) for x in big] + [('Z', ANY, ANY, ANY)], 'outcome': 'ok', 'nerr': 0},
                {'family': 'c05-big', 'case': 'foreach-300'}))
    for mx, cnt in ((257, 257), (300, 300), ('260', 260), ('{bigmax}', 258)):
        for eom in (False, True):
            st = probe('W')
            st['while'] = {'max': mx, 'sleep': 0}
            if eom:
                st['while']['errorOnMax'] = True
            ev = [('W', ANY, k + 1, ANY) for k in range(cnt)]
            if eom:
                exp = {'events': ev + [('OF', ANY, ANY, ANY)], 'outcome': ('err', 'pypyr.errors.LoopMaxExhaustedError'),
                       'sleeps': [0] * (cnt - 1)}
            else:
                exp = {'events': ev + [('Z', ANY, ANY, ANY)], 'outcome': 'ok', 'sleeps': [0] * (cnt - 1), 'nerr': 0}
            out.append((prog_of([['steps', [st, probe('Z')]], ['on_failure', [probe('OF')]]], ctx={'bigmax': 258}), exp,
                        {'family': 'c05-big', 'case': 'while-max', 'max': json.dumps(mx), 'errorOnMax': eom}))
    # a stop condition that becomes true beyond 256
    st = probe('W')
    st['while'] = {'max': 400, 'stop': pycmp('whileCounter', '==', 270), 'errorOnMax': True}
    out.append((prog_of([['steps', [st, probe('Z')]]]),
                {'events': [('W', ANY, k + 1, ANY) for k in range(270)] + [('Z', ANY, ANY, ANY)], 'outcome': 'ok'},
                {'family': 'c05-big', 'case': 'while-stop-at-270'}))
    rng.shuffle(out)
    out = cover_first(out, lambda c: c[2]['case'], lambda c: c[2].get('errorOnMax'))
    for prog, exp, meta in out[:n]:
        prog['fuel'] = 60000
        yield prog, exp, meta


# --------------------------------------------------------------------------
# C06: the schedule of a stateful back-off at every log level; filters and chained errors
# --------------------------------------------------------------------------

def c06_schedule_family(rng, n):
    """sleeps for exactly the duration the strategy gives for that attempt number - a list's entries in order,
    the last one repeating, capped by sleepMax - at every log level, at every entry of the loop."""
    E = 'ValueError'
    cases = []
    for sleep, cap in (([1, 2, 3, 4], None), ([1, 2, 8, 16], 5), ([5, 1], None), ([7], 3), ([1, 2, 3, 4, 5, 6], None)):
        for kind in ('fixed', 'jitter', None):
            for nfail in (1, 2, 4, 5):
                for log in LOGS:
                    for loop in (None, 'foreach'):
                        cases.append((sleep, cap, kind, nfail, log, loop))
    rng.shuffle(cases)
    cases = cover_first(cases, lambda c: (c[4], c[2]), lambda c: (json.dumps(c[0]), c[4] == 10), lambda c: c[3], lambda c: c[5])
    for sleep, cap, kind, nfail, log, loop in cases[:n]:
        rt = {'max': 6, 'sleep': sleep}
        if kind:
            rt['backoff'] = kind
        if kind == 'jitter':
            rt['jrc'] = 1                  # jitter between d and d: the schedule itself
        if cap is not None:
            rt['sleepMax'] = cap
        entries = 2 if loop else 1
        st = probe('R', fails=([E] * nfail + [None]) * entries)
        st['retry'] = rt
        if loop:
            st['foreach'] = ['x', 'y']
        events, sleeps = [], []
        for e in range(entries):
            for k in range(1, nfail + 2):
                events.append(('R', ['x', 'y'][e] if loop else ANY, ANY, k))
                if k <= nfail:
                    d = sleep[min(k - 1, len(sleep) - 1)]
                    sleeps.append(min(d, cap) if cap else d)
        prog = prog_of([['steps', [st, probe('Z')]]])
        prog['rnd'] = [[rng.randint(0, 4), 2] for _ in range(12)]
        prog['log'] = log
        yield prog, {'events': events + [('Z', ANY, ANY, ANY)], 'outcome': 'ok', 'sleeps': sleeps, 'nerr': 0}, {
            'family': 'c06-schedule', 'sleep': json.dumps(sleep), 'sleepMax': cap, 'backoff': kind, 'failures': nfail,
            'log': log, 'loop': loop}


ODD_ERRORS = ['vprobe.FalsyError', 'vprobe.FalsyBoolError', 'vprobe.EqAllError', 'ValueError', 'vprobe.OtherError']
CAUSES = [None, 'from:KeyError', 'from:vprobe.ProbeError', 'none:KeyError', 'context:TypeError', 'from:ValueError']


def _cause_name(cause):
    return cause.partition(':')[2] if cause else None


def c06_odd_errors_family(rng, n):
    """An attempt that raised FAILED, whatever the exception object's truth value or equality; stopOn / retryOn
    look at the name of the error THE STEP RAISED - not at what it was raised from (`raise X from Y`), not at the
    error being handled when it was raised (`__context__`). Alone and as while > foreach > retry > body."""
    cases = []
    for err, cause in itertools.product(ODD_ERRORS, CAUSES):
        cn = _cause_name(cause)
        filters = [('none', {}), ('stopOn-err', {'stopOn': [err]}), ('retryOn-err', {'retryOn': [err]}),
                   ('stopOn-other', {'stopOn': ['RuntimeError']}), ('retryOn-other', {'retryOn': ['RuntimeError']})]
        if cn and cn != err:
            filters += [('stopOn-cause', {'stopOn': [cn]}), ('retryOn-cause', {'retryOn': [cn]}),
                        ('retryOn-err-stopOn-cause', {'retryOn': [err], 'stopOn': [cn]})]
        for (fname, flt), script, loops, sw in itertools.product(filters, ('always', 'twice'), (False, True), (False, True)):
            cases.append((err, cause, fname, flt, script, loops, sw))
    rng.shuffle(cases)
    cases = cover_first(cases, lambda c: (c[0], c[4], c[5]), lambda c: (c[1], c[2]), lambda c: (c[0], c[2]), lambda c: c[6])
    for err, cause, fname, flt, script, loops, sw in cases[:n]:
        mx = 3
        stops = (err in flt.get('stopOn', [])) or ('retryOn' in flt and err not in flt['retryOn'])
        entries = [(w, x) for w in (1, 2) for x in ('a', 'b')] if loops else [(ANY, ANY)]
        per = ([err, err, None] if script == 'twice' else [err] * mx)
        kw = {'fails': per * len(entries)}
        if cause:
            kw['cause'] = cause
        st = probe('R', **kw)
        st['retry'] = dict({'max': mx, 'sleep': 1}, **json.loads(json.dumps(flt)))
        if loops:
            st['while'] = {'max': 2}
            st['foreach'] = ['a', 'b']
        if sw:
            st['swallow'] = True
        events, sleeps, outcome, nerr = [], [], 'ok', 0
        # the script is positional (execution count of the probe), so replay it as the property says it is consumed
        pos = 0
        script_all = kw['fails']
        for ei, (w, x) in enumerate(entries):
            if loops and ei == 2:
                sleeps.append(0)                 # the while loop's own pause (sleep 0) between its two iterations
            failed = None
            for k in range(1, mx + 1):
                events.append(('R', x, w, k))
                e = script_all[pos] if pos < len(script_all) else None
                pos += 1
                if e is None:
                    break
                if k == mx or stops:
                    failed = e
                    break
                sleeps.append(1)
            if failed:
                nerr += 1
                if not sw:
                    outcome = ('err', failed)
                    break
        exp = {'events': events + ([('Z', ANY, ANY, ANY)] if outcome == 'ok' else [('OF', ANY, ANY, ANY)]),
               'outcome': outcome, 'sleeps': sleeps, 'nerr': nerr}
        if outcome != 'ok':
            exp['err_msg'] = 'boom R'
        prog = prog_of([['steps', [st, probe('Z')]], ['on_failure', [probe('OF')]]], ctx={'k': 'v'})
        yield prog, exp, {'family': 'c06-odd-errors', 'error': err, 'raised': cause or 'plain', 'filter': fname,
                          'script': script, 'loops': loops, 'swallow': sw}


def c06_builtin_chained_family(rng, n):
    """pypyr's own steps translate low-level errors (`raise ContextError(..) from TypeError`): pypyr.steps.add given
    `add: 5` raises ContextError - the filters name that error. Implementation only (the model has no add step)."""
    out = []
    for fname, flt, attempts in (('stopOn-err', {'stopOn': ['pypyr.errors.ContextError']}, 1),
                                 ('retryOn-cause', {'retryOn': ['TypeError']}, 1),
                                 ('retryOn-err', {'retryOn': ['pypyr.errors.ContextError']}, 3),
                                 ('stopOn-cause', {'stopOn': ['TypeError']}, 3), ('none', {}, 3)):
        for log in (None, 10):
            st = {'name': 'pypyr.steps.add', 'in': [['add', 5]], 'retry': dict({'max': 3, 'sleep': 2}, **flt)}
            prog = prog_of([['steps', [probe('A'), st, probe('Z')]], ['on_failure', [probe('OF', keys=['retryCounter'])]]],
                           ctx={'k': 'v'})
            prog['log'] = log
            out.append((prog, {'tags': ['A', 'OF'], 'outcome': ('err', 'pypyr.errors.ContextError'),
                               'sleeps': [2] * (attempts - 1), 'nerr': 1, 'ctx_has': {'retryCounter': attempts}},
                        {'family': 'c06-chained-builtin-step', 'filter': fname, 'log': log, 'impl_only': True}))
    rng.shuffle(out)
    out = cover_first(out, lambda c: c[2]['filter'])
    yield from out[:n]


# --------------------------------------------------------------------------
# C07 (+C06): counts beyond the small-int cache
# --------------------------------------------------------------------------

def c07_big_family(rng, n):
    """once a step's retries are exhausted ONE entry is appended, carrying the name, message and exception object
    of the error of the last attempt - for max 257, 300, 400 and '260' as for max 3."""
    out = []
    for mx, cnt in ((256, 256), (257, 257), (300, 300), ('260', 260), ('{big}', 258), (400, 400), (3, 3)):
        for sw in (False, True):
            for script in ('always', 'recovers'):
                if script == 'recovers':
                    fails = ['ValueError'] * (cnt - 1) + [None]
                else:
                    fails = ['ValueError'] * (cnt - 1)
                st = probe('R', fails=fails, failRest='vprobe.OtherError' if script == 'always' else None, msg='last one')
                st['retry'] = {'max': mx, 'sleep': 0}
                if sw:
                    st['swallow'] = True
                st['onError'] = D(code=3)
                ev = [('R', ANY, ANY, k + 1) for k in range(cnt)]
                if script == 'recovers':
                    exp = {'events': ev + [('Z', ANY, ANY, ANY)], 'outcome': 'ok', 'entries': [], 'sleeps': [0] * (cnt - 1)}
                else:
                    ent = {'name': 'vprobe.OtherError', 'description': 'last one', 'swallowed': sw, 'step': 'vprobe',
                           'customError': D(code=3), 'at': st}
                    exp = {'events': ev + [('Z' if sw else 'OF', ANY, ANY, ANY)], 'entries': [ent],
                           'outcome': 'ok' if sw else ('err', 'vprobe.OtherError'), 'sleeps': [0] * (cnt - 1)}
                    if not sw:
                        exp['err_msg'] = 'last one'
                prog = prog_of([['steps', [st, probe('Z')]], ['on_failure', [probe('OF')]]], ctx={'big': 258})
                prog['fuel'] = 60000
                out.append((prog, exp, {'family': 'c07-big-counts', 'max': json.dumps(mx), 'swallow': sw, 'script': script}))
    rng.shuffle(out)
    out = cover_first(out, lambda c: (c[2]['max'], c[2]['script']), lambda c: c[2]['swallow'])
    yield from out[:n]


# --------------------------------------------------------------------------
# C04: the same condition in every yaml scalar style
# --------------------------------------------------------------------------

STYLE_LAYOUTS = [
    None, {'style': 'block', 'scalars': 'single'}, {'style': 'block', 'anchors': True},
    {'style': 'block', 'scalars': 'literal'}, {'style': 'block', 'scalars': 'folded'},
    {'style': 'block', 'scalars': 'literal', 'anchors': True}, {'style': 'block', 'merge': True},
    {'style': 'block', 'merge': True, 'anchors': True}, {'style': 'flow', 'anchors': True},
    {'style': 'wrap', 'anchors': True, 'quote': True}, {'style': 'block', 'scalars': 'mixed', 'anchors': True, 'indent': 4},
    {'style': 'block', 'scalars': 'plain', 'dashsplit': True}, {'style': 'flow', 'scalars': 'single', 'perline': True},
]


def c04_styles_family(rng, n):
    """A step's body executes iff run evaluates true and skip evaluates false at the moment of each execution, by
    the truth rule (text is true only for true / 1 / 1.0, case-insensitive); swallow likewise - however the
    pipeline author wrote the scalar: quoted, plain, block, anchored once and re-used by alias, merged in."""
    truth = lambda t: isinstance(t, str) and t.lower() in ('true', '1', '1.0')  # noqa: E731
    base = []
    # (1) one condition text used by two steps (alias): run on A, skip on B; the text is an expression over a flag
    for val in (True, False, 'false', 'TRUE', 'nope', 0, 1, ''):
        t = bool(val) if not isinstance(val, str) else truth(val)
        a, b = probe('A'), probe('B')
        a['run'] = '{deploy}'
        b['skip'] = '{deploy}'
        base.append((prog_of([['steps', [a, b, probe('Z')]]], ctx={'deploy': val}),
                     {'tags': (['A'] if t else ['B']) + ['Z'], 'outcome': 'ok', 'nerr': 0},
                     {'family': 'c04-scalar-styles', 'case': 'flag-expression', 'value': json.dumps(val)}))
    # (2) literal texts
    for txt in TEXT_TRUE + TEXT_FALSE:
        if not txt or txt != txt.strip():
            continue
        t = truth(txt)
        a, b = probe('A'), probe('B')
        a['run'] = txt
        b['skip'] = txt
        base.append((prog_of([['steps', [a, b, probe('Z')]]], ctx={'k': 'v'}),
                     {'tags': (['A'] if t else ['B']) + ['Z'], 'outcome': 'ok', 'nerr': 0},
                     {'family': 'c04-scalar-styles', 'case': 'literal-text', 'value': txt}))
    # (3) decided per iteration: run: '{i}' over texts
    items = ['nope', 'true', 'false', '1', 'TRUE', '0', '1.0', 'x']
    st = probe('P')
    st['foreach'] = items
    st['run'] = '{i}'
    s2 = probe('Q')
    s2['foreach'] = items
    s2['skip'] = '{i}'
    base.append((prog_of([['steps', [st, s2, probe('Z')]]], ctx={'k': 'v'}),
                 {'events': [('P', x, ANY, ANY) for x in items if truth(x)] + [('Q', x, ANY, ANY) for x in items if not truth(x)]
                  + [('Z', ANY, ANY, ANY)], 'outcome': 'ok', 'nerr': 0},
                 {'family': 'c04-scalar-styles', 'case': 'per-iteration'}))
    # (4) swallow, decided after the body; the same text on two steps
    for val in (True, False, 'false', 'true', 'no'):
        t = bool(val) if not isinstance(val, str) else truth(val)
        f1, f2 = probe('F1', failRest='ValueError'), probe('F2', failRest='ValueError')
        f1['swallow'] = '{tolerant}'
        f2['swallow'] = '{tolerant}'
        base.append((prog_of([['steps', [f1, f2, probe('Z')]], ['on_failure', [probe('OF')]]], ctx={'tolerant': val}),
                     {'tags': ['F1', 'F2', 'Z'] if t else ['F1', 'OF'], 'outcome': 'ok' if t else ('err', 'ValueError'),
                      'nerr': 2 if t else 1},
                     {'family': 'c04-scalar-styles', 'case': 'swallow', 'value': json.dumps(val)}))
    # (5) the typed settings of while / retry as text: stop, errorOnMax, max
    for stop, eom in (('{done}', 'false'), ('false', '{strict}'), ('{never}', 'TRUE')):
        w = probe('W')
        w['while'] = {'max': '2', 'stop': stop, 'errorOnMax': eom}
        w2 = probe('W2')
        w2['while'] = {'max': '2', 'stop': stop}
        ctx = {'done': 'true', 'strict': 'true', 'never': 'no'}
        if stop == '{done}':
            exp = {'tags': ['W', 'W2', 'Z'], 'outcome': 'ok'}
        else:
            exp = {'tags': ['W', 'W', 'OF'], 'outcome': ('err', 'pypyr.errors.LoopMaxExhaustedError')}
        base.append((prog_of([['steps', [w, w2, probe('Z')]], ['on_failure', [probe('OF')]]], ctx=ctx), exp,
                     {'family': 'c04-scalar-styles', 'case': 'while-text', 'stop': stop, 'errorOnMax': eom}))
    r = probe('R', failRest='ValueError')
    r['retry'] = {'max': '{two}', 'sleepMax': '1.5', 'sleep': 4}
    r2 = probe('R2', failRest='TypeError')
    r2['retry'] = {'max': '{two}'}
    r['swallow'] = 'true'
    base.append((prog_of([['steps', [r, r2, probe('Z')]], ['on_failure', [probe('OF')]]], ctx={'two': '2'}),
                 {'tags': ['R', 'R', 'R2', 'R2', 'OF'], 'outcome': ('err', 'TypeError'), 'sleeps': [1.5, 0], 'nerr': 2},
                 {'family': 'c04-scalar-styles', 'case': 'retry-text'}))
    out = [(bi, li) for bi in range(len(base)) for li in range(len(STYLE_LAYOUTS))]
    rng.shuffle(out)
    out = cover_first(out, lambda c: c[1], lambda c: (base[c[0]][2]['case'], c[1] % 4), lambda c: c[0])
    for bi, li in out[:n]:
        prog, exp, meta = base[bi]
        prog2 = with_layout(json.loads(json.dumps(prog)), STYLE_LAYOUTS[li])
        yield prog2, dict(exp), dict(meta, layout=json.dumps(STYLE_LAYOUTS[li]))


# --------------------------------------------------------------------------
# C03 / C02: an instruction raised under the raiser's own decorators
# --------------------------------------------------------------------------

def c03_jump_decorated_family(rng, n):
    """A jump abandons the remaining steps of its group and runs the target groups instead - there and then: when
    the jumping step itself carries retry / while / foreach / swallow the step has run ONCE (retryCounter 1, first
    item, first while iteration), nothing was slept, the target expression was evaluated once."""
    out = []
    decos = [('foreach', ['p', 'q']), ('while', {'max': 3, 'sleep': 2}), ('swallow', True), ('retry', {'max': 3, 'sleep': 1}),
             ('retry', {'sleep': 1}), ('retry', {'max': 2, 'retryOn': ['ValueError']}), ('retry', {'max': 300, 'sleep': 0})]
    for dd in subsets(decos, 3):
        if sum(1 for k, _ in dd if k == 'retry') > 1:
            continue
        for where in ('main', 'called', 'handler'):
            for target in ('str', 'list', 'dict', 'fmt'):
                out.append((dd, where, target, None))
    # the target given by an expression with a side effect: evaluated once (implementation only)
    for dd in subsets(decos, 2):
        if sum(1 for k, _ in dd if k == 'retry') > 1:
            continue
        out.append((dd, 'main', 'pop', None))
    rng.shuffle(out)
    out = cover_first(out, lambda c: json.dumps(c[0]), lambda c: (c[1], c[2]))
    for dd, where, target, _ in out[:n]:
        tgt = {'str': 't1', 'list': ['t1', 't2'], 'dict': D(groups=['t1', 't2'], success='ts'), 'fmt': '{tname}',
               'pop': raw('todo.pop(0)')}[target]
        js = _jump(tgt)
        for k, v in dd:
            js[k] = json.loads(json.dumps(v))
        tgroups = [['t1', [probe('T1', keys=['i', 'whileCounter', 'retryCounter'])]], ['t2', [probe('T2')]],
                   ['ts', [probe('TS')]], ['t3', [probe('T3')]]]
        ttags = {'str': ['T1'], 'list': ['T1', 'T2'], 'dict': ['T1', 'T2', 'TS'], 'fmt': ['T1'], 'pop': ['T1']}[target]
        has = dict((k, v) for k, v in dd)
        ev1 = ('T1', 'p' if 'foreach' in has else ANY, 1 if 'while' in has else ANY, 1 if 'retry' in has else ANY)
        ctx = {'tname': 't1', 'todo': ['t1', 't2', 't3']}
        if where == 'main':
            groups = [['steps', [probe('A'), js, probe('B')]]] + tgroups + [['on_success', [probe('OS')]]]
            tags = ['A'] + ttags + ['OS']
            exp = {'outcome': 'ok', 'nerr': 0}
        elif where == 'called':
            groups = [['steps', [probe('A'), _call('g'), probe('B')]], ['g', [probe('C'), js, probe('D')]]] + tgroups + [
                ['on_success', [probe('OS')]]]
            tags = ['A', 'C'] + ttags + ['B', 'OS']
            exp = {'outcome': 'ok', 'nerr': 0}
        else:
            groups = [['steps', [probe('A'), probe('F', failRest='ValueError'), probe('B')]],
                      ['on_failure', [probe('H'), js, probe('D')]]] + tgroups
            tags = ['A', 'F', 'H'] + ttags
            exp = {'outcome': ('err', 'ValueError'), 'nerr': 1}
        exp.update({'tags': tags, 'sleeps': [], 'events_of': {'tag': 'T1', 'events': [ev1]}})
        meta = {'family': 'c03-jump-decorated', 'where': where, 'target': target,
                'decorators': json.dumps([[k, v] for k, v in dd])}
        if target == 'pop':
            exp['ctx_has'] = {'todo': ['t2', 't3']}
            meta['impl_only'] = True
        prog = prog_of(groups, ctx=ctx)
        prog['budget_s'] = 5          # tiny programs: one that has not ended after 5 s never will
        yield prog, exp, meta


def c02_jump_queue_family(rng, n):
    """stopstepgroup ends only the step-group it occurs in: the remaining groups of a `jump: [c1, c2]` (and of
    whatever jumped there), the success handler and the caller's following steps still run; in a group a failure
    handler jumped to it ends that group - the failure being handled still reaches the caller."""
    out = []
    SSG = 'pypyr.steps.stopstepgroup'
    for form in ('list', 'dict', 'fmt-list'):
        def J(gs, form=form):
            return _jump({'list': gs, 'dict': D(groups=gs), 'fmt-list': ['{%s}' % ('n_' + g) for g in gs]}[form])
        ctx = {('n_' + g): g for g in ('c1', 'c2', 'c3', 'd1', 'd2', 'h1', 'h2')}
        ctx['k'] = 'v'
        # A: first of two jumped-to groups stops itself
        out.append((prog_of([['steps', [probe('A'), J(['c1', 'c2']), probe('B')]], ['c1', [probe('C1'), SSG, probe('N1')]],
                             ['c2', [probe('C2')]], ['on_success', [probe('OS')]]], ctx=ctx),
                    {'tags': ['A', 'C1', 'C2', 'OS'], 'outcome': 'ok', 'nerr': 0}, {'case': 'first-stops'}))
        # B: three groups, the middle one stops; and the last one
        out.append((prog_of([['steps', [probe('A'), J(['c1', 'c2', 'c3'])]], ['c1', [probe('C1')]],
                             ['c2', [probe('C2'), SSG, probe('N2')]], ['c3', [probe('C3'), SSG]],
                             ['on_success', [probe('OS')]]], ctx=ctx),
                    {'tags': ['A', 'C1', 'C2', 'C3', 'OS'], 'outcome': 'ok', 'nerr': 0}, {'case': 'middle-stops'}))
        # C: c1 jumps on to [d1, d2], d1 stops: d2 and then c2 still run
        out.append((prog_of([['steps', [probe('A'), J(['c1', 'c2'])]], ['c1', [probe('C1'), J(['d1', 'd2']), probe('N1')]],
                             ['c2', [probe('C2')]], ['d1', [probe('D1'), SSG, probe('ND')]], ['d2', [probe('D2')]],
                             ['on_success', [probe('OS')]]], ctx=ctx),
                    {'tags': ['A', 'C1', 'D1', 'D2', 'C2', 'OS'], 'outcome': 'ok', 'nerr': 0}, {'case': 'nested-jump-stops'}))
        # D: inside a called group: the caller goes on after the call
        out.append((prog_of([['steps', [probe('A'), _call('g'), probe('B')]], ['g', [probe('G'), J(['c1', 'c2']), probe('NG')]],
                             ['c1', [SSG]], ['c2', [probe('C2')]], ['on_success', [probe('OS')]]], ctx=ctx),
                    {'tags': ['A', 'G', 'C2', 'B', 'OS'], 'outcome': 'ok', 'nerr': 0}, {'case': 'called-group-jumps'}))
        # E: the pipeline's failure handler jumps to a group that ends with stopstepgroup: the error still surfaces
        out.append((prog_of([['steps', [probe('A'), probe('F', failRest='ValueError'), probe('B')]],
                             ['on_failure', [probe('H'), J(['h1']), probe('NH')]], ['h1', [probe('H1'), SSG, probe('N1')]],
                             ['on_success', [probe('OS')]]], ctx=ctx),
                    {'tags': ['A', 'F', 'H', 'H1'], 'outcome': ('err', 'ValueError'), 'err_msg': 'boom F', 'nerr': 1},
                    {'case': 'failure-handler-jumps-to-stop'}))
        out.append((prog_of([['steps', [probe('A'), probe('F', failRest='ValueError'), probe('B')]],
                             ['on_failure', [probe('H'), J(['h1', 'h2'])]], ['h1', [probe('H1'), SSG]], ['h2', [probe('H2')]]],
                            ctx=ctx),
                    {'tags': ['A', 'F', 'H', 'H1', 'H2'], 'outcome': ('err', 'ValueError'), 'nerr': 1},
                    {'case': 'failure-handler-jumps-two'}))
        # F: the failure group of a call: the calling step fails, the steps after it do not run
        out.append((prog_of([['steps', [probe('A'), _call(D(groups=['g'], failure='gf')), probe('B')]],
                             ['g', [probe('G'), probe('F', failRest='ValueError')]], ['gf', [probe('GF'), J(['h1'])]],
                             ['h1', [probe('H1'), SSG, probe('N1')]], ['on_failure', [probe('OF')]],
                             ['on_success', [probe('OS')]]], ctx=ctx),
                    {'tags': ['A', 'G', 'F', 'GF', 'H1', 'OF'], 'outcome': ('err', 'ValueError'), 'nerr': 1},
                    {'case': 'call-failure-group-jumps-to-stop'}))
        # G: stopstepgroup directly in the failure handler after a jump came back? (control: no jump) quiet end
        out.append((prog_of([['steps', [probe('A'), probe('F', failRest='ValueError')]], ['on_failure', [probe('H'), SSG, probe('N')]]],
                            ctx=ctx),
                    {'tags': ['A', 'F', 'H'], 'outcome': 'ok', 'nerr': 1}, {'case': 'control-handler-stops-itself'}))
        # H: child pipeline
        out.append((prog_of([['steps', [probe('A'), _pype(name='child'), probe('B')]]],
                            children={'child': [['steps', [probe('C'), J(['c1', 'c2'])]], ['c1', [SSG]], ['c2', [probe('C2')]],
                                                ['on_success', [probe('COS')]]]}, ctx=ctx),
                    {'tags': ['A', 'C', 'C2', 'COS', 'B'], 'outcome': 'ok', 'nerr': 0}, {'case': 'child-pipeline'}))
        for item in out:
            item[2].setdefault('form', form)
    out = [(p, e, dict(m, family='c02-jump-queue')) for p, e, m in out]
    rng.shuffle(out)
    out = cover_first(out, lambda c: c[2]['case'], lambda c: c[2]['form'])
    yield from out[:n]


# --------------------------------------------------------------------------
# C11: which context the child gets; what an out key receives on its second use
# --------------------------------------------------------------------------

def c11_args_defaults_family(rng, n):
    """A step that gives pipeArg (or args) and no useParentContext pypes the child on a context of its own - also
    when the pipeArg text is made of blanks only at run time: the parent is unaffected by the child except for out."""
    out = []
    for parg, label in ((' ', 'blank'), ('{oa} {ob}', 'blank-formatted'), ('   ', 'blanks'), ('a=b', 'token'), ('{oa}x', 'token-formatted')):
        for outk in (None, 'ck', ['ck'], D(pk='ck')):
            for extra in ({}, {'skipParse': True}, {'raiseError': True}):
                for parser in (None, 'pypyr.parser.keyvaluepairs'):
                    cfg = dict({'name': 'child', 'pipeArg': parg}, **extra)
                    if outk is not None:
                        cfg['out'] = outk
                    child = {'groups': [['steps', [probe('C', keys=['k1', 'secret'], set=D(k1='child', ck='made', leak='x'))]]]}
                    if parser:
                        child['parser'] = parser
                    groups = [['steps', [probe('A'), _pype(**cfg), probe('B', keys=['k1', 'leak', 'ck', 'pk'])]],
                              ['on_failure', [probe('OF')]]]
                    has = {'k1': 'parent', 'secret': 's'}
                    lacks = ['leak']
                    if outk is None:
                        lacks.append('ck')
                    elif isinstance(outk, dict):
                        has['pk'] = 'made'
                        lacks.append('ck')
                    else:
                        has['ck'] = 'made'
                    exp = {'tags': ['A', 'C', 'B'], 'outcome': 'ok', 'nerr': 0, 'ctx_has': has, 'ctx_lacks': lacks,
                           'events_of': {'tag': 'C', 'events': [('C', ANY, ANY, ANY)]}, 'first_keys_of': ('C', {'k1': MISSING, 'secret': MISSING})}
                    out.append((prog_of(groups, children={'child': child}, ctx={'k1': 'parent', 'secret': 's', 'oa': '', 'ob': ''}),
                                exp, {'family': 'c11-args-defaults', 'pipeArg': label, 'out': json.dumps(outk),
                                      'extra': json.dumps(extra), 'parser': parser}))
    rng.shuffle(out)
    out = cover_first(out, lambda c: (c[2]['pipeArg'], c[2]['out']), lambda c: c[2]['extra'], lambda c: c[2]['parser'])
    yield from out[:n]


def c11_out_reuse_family(rng, n):
    """The keys named in out RECEIVE the child's values after it completes: on the second and later use of an out
    key (pype under foreach / while, two pype steps, a parent that already holds the key) the parent's key is the
    child's value - not a blend with what it held before; a text value arrives as the child had it."""
    out = []
    vals = [('list', [1, 2], ['{i}x']), ('dict', D(a=1, stale=2), D(b='{i}')), ('str-curly', 'old', {'sic': '{k1} {nokey}'}),
            ('nested', D(a=[1], b=D(x=1)), D(a=[2], b=D(y=2))), ('tuple', T(1, 2), None), ('scalar', 5, 7),
            ('str', 'old {k1}', 'new-{i}')]
    for kind, held, made in vals:
        for loop in ('foreach', 'two-steps', 'pre-held', 'while'):
            # the child makes `made` (a tuple reaches it through args); out hands it back as the parent's `res`
            child = [['steps', [probe('C', set=D(made=made) if made is not None else D(other=1))]]]
            cfg = dict(name='child', args=D(i='{i}' if loop == 'foreach' else 'n', tup='{ptup}'),
                       out=D(res='made' if made is not None else 'tup'))
            ps = _pype(**cfg)
            ctx = {'k1': 'parentk1', 'i': 'n', 'ptup': T(3, 4)}
            if loop == 'foreach':
                ps['foreach'] = ['u', 'w']
                steps, last = [probe('A'), ps, probe('B')], 'w'
            elif loop == 'while':
                ps['while'] = {'max': 2}
                steps, last = [probe('A'), ps, probe('B')], 'n'
            elif loop == 'two-steps':
                steps, last = [probe('A'), ps, json.loads(json.dumps(ps)), probe('B')], 'n'
            else:
                ctx['res'] = held
                steps, last = [probe('A'), ps, probe('B')], 'n'

            def subst(v, last=last):
                # the child's value as its own context formats it (its own `i`), as plain data
                if isinstance(v, str):
                    return v.replace('{i}', last)
                if isinstance(v, list):
                    return [subst(x) for x in v]
                if isinstance(v, dict) and 'd' in v:
                    return {'d': [[k, subst(x)] for k, x in v['d']]}
                if isinstance(v, dict) and 'sic' in v:
                    return v['sic']
                return v
            want = subst(made) if made is not None else T(3, 4)
            exp = {'outcome': 'ok', 'nerr': 0, 'ctx_has': {'res': want, 'k1': 'parentk1'}}
            out.append((prog_of([['steps', steps]], children={'child': child}, ctx=ctx), exp,
                        {'family': 'c11-out-reuse', 'value': kind, 'use': loop}))
    rng.shuffle(out)
    out = cover_first(out, lambda c: c[2]['value'], lambda c: c[2]['use'])
    yield from out[:n]


def c11_nested_shared_pype_family(rng, n):
    """(observation on the clean tree, mirrored by the model: in-arguments are step-scoped - C04 - so a child on the
    SHARED context that itself has a pype step removes the parent's `pype` in-argument when its own pype step
    completes; under foreach the parent's second iteration then finds no context['pype'])"""
    child = [['steps', [probe('C'), _pype(name='grand'), probe('D')]]]
    grand = [['steps', [probe('G')]]]
    ps = _pype(name='child')
    ps['foreach'] = ['u', 'w']
    prog = prog_of([['steps', [probe('A'), ps, probe('B')]], ['on_failure', [probe('OF')]]],
                   children={'child': child, 'grand': grand}, ctx={'k': 'v'})
    # what the code does today (model = implementation); the property texts do not speak about it
    yield prog, {'tags': ['A', 'C', 'G', 'D', 'OF'], 'outcome': ('err', 'pypyr.errors.KeyNotInContextError'), 'nerr': 1}, {
        'family': 'c11-nested-shared-pype-under-foreach'}
