"""C20 implementation side: materialise one configuration in a scratch tree and run
`config.init()` in a fresh subprocess (harness/impl_c20_child.py).

A case (JSON-able):
  {'env':   {NAME: value, ...}         # complete environment of interest; '@S' = scratch root
   'files': [{'path': '@S/c1/pypyr/config.yaml' | 'pypyr-config.yaml' (relative = under the cwd),
              'text': <file content>, 'payload': <wire payload the text denotes>}, ...],
   'dirs':  ['@S/...', ...]             # extra directories to create (e.g. a dir where a file is expected)
   'spec':  {...}                       # what the generator intended (used by the monitor only)
   'tag':   'directed:...'}
The scratch root holds `cwd/` (the child's cwd) and `home/` ($HOME).
"""
from __future__ import annotations

import json
import os
import shutil
import signal
import subprocess
import sys
import tempfile
from concurrent.futures import ThreadPoolExecutor
from pathlib import Path

CHILD = Path(__file__).resolve().parent / 'impl_c20_child.py'
ROOT = '@S'


def real(s: str, root: str) -> str:
    return s.replace(ROOT, root)


def canon_path(s: str, root: str) -> str:
    return s.replace(root, ROOT)


def materialise(case, root: str):
    os.makedirs(os.path.join(root, 'cwd'), exist_ok=True)
    os.makedirs(os.path.join(root, 'home'), exist_ok=True)
    for d in case.get('dirs', []):
        p = real(d, root)
        if not os.path.isabs(p):
            p = os.path.join(root, 'cwd', p)
        os.makedirs(p, exist_ok=True)
    for f in case['files']:
        p = real(f['path'], root)
        if not os.path.isabs(p):
            p = os.path.join(root, 'cwd', p)
        fskind = f.get('fskind', 'file')
        if fskind == 'under-file':          # a component of the path is a regular file: NotADirectoryError on open
            parent = os.path.dirname(p)
            os.makedirs(os.path.dirname(parent), exist_ok=True)
            with open(parent, 'w') as fh:
                fh.write('not a directory\n')
            continue
        os.makedirs(os.path.dirname(p), exist_ok=True)
        if fskind == 'dir':                 # a directory where the file is expected: IsADirectoryError
            os.makedirs(p, exist_ok=True)
        elif fskind == 'loop':              # a symlink to itself: OSError ELOOP
            os.symlink(os.path.basename(p), p)
        elif f.get('hex') is not None:
            with open(p, 'wb') as fh:
                fh.write(bytes.fromhex(f['hex']))
        else:
            with open(p, 'w', encoding='ascii', newline='\n') as fh:
                fh.write(f['text'])


def child_env(case, root: str, repo: str):
    env = {'PATH': os.environ.get('PATH', '/usr/bin:/bin'), 'C20_REPO': repo,
           'PYTHONDONTWRITEBYTECODE': '1', 'LC_ALL': 'C.UTF-8'}
    for k, v in case['env'].items():
        env[k] = real(v, root)
    env.setdefault('HOME', os.path.join(root, 'home'))
    if case.get('platform') in ('macos', 'windows'):
        env['C20_PLATFORM'] = case['platform']
    if case.get('syspath_extra'):
        env['C20_SYSPATH_EXTRA'] = '|'.join(case['syspath_extra'])
    if case.get('hashseed') is not None:
        env['PYTHONHASHSEED'] = str(case['hashseed'])
    return env


def canon_obs(obs, root: str):
    """Scratch root -> '@S' everywhere a path can show up."""
    if obs.get('err'):
        for k in ('path', 'msg'):
            if isinstance(obs['err'].get(k), str):
                obs['err'][k] = canon_path(obs['err'][k], root)
    obs['loaded'] = [canon_path(p, root) for p in obs.get('loaded', [])]
    if obs.get('calls') is not None:
        obs['calls'] = [[canon_path(p, root), r] for p, r in obs['calls']]
    return obs


def run_impl(case, repo: str, timeout=40):
    """-> {'steps': [...]} (one observation per import / new / init step of the history; a case without a
    'script' is the one-step history `init()` on the module singleton), or {'hang': ...} when the child
    did not finish within `timeout` (killed with everything it started), or {'crash': ...} when it did
    not print an observation."""
    root = os.path.realpath(tempfile.mkdtemp(prefix='c20-'))
    try:
        materialise(case, root)
        env = child_env(case, root, repo)
        env['C20_ROOT'] = root
        if case.get('script') is not None:
            sp = os.path.join(root, 'script.json')
            with open(sp, 'w') as f:
                json.dump([{k: ({n: real(v, root) for n, v in x.items()} if k == 'env' else x)
                            for k, x in op.items() if k != 'spec'} for op in case['script']], f)
            env['C20_SCRIPT'] = sp
        proc = subprocess.Popen([sys.executable, str(CHILD)], cwd=os.path.join(root, 'cwd'), env=env,
                                stdout=subprocess.PIPE, stderr=subprocess.PIPE, text=True, start_new_session=True)
        try:
            out, err = proc.communicate(timeout=timeout)
        except subprocess.TimeoutExpired:
            try:
                os.killpg(proc.pid, signal.SIGKILL)
            except ProcessLookupError:
                pass
            proc.communicate()
            return {'hang': {'after_s': timeout}}
        lines = [ln for ln in out.splitlines() if ln.startswith('{')]
        if proc.returncode != 0 or not lines:
            return {'crash': {'rc': proc.returncode, 'stderr': canon_path(err[-1500:], root),
                              'in_tree_under_test': repo in err}}
        obs = json.loads(canon_path(lines[-1], root))
        if not str(obs.get('pypyr_file', '')).startswith(repo):
            return {'crash': {'rc': 0, 'stderr': f"child imported pypyr from {obs.get('pypyr_file')}, not {repo}"}}
        obs.pop('pypyr_file', None)
        return obs
    finally:
        shutil.rmtree(root, ignore_errors=True)


def load_alone(text: str, repo: str, timeout=40):
    """What the tree under test makes of ONE yaml config text in a PRISTINE process (a fresh interpreter, a fresh
    `Config()`, `load_yaml` of a file holding just this text; no parser object is shared with any run under test).
    -> wire payload ({'kind': 'none' | 'map' | 'nonmap' | 'parse', ...}) or {'kind': 'hang'} / {'kind': 'crash', ...}."""
    root = os.path.realpath(tempfile.mkdtemp(prefix='c20a-'))
    try:
        os.makedirs(os.path.join(root, 'cwd'))
        os.makedirs(os.path.join(root, 'home'))
        path = os.path.join(root, 'cwd', 'alone.yaml')
        with open(path, 'w', encoding='ascii', newline='\n') as fh:
            fh.write(text)
        env = {'PATH': os.environ.get('PATH', '/usr/bin:/bin'), 'C20_REPO': repo, 'PYTHONDONTWRITEBYTECODE': '1',
               'LC_ALL': 'C.UTF-8', 'HOME': os.path.join(root, 'home'), 'C20_ALONE': path, 'PYPYR_SKIP_INIT': '1'}
        proc = subprocess.Popen([sys.executable, str(CHILD)], cwd=os.path.join(root, 'cwd'), env=env,
                                stdout=subprocess.PIPE, stderr=subprocess.PIPE, text=True, start_new_session=True)
        try:
            out, err = proc.communicate(timeout=timeout)
        except subprocess.TimeoutExpired:
            try:
                os.killpg(proc.pid, signal.SIGKILL)
            except ProcessLookupError:
                pass
            proc.communicate()
            return {'kind': 'hang'}
        lines = [ln for ln in out.splitlines() if ln.startswith('{')]
        if proc.returncode != 0 or not lines:
            return {'kind': 'crash', 'rc': proc.returncode, 'stderr': canon_path(err[-800:], root)}
        obs = json.loads(lines[-1])
        if not str(obs.get('pypyr_file', '')).startswith(repo):
            return {'kind': 'crash', 'rc': 0, 'stderr': f"child imported pypyr from {obs.get('pypyr_file')}, not {repo}"}
        return obs['alone']
    finally:
        shutil.rmtree(root, ignore_errors=True)


def load_alone_many(texts, repo: str, workers=16):
    with ThreadPoolExecutor(max_workers=workers) as ex:
        return list(ex.map(lambda t: load_alone(t, repo), texts))


def run_many(cases, repo: str, workers=16):
    with ThreadPoolExecutor(max_workers=workers) as ex:
        return list(ex.map(lambda c: run_impl(c, repo), cases))
