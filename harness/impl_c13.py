"""C13 — deterministic scheduler for driving pypyr's real cache classes with real threads.

Exactly one thread runs at any time: either the controller (the check's main thread) or one
worker. A worker runs until it reaches a *parking place* (before an operation, in the cache lock's
__enter__, on creator entry, on creator exit, in the cache lock's __exit__), hands control back
to the controller and waits for its next turn. No sleeps; every hand-off is a threading.Event.
A watchdog timeout on every wait turns a hang into common.Infra.

The parking places are exactly the `Pc.parked` places of lean/PypyrModel/CacheTS.lean, so a
schedule (list of thread ids, one entry = one turn) means the same on both sides.
"""
from __future__ import annotations

import threading

from . import common

WATCHDOG_S = 20.0


class Abort(BaseException):
    """Raised inside a worker to unwind it when the case is abandoned."""


class CreatorError(Exception):
    """What a scripted creator raises; carries the creator-call number."""

    def __init__(self, c):
        super().__init__(f'creator call {c} fails')
        self.c = c


class Obj:
    """What a scripted creator returns; carries the creator-call number."""

    __slots__ = ('c', 'key')

    def __init__(self, c, key):
        self.c = c
        self.key = key

    def __call__(self, *a, **k):  # caches of callables: be callable
        return None

    def __repr__(self):
        return f'<Obj {self.c} for {self.key!r}>'


class SchedLock:
    """Stands in for `threading.Lock()` in a cache instance. Worker threads park in acquire and
    in release; any other thread (harness set-up code) uses it as a plain flag."""

    def __init__(self, sched):
        self.sched = sched
        self.owner = None
        self.violations = []

    def acquire(self, blocking=True, timeout=-1):
        t = self.sched.tid()
        if t is None:
            if self.owner is not None:
                raise common.Infra('SchedLock: set-up code found the lock held')
            self.owner = 'main'
            return True
        self.sched.park('wantLock', self)
        if self.owner is not None:
            # the controller only grants a turn to a waiting thread when the lock is free
            raise common.Infra('SchedLock: granted while held')
        self.owner = t
        return True

    def release(self):
        t = self.sched.tid()
        if t is None:
            self.owner = None
            return
        self.sched.before_release(t, self)
        self.sched.park('release', self)
        self.owner = None

    def locked(self):
        return self.owner is not None

    def __enter__(self):
        self.acquire()
        return self

    def __exit__(self, *exc):
        self.release()
        return False


class ParkSet(set):
    """Stands in for `_known_dirs` / `_missing_dirs` of pypyr.moduleloader: a worker thread hands control back
    BEFORE every membership test, add and discard, so that another thread can run between any two operations on
    the sets (they are read and written outside `_sys_path_lock`). The operation itself stays the built-in one."""

    def __init__(self, sched, name):
        super().__init__()
        self.sched = sched
        self.name = name
        self.adds_by = {}      # thread -> number of add() calls since the harness last reset it

    def _park(self, what):
        if self.sched.tid() is not None:
            self.sched.park('setop:' + self.name + '.' + what)

    def __contains__(self, x):
        self._park('in')
        return set.__contains__(self, x)

    def add(self, x):
        self._park('add')
        t = self.sched.tid()
        if t is not None:
            self.adds_by[t] = self.adds_by.get(t, 0) + 1
        return set.add(self, x)

    def discard(self, x):
        self._park('discard')
        return set.discard(self, x)



class Sched:
    """Controller + workers. `programs[t]` is a list of callables `op(t, i)` executed in order by
    worker t; the result (or exception) of each is recorded in `self.results[t]`."""

    def __init__(self, programs, timeout=WATCHDOG_S):
        self.n = len(programs)
        self.programs = programs
        self.timeout = timeout
        self.go = [threading.Event() for _ in range(self.n)]
        self.ctl = threading.Event()
        self.where = ['new'] * self.n
        self.waiting_for = [None] * self.n
        self.done = [False] * self.n
        self.crashed = [None] * self.n
        self.abort = False
        self.local = threading.local()
        self.results = [[] for _ in range(self.n)]
        self.threads = []
        self.turns = 0
        self.stuck = []

    # ---- worker side -----------------------------------------------------
    def tid(self):
        return getattr(self.local, 'tid', None)

    def park(self, where, lock=None):
        t = self.local.tid
        self.where[t] = where
        self.waiting_for[t] = lock
        self.go[t].clear()
        self.ctl.set()
        if not self.go[t].wait(self.timeout * 3):
            raise Abort()
        if self.abort:
            raise Abort()
        self.where[t] = 'running'
        self.waiting_for[t] = None

    def _worker(self, t):
        self.local.tid = t
        try:
            for i, op in enumerate(self.programs[t]):
                self.park('start')
                try:
                    r = ('ok', op(t, i))
                except Abort:
                    raise
                except Exception as e:  # the operation's own outcome
                    r = ('exc', e)
                self.results[t].append(r)
                self.after_op(t, i, r)
        except Abort:
            pass
        except BaseException as e:  # harness bug inside a worker
            self.crashed[t] = e
        finally:
            self.done[t] = True
            self.where[t] = 'done'
            self.ctl.set()

    def before_release(self, t, lock):
        """Hook: runs in the worker when it reaches `_lock.__exit__`, before it parks there."""

    def after_op(self, t, i, r):
        """Hook: runs in the worker right after operation i returned (same turn)."""

    # ---- controller side -------------------------------------------------
    def _wait_ctl(self, what):
        if not self.ctl.wait(self.timeout):
            self.abandon()
            raise common.Infra(f'C13 scheduler watchdog: no hand-off within {self.timeout}s while {what}; '
                               f'threads at {self.where}')
        self.ctl.clear()

    def start(self):
        for t in range(self.n):
            th = threading.Thread(target=self._worker, args=(t,), daemon=True, name=f'c13-w{t}')
            self.threads.append(th)
            self.ctl.clear()
            th.start()
            self._wait_ctl(f'starting worker {t}')

    def enabled(self, t):
        if self.done[t]:
            return False
        if self.where[t] == 'wantLock':
            lk = self.waiting_for[t]
            return lk is None or lk.owner is None
        return True

    def turn(self, t):
        """Give worker t one turn. Returns False (and does nothing) if it cannot move."""
        if not self.enabled(t):
            return False
        self.turns += 1
        self.ctl.clear()
        self.go[t].set()
        self._wait_ctl(f'worker {t} runs from {self.where[t]}')
        if self.crashed[t] is not None:
            e = self.crashed[t]
            self.abandon()
            if isinstance(e, common.Infra):
                raise e
            raise common.Infra(f'C13 worker {t} crashed: {type(e).__name__}: {e}')
        return True

    def run(self, schedule, finish=True, max_turns=10000):
        """Follow `schedule`; then lowest-numbered enabled worker first until all are done.
        Returns 'done' or 'deadlock'."""
        for t in schedule:
            self.turn(t)
        if finish:
            while True:
                en = [t for t in range(self.n) if self.enabled(t)]
                if not en:
                    break
                if self.turns > max_turns:
                    self.abandon()
                    raise common.Infra('C13 scheduler: turn budget exhausted')
                self.turn(en[0])
        if all(self.done):
            for th in self.threads:
                th.join(self.timeout)
            return 'done'
        # the workers that can never move again (read before they are unwound)
        self.stuck = [t for t in range(self.n) if not self.done[t]]
        if finish:
            self.abandon()
            return 'deadlock'
        self.abandon()
        return 'partial'

    def abandon(self):
        self.abort = True
        for t in range(self.n):
            self.go[t].set()
        for th in self.threads:
            th.join(1.0)


# =============================================================================================
# Layered sessions: the real clients ABOVE the caches (Pipeline objects re-used across runs,
# pipelinerunner.run, the pype step, long-lived Step objects) driven through sequences of
# run / source edit / clear / no_cache operations. Mirror of lean/PypyrModel/CacheTS.lean `Stack`.
# =============================================================================================

import os
import shutil
import signal
import sys
import tempfile
from pathlib import Path

STACK_CASE_TIMEOUT_S = 20
LOADER_NAMES = {0: 'pypyr.loaders.file', 1: 'vc13loader_a', 2: 'vc13loader_b'}
_LIB = {}


class CaseTimeout(BaseException):
    """A single operation of a layered session did not return in time."""


class ReentrantGet(BaseException):
    """A creator looked up the cache it is creating for (would dead-lock on the real lock)."""


def _lib_dir():
    """Harness modules the pipelines under test use: a recording step, two custom loaders reading
    their answers from vc13world.TABLE. Created once per process."""
    if 'dir' in _LIB and Path(_LIB['dir']).is_dir():
        return _LIB['dir']
    d = Path(tempfile.mkdtemp(prefix='c13lib')).resolve()
    (d / 'vc13world.py').write_text('TABLE = {}\nCALLS = []\nTRAIL = []\n')
    (d / 'vc13step.py').write_text(
        "import vc13world\n\ndef run_step(context):\n    vc13world.TRAIL.append(context['v'])\n")
    for nm in ('vc13loader_a', 'vc13loader_b'):
        (d / f'{nm}.py').write_text(
            "import vc13world\n\n"
            "def get_pipeline_definition(pipeline_name, parent):\n"
            f"    key = ({nm!r}, str(parent) if parent else None, pipeline_name)\n"
            "    vc13world.CALLS.append(key)\n"
            "    v = vc13world.TABLE.get(key)\n"
            "    if v is None:\n"
            f"        raise LookupError('{nm}: no pipeline ' + repr(key))\n"
            "    if isinstance(v, list):\n"
            "        return v          # a payload that is not a mapping at the top level\n"
            "    return {'steps': [{'name': 'vc13step', 'in': {'v': v}}]}\n")
    _LIB['dir'] = str(d)
    import atexit
    atexit.register(shutil.rmtree, str(d), True)
    return _LIB['dir']


class StackRig:
    """One layered session against the real pypyr. Files live under a fresh scratch root; abstract
    paths '/T/…' in the case are mapped onto it."""

    def __init__(self, case):
        import pypyr.cache.admin
        import pypyr.cache.loadercache as lcm
        import pypyr.cache.stepcache as scm
        import pypyr.loaders.file as fl
        import pypyr.moduleloader as ml
        from pypyr.config import config
        self.case = case
        self.root = Path(tempfile.mkdtemp(prefix='c13stack')).resolve()
        self.lib = _lib_dir()
        self.mods = (lcm, scm, fl, ml, config, pypyr.cache.admin)
        self.saved_path = list(sys.path)
        self.saved_known = set(ml._known_dirs)
        self.saved_missing = set(getattr(ml, '_missing_dirs', ()))
        self.saved_nc = config.no_cache
        if self.lib not in sys.path:
            sys.path.append(self.lib)
        import vc13world
        self.world = vc13world
        vc13world.TABLE.clear()
        vc13world.CALLS.clear()
        vc13world.TRAIL.clear()
        self.counts = {'loader': 0, 'def': 0, 'file': 0, 'step': 0}
        self.undo = []
        self._patch(lcm, 'load_the_loader', self._counting(lcm.load_the_loader, 'loader'))
        self._patch(fl, 'get_pipeline_definition', self._counting(fl.get_pipeline_definition, 'def'))
        self._patch(fl, 'load_pipeline_from_file', self._counting(fl.load_pipeline_from_file, 'file'))
        old_lts = scm.load_the_step

        def load_the_step(name):
            if name == 'vc13step':
                self.counts['step'] += 1
            return old_lts(name)
        self._patch(scm, 'load_the_step', load_the_step)
        # nesting of look-ups: which cache's creator looks up which cache; a creator that looks up the cache it is
        # creating for would wait for ever for its own (non re-entrant) lock: turned into an exception + a record
        import pypyr.cache.cache as ccm
        self.nesting = set()
        self.reentries = []
        self._inflight = threading.local()
        rig = self
        real_get = ccm.Cache.get

        def watched_get(cache, key, creator):
            stack = getattr(rig._inflight, 'stack', None)
            if stack is None:
                stack = rig._inflight.stack = []
            if any(c is cache for c in stack):
                rig.reentries.append((rig.cache_kind(cache), repr(key)[:80]))
                raise ReentrantGet(f'creator of {rig.cache_kind(cache)} looks up the same cache (key {key!r})')
            if stack:
                rig.nesting.add((rig.cache_kind(stack[-1]), rig.cache_kind(cache)))
            stack.append(cache)
            try:
                return real_get(cache, key, creator)
            finally:
                stack.pop()
        self._patch(ccm.Cache, 'get', watched_get)
        self.clients = {}
        self.seqs = []
        import logging
        self.log = logging.getLogger('pypyr')
        self.saved_log = (self.log.propagate, list(self.log.handlers))
        self.log.propagate = False
        if not self.log.handlers:
            self.log.addHandler(logging.NullHandler())
        config.no_cache = False
        pypyr.cache.admin.clear_all()
        config.no_cache = bool(case.get('noCache'))

    def cache_kind(self, cache):
        import pypyr.cache.backoffcache as bc
        import pypyr.cache.filecache as fc
        import pypyr.cache.namespacecache as nc
        import pypyr.cache.parsercache as pc
        lcm, scm = self.mods[0], self.mods[1]
        for name, inst in (('file_cache', fc.file_cache), ('loader_cache', lcm.loader_cache), ('step_cache', scm.step_cache),
                           ('contextparser_cache', pc.contextparser_cache), ('backoff_cache', bc.backoff_cache),
                           ('pystring_namespace_cache', nc.pystring_namespace_cache)):
            if cache is inst:
                return name
        return 'pipeline_cache' if type(cache).__name__ == 'Cache' else type(cache).__name__

    def _counting(self, fn, what):
        def wrapper(*a, **k):
            self.counts[what] += 1
            return fn(*a, **k)
        return wrapper

    def _patch(self, mod, name, val):
        old = getattr(mod, name)
        setattr(mod, name, val)
        self.undo.append((mod, name, old))

    def conc(self, s):
        if isinstance(s, str) and (s == '/T' or s.startswith('/T/')):
            return str(self.root) + s[2:]
        return s

    def close(self):
        lcm, scm, fl, ml, config, admin = self.mods
        for mod, name, old in reversed(self.undo):
            setattr(mod, name, old)
        self.log.propagate = self.saved_log[0]
        self.log.handlers[:] = self.saved_log[1]
        config.no_cache = False
        try:
            admin.clear_all()
        finally:
            config.no_cache = self.saved_nc
            sys.path[:] = self.saved_path
            ml._known_dirs.clear()
            ml._known_dirs.update(self.saved_known)
            if hasattr(ml, '_missing_dirs'):
                ml._missing_dirs.clear()
                ml._missing_dirs.update(self.saved_missing)
            shutil.rmtree(self.root, ignore_errors=True)

    # ---- the world ------------------------------------------------------------------------
    def apply_world(self, world):
        """world = {'files': {abstract path: version}, 'custom': [[l, parent|None, name, version|None]…]}"""
        want = {self.conc(p): v for p, v in world['files'].items()}
        bad = set(world.get('badv', ()))      # versions whose content is a list, not a mapping, at the top level
        for dp, _, fn in os.walk(self.root):
            for f in fn:
                full = os.path.join(dp, f)
                if full.endswith('.yaml') and full not in want:
                    os.remove(full)
        for full, v in want.items():
            os.makedirs(os.path.dirname(full), exist_ok=True)
            if v in bad:
                Path(full).write_text(f"- vc13step\n- {v}\n")
            else:
                Path(full).write_text(f"steps:\n  - name: vc13step\n    in:\n      v: {v}\n")
        for d in world.get('dirs', []):
            os.makedirs(self.conc(d), exist_ok=True)
        self.world.TABLE.clear()
        for l, parent, name, v in world['custom']:
            if v is not None:
                self.world.TABLE[(LOADER_NAMES[l], str(self.conc(parent)) if parent else None, self.conc(name))] = \
                    ['vc13step', v] if v in bad else v

    # ---- one run through a real client ----------------------------------------------------
    def _parent(self, rq):
        p = self.conc(rq['parent'])
        if p is not None and rq.get('parent_form') == 'path':
            p = Path(p)
        return p

    def run(self, op):
        from pypyr.context import Context
        from pypyr.pipeline import Pipeline
        rq = self.case['rqs'][op['rq']]
        l = op['l']
        loader = None if (l == 0 and op.get('default_loader')) else LOADER_NAMES[l]
        name = self.conc(rq['name'])
        parent = self._parent(rq)
        via = op['via']
        before = dict(self.counts)
        self.world.TRAIL.clear()
        err = None
        if via in ('obj', 'obj.run'):
            # a Pipeline object is bound to one (loader, name): one object per (client id, loader, name)
            ck = (op['c'], l, name)
        elif via not in ('new', 'runner', 'pype', 'step'):
            raise common.Infra(f'C13 stack: unknown via {via}')
        try:
            if via in ('obj', 'obj.run'):
                pipe = self.clients.get(ck)
                if pipe is None:
                    pipe = self.clients[ck] = Pipeline(name, loader=loader)
                if via == 'obj.run':
                    pipe.run(Context())
                else:
                    pipe.load_and_run_pipeline(Context(), parent)
            elif via == 'new':
                Pipeline(name, loader=loader).load_and_run_pipeline(Context(), parent)
            elif via == 'runner':
                import pypyr.pipelinerunner
                pypyr.pipelinerunner.run(name, loader=loader)
            elif via in ('pype', 'step'):
                from pypyr.pipedef import PipelineDefinition, PipelineInfo
                caller = Pipeline('vc13caller')
                caller.pipeline_definition = PipelineDefinition(
                    pipeline={}, info=PipelineInfo(pipeline_name='vc13caller', loader=None, parent=None))
                ctx = Context({'pype': {'name': name, 'loader': loader, 'parent': parent}})
                with ctx.pipeline_scope(caller):
                    if via == 'pype':
                        import pypyr.steps.pype
                        pypyr.steps.pype.run_step(ctx)
                    else:
                        from pypyr.dsl import Step
                        ck = ('step', op['c'])
                        st = self.clients.get(ck)
                        if st is None:
                            st = self.clients[ck] = Step({'name': 'pypyr.steps.pype'})
                        st.run_step(ctx)
        except (CaseTimeout, KeyboardInterrupt, common.Infra):
            raise
        except BaseException as e:  # noqa: BLE001 - classified below
            err = type(e).__name__
        trail = list(self.world.TRAIL)
        d = {k: self.counts[k] - before[k] for k in self.counts}
        if err in ('PipelineNotFoundError', 'LookupError', 'PipelineDefinitionError') and not trail:
            ran = None            # the look-up failed: source absent / the loader raised / payload rejected
        elif err is None and len(trail) == 1:
            ran = trail[0]
        else:
            ran = {'unexpected': err, 'trail': trail}
        return {'ran': ran, 'loaderMade': d['loader'] > 0, 'defMade': self._defs(d, l) > 0, 'fileRead': d['file'] > 0,
                'stepMade': d['step'] > 0, 'counts': d, 'err': err}

    def _defs(self, d, l):
        if l == 0:
            return d['def']
        n = len(self.world.CALLS)
        self.world.CALLS.clear()
        return n

    # ---- the other operations -------------------------------------------------------------
    def do(self, op):
        lcm, scm, fl, ml, config, admin = self.mods
        from pypyr.cache.filecache import file_cache
        kind = op['op']
        if kind == 'run':
            self.world.CALLS.clear()
            return self.run(op)
        if kind == 'world':
            self.apply_world(op['world'])
        elif kind == 'clearAll':
            admin.clear_all()
        elif kind == 'clearLoaders':
            lcm.loader_cache.clear()
        elif kind == 'clearPipes':
            if op['l'] is None:
                lcm.loader_cache.clear_pipes()
            elif op.get('how') == 'Loader.clear':
                ld = lcm.loader_cache._cache.get(LOADER_NAMES[op['l']])
                if ld is not None:
                    ld.clear()
            else:
                lcm.loader_cache.clear_pipes(LOADER_NAMES[op['l']])
        elif kind == 'clearFiles':
            file_cache.clear()
        elif kind == 'clearSteps':
            scm.step_cache.clear()
        elif kind == 'noCache':
            config.no_cache = bool(op['b'])
        elif kind == 'clearSeq':
            return self.clear_seq(op)
        else:
            raise common.Infra(f'C13 stack: unknown op {kind}')
        return None

    # ---- clear_all / clear_pipes as the sequences they are --------------------------------
    def cache_instances(self):
        """name -> object for every module-level cache instance: the globals of pypyr.cache.admin and of every
        pypyr.cache.* module that have a get and a clear."""
        lcm, scm, fl, ml, config, admin = self.mods
        import pypyr.cache.cache as ccm
        found = {}
        mods = [admin] + [m for n, m in list(sys.modules.items()) if n.startswith('pypyr.cache.') and m is not None]
        for m in mods:
            for n, v in list(vars(m).items()):
                if isinstance(v, ccm.Cache) and not any(v is x for x in found.values()):
                    found.setdefault(n, v)
        return found

    def on_other_thread(self, rop):
        """a complete, ordinary look-up + run by ANOTHER thread while the caller is parked"""
        box = {}

        def body():
            try:
                self.world.CALLS.clear()
                box['r'] = self.run(rop)
            except BaseException as e:  # noqa: BLE001 - handed to the caller's thread
                box['e'] = e
        t = threading.Thread(target=body, name='c13-gap-lookup', daemon=True)
        t.start()
        t.join(STACK_CASE_TIMEOUT_S)
        if t.is_alive():
            raise CaseTimeout()
        if 'e' in box:
            raise box['e']
        return box['r']

    def clear_seq(self, op):
        """`pypyr.cache.admin.clear_all()` (fn = clear_all) or `loader_cache.clear_pipes()` (fn = clear_pipes) on this
        thread, parked before every single `<cache>.clear()` / `Loader.clear()` it performs (each instance's clear is
        wrapped from outside) while another thread completes the look-ups of `gaps[i]`; gaps beyond the last clear
        run after the call has returned. The order of the single clears is recorded in `self.seqs`."""
        lcm, scm, fl, ml, config, admin = self.mods
        gaps = op['gaps']
        out, order = [], []
        pos = [0]

        def gap_runs():
            i = pos[0]
            pos[0] += 1
            for rop in (gaps[i] if i < len(gaps) else []):
                out.append(self.on_other_thread(rop))
        if op['fn'] == 'clear_all':
            wrapped = []
            for name, inst in self.cache_instances().items():
                def clear(real=inst.clear, name=name):
                    order.append(name)
                    gap_runs()
                    return real()
                inst.clear = clear
                wrapped.append(inst)
            try:
                admin.clear_all()
            finally:
                for inst in wrapped:
                    try:
                        del inst.clear
                    except AttributeError:
                        pass
        elif op['fn'] == 'clear_pipes':
            real = lcm.Loader.clear

            def clear(ld):
                order.append(next((k for k, v in LOADER_NAMES.items() if v == ld.name), ld.name))
                gap_runs()
                return real(ld)
            lcm.Loader.clear = clear
            try:
                lcm.loader_cache.clear_pipes()
            finally:
                lcm.Loader.clear = real
        else:
            raise common.Infra(f'C13 stack: unknown clearSeq fn {op["fn"]}')
        nclears = pos[0]
        while pos[0] < len(gaps):
            gap_runs()
        self.seqs.append({'fn': op['fn'], 'order': order, 'n': nclears})
        return {'multi': out}


def run_stack_impl(case, info=None):
    """Run a layered session on the real pypyr. Returns the list of run observations; a hang becomes
    the observation {'timeout': i}. `info` (a dict) receives the nesting of cache look-ups seen."""
    def on_alarm(signum, frame):
        raise CaseTimeout()
    use_alarm = threading.current_thread() is threading.main_thread()
    old = signal.signal(signal.SIGALRM, on_alarm) if use_alarm else None
    rig = None
    runs = []
    try:
        rig = StackRig(case)
        rig.apply_world(case['world'])
        for i, op in enumerate(case['ops']):
            if use_alarm:
                signal.setitimer(signal.ITIMER_REAL, STACK_CASE_TIMEOUT_S)
            try:
                r = rig.do(op)
            except CaseTimeout:
                runs.append({'ran': {'unexpected': 'timeout', 'trail': []}, 'timeout': i})
                break
            finally:
                if use_alarm:
                    signal.setitimer(signal.ITIMER_REAL, 0)
            if isinstance(r, dict) and 'multi' in r:
                runs.extend(r['multi'])
            elif r is not None:
                runs.append(r)
        return runs
    finally:
        if use_alarm:
            signal.setitimer(signal.ITIMER_REAL, 0)
            signal.signal(signal.SIGALRM, old)
        if rig is not None:
            if info is not None:
                info['nesting'] = sorted(rig.nesting)
                info['reentries'] = list(rig.reentries)
                info['seqs'] = list(rig.seqs)
            rig.close()
