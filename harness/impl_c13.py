"""C13 — deterministic scheduler for driving pypyr's real cache classes with real threads.

Exactly one thread runs at any time: either the controller (the check's main thread) or one
worker. A worker runs until it reaches a *parking place* (before an operation, in the cache lock's
__enter__, on creator entry, on creator exit, in the cache lock's __exit__), hands control back
to the controller and waits for its next turn. No sleeps; every hand-off is a threading.Event.
A watchdog timeout on every wait turns a hang into common.Infra.

The parking places are exactly the `Pc.parked` places of lean/PypyrModel/CacheTS.lean, so a
schedule (list of thread ids, one entry = one turn) means the same on both sides.
"""
from __future__ import annotations

import threading

from . import common

WATCHDOG_S = 20.0


class Abort(BaseException):
    """Raised inside a worker to unwind it when the case is abandoned."""


class CreatorError(Exception):
    """What a scripted creator raises; carries the creator-call number."""

    def __init__(self, c):
        super().__init__(f'creator call {c} fails')
        self.c = c


class Obj:
    """What a scripted creator returns; carries the creator-call number."""

    __slots__ = ('c', 'key')

    def __init__(self, c, key):
        self.c = c
        self.key = key

    def __call__(self, *a, **k):  # caches of callables: be callable
        return None

    def __repr__(self):
        return f'<Obj {self.c} for {self.key!r}>'


class SchedLock:
    """Stands in for `threading.Lock()` in a cache instance. Worker threads park in acquire and
    in release; any other thread (harness set-up code) uses it as a plain flag."""

    def __init__(self, sched):
        self.sched = sched
        self.owner = None
        self.violations = []

    def acquire(self, blocking=True, timeout=-1):
        t = self.sched.tid()
        if t is None:
            if self.owner is not None:
                raise common.Infra('SchedLock: set-up code found the lock held')
            self.owner = 'main'
            return True
        self.sched.park('wantLock', self)
        if self.owner is not None:
            # the controller only grants a turn to a waiting thread when the lock is free
            raise common.Infra('SchedLock: granted while held')
        self.owner = t
        return True

    def release(self):
        t = self.sched.tid()
        if t is None:
            self.owner = None
            return
        self.sched.before_release(t, self)
        self.sched.park('release', self)
        self.owner = None

    def locked(self):
        return self.owner is not None

    def __enter__(self):
        self.acquire()
        return self

    def __exit__(self, *exc):
        self.release()
        return False


class Sched:
    """Controller + workers. `programs[t]` is a list of callables `op(t, i)` executed in order by
    worker t; the result (or exception) of each is recorded in `self.results[t]`."""

    def __init__(self, programs, timeout=WATCHDOG_S):
        self.n = len(programs)
        self.programs = programs
        self.timeout = timeout
        self.go = [threading.Event() for _ in range(self.n)]
        self.ctl = threading.Event()
        self.where = ['new'] * self.n
        self.waiting_for = [None] * self.n
        self.done = [False] * self.n
        self.crashed = [None] * self.n
        self.abort = False
        self.local = threading.local()
        self.results = [[] for _ in range(self.n)]
        self.threads = []
        self.turns = 0

    # ---- worker side -----------------------------------------------------
    def tid(self):
        return getattr(self.local, 'tid', None)

    def park(self, where, lock=None):
        t = self.local.tid
        self.where[t] = where
        self.waiting_for[t] = lock
        self.go[t].clear()
        self.ctl.set()
        if not self.go[t].wait(self.timeout * 3):
            raise Abort()
        if self.abort:
            raise Abort()
        self.where[t] = 'running'
        self.waiting_for[t] = None

    def _worker(self, t):
        self.local.tid = t
        try:
            for i, op in enumerate(self.programs[t]):
                self.park('start')
                try:
                    r = ('ok', op(t, i))
                except Abort:
                    raise
                except Exception as e:  # the operation's own outcome
                    r = ('exc', e)
                self.results[t].append(r)
                self.after_op(t, i, r)
        except Abort:
            pass
        except BaseException as e:  # harness bug inside a worker
            self.crashed[t] = e
        finally:
            self.done[t] = True
            self.where[t] = 'done'
            self.ctl.set()

    def before_release(self, t, lock):
        """Hook: runs in the worker when it reaches `_lock.__exit__`, before it parks there."""

    def after_op(self, t, i, r):
        """Hook: runs in the worker right after operation i returned (same turn)."""

    # ---- controller side -------------------------------------------------
    def _wait_ctl(self, what):
        if not self.ctl.wait(self.timeout):
            self.abandon()
            raise common.Infra(f'C13 scheduler watchdog: no hand-off within {self.timeout}s while {what}; '
                               f'threads at {self.where}')
        self.ctl.clear()

    def start(self):
        for t in range(self.n):
            th = threading.Thread(target=self._worker, args=(t,), daemon=True, name=f'c13-w{t}')
            self.threads.append(th)
            self.ctl.clear()
            th.start()
            self._wait_ctl(f'starting worker {t}')

    def enabled(self, t):
        if self.done[t]:
            return False
        if self.where[t] == 'wantLock':
            lk = self.waiting_for[t]
            return lk is None or lk.owner is None
        return True

    def turn(self, t):
        """Give worker t one turn. Returns False (and does nothing) if it cannot move."""
        if not self.enabled(t):
            return False
        self.turns += 1
        self.ctl.clear()
        self.go[t].set()
        self._wait_ctl(f'worker {t} runs from {self.where[t]}')
        if self.crashed[t] is not None:
            e = self.crashed[t]
            self.abandon()
            if isinstance(e, common.Infra):
                raise e
            raise common.Infra(f'C13 worker {t} crashed: {type(e).__name__}: {e}')
        return True

    def run(self, schedule, finish=True, max_turns=10000):
        """Follow `schedule`; then lowest-numbered enabled worker first until all are done.
        Returns 'done' or 'deadlock'."""
        for t in schedule:
            self.turn(t)
        if finish:
            while True:
                en = [t for t in range(self.n) if self.enabled(t)]
                if not en:
                    break
                if self.turns > max_turns:
                    self.abandon()
                    raise common.Infra('C13 scheduler: turn budget exhausted')
                self.turn(en[0])
        if all(self.done):
            for th in self.threads:
                th.join(self.timeout)
            return 'done'
        if finish:
            self.abandon()
            return 'deadlock'
        self.abandon()
        return 'partial'

    def abandon(self):
        self.abort = True
        for t in range(self.n):
            self.go[t].set()
        for th in self.threads:
            th.join(1.0)
