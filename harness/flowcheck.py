"""Shared runner of the flow-based checks (C01-C07, C11): run each case on the Lean model
(through pmdriver) and on the implementation, compare observations, and judge the
implementation's observation against the independent expectation of the directed families."""
from __future__ import annotations

import json
import logging
import os
import random

from . import common, flow_impl, flowgen, floworacle


def _sig(meta, breaches, prog=None):
    s = {k: (json.dumps(v) if isinstance(v, (list, dict)) else v) for k, v in meta.items()}
    if prog is not None and prog.get('log') and 'log' not in s:
        s['log'] = prog['log']          # the log level the case ran at is part of the input
    return s


def log_level_of(k):
    """The log level is part of the input: every 4th case runs with the root logger at DEBUG (10), every 8th at
    INFO (20), every 8th at pypyr's NOTIFY (25) - records go to a sink that drops them; the rest with logging
    disabled. The model does not depend on it: the expectations are the same at every level."""
    return {1: 10, 5: 10, 3: 20, 7: 25}.get(k % 8)


_JOB = None   # (env fields, directed, n_random, weights, observables, random_monitor) for forked workers


def _stream(env, res, drv, impl, directed, n_random, weights, observables, random_monitor, shard=0, shards=1):
    """One shard of the streams: directed cases with index % shards == shard, 1/shards of the random ones."""
    for name, gen, n in directed:
        for idx, (prog, expect, meta) in enumerate(gen(random.Random(env.seed), n)):
            if idx % shards != shard:
                continue
            if env.out_of_time():
                break
            flow_impl.prepare(prog)
            if expect.get('entries'):
                floworacle.fix_lines(prog, expect)
            if 'log' not in prog and log_level_of(idx) is not None:
                prog['log'] = log_level_of(idx)
            elif prog.get('log') is None:
                prog.pop('log', None)
            one(env, res, drv, impl, prog, meta, expect, observables)
            res.count('family:' + meta.get('family', name))
    rng = random.Random(env.seed * 7919 + 13 + shard * 104729)
    for k_ in range(n_random // shards + (1 if shard < n_random % shards else 0)):
        if env.out_of_time():
            break
        if env.escalated and any(f['kind'] == 'property' for f in res.findings):
            break            # the escalated search has its failing input
        prog = flowgen.random_program(rng, weights)
        if log_level_of(k_) is not None:
            prog['log'] = log_level_of(k_)
        one(env, res, drv, impl, prog, {'family': 'random'}, None, observables, random_monitor)
        res.count('family:random')


def _worker(shard):
    fields, directed, n_random, weights, observables, random_monitor, shards = _JOB
    env = common.Env(fields['pid'], fields['tier'], fields['seed'])
    env.escalated, env.deadline = fields['escalated'], fields['deadline']
    res = common.Result()
    logging.disable(logging.CRITICAL)
    impl = flow_impl.Impl()
    try:
        _stream(env, res, env.driver, impl, directed, n_random, weights, observables, random_monitor, shard, shards)
    finally:
        impl.close()
        if env._driver:
            env._driver.close()
    return {'evaluations': res.evaluations, 'nontrivial': list(res.nontrivial), 'samples': res.samples,
            'distribution': res.distribution, 'findings': res.findings[:40]}


def run_streams(env, res, directed, n_random, weights=None, observables=None, random_monitor=None):
    """directed: list of (name, generator(rng, n), n). Random programs from flowgen afterwards.
    The thorough tier (and an escalated search) shards the streams over worker processes, each with its own
    model driver and its own in-process pypyr."""
    global _JOB
    shards = 1 if env.quick else max(1, min(12, (os.cpu_count() or 2) - 2))
    if os.environ.get('VERIF_FLOW_SHARDS'):
        shards = int(os.environ['VERIF_FLOW_SHARDS'])
    if shards > 1:
        import multiprocessing as mp
        _JOB = ({'pid': env.pid, 'tier': env.tier, 'seed': env.seed, 'escalated': env.escalated,
                 'deadline': env.deadline}, directed, n_random, weights, observables, random_monitor, shards)
        with mp.get_context('fork').Pool(shards) as pool:
            parts = pool.map(_worker, range(shards), chunksize=1)
        for part in parts:
            res.evaluations += part['evaluations']
            res.nontrivial.update(part['nontrivial'])
            for k, v in part['distribution'].items():
                res.count(k, v)
            res.findings += part['findings']
            for smp in part['samples']:
                if len(res.samples) < 3:
                    res.samples.append(smp)
        res.extra['worker_processes'] = shards
        return
    logging.disable(logging.CRITICAL)
    impl = flow_impl.Impl()
    try:
        _stream(env, res, env.driver, impl, directed, n_random, weights, observables, random_monitor)
    finally:
        impl.close()
        logging.disable(logging.NOTSET)


def one(env, res, drv, impl, prog, meta, expect, observables=None, random_monitor=None):
    case = {'prog': prog, 'meta': meta}
    res.count('log-level:%s' % (prog.get('log') or 'disabled'))
    if meta.get('impl_only'):
        # a directed case outside the model's expression language (one-shot iterators, side effects in `!py`,
        # steps the model does not have): the implementation alone, judged by the expectation from the property text
        i = impl.run(prog)
        case['expect'] = floworacle.expect_to_json(expect)
        res.case(case)
        res.count('implementation-only (judged by the property expectation)')
        breaches = floworacle.judge(expect, i)
        if breaches:
            res.violation(case, '; '.join(breaches[:4]), signature=_sig(meta, breaches, prog), impl=i)
        return
    try:
        m = flow_impl.model_run(drv, prog)
    except common.Reject as e:
        res.count('model-rejected')
        if expect is not None:
            # directed cases are inside the modelled domain by construction
            res.mismatch(case, {'reject': str(e)}, None, 'the model rejects a directed case')
        return
    if m['outcome'] == 'outOfFuel':
        res.count('diverges(model outOfFuel; not run on the implementation)')
        return
    # every third case runs twice on ONE Pipeline object and is judged on its second run
    reuse = 2 if res.evaluations % 3 == 2 else 1
    if reuse > 1:
        case['reuse'] = reuse
        res.count('second run of one Pipeline object')
    i = impl.run(prog, reuse=reuse)
    res.case(case)
    oc = m['outcome'] if isinstance(m['outcome'], str) else 'err:' + m['outcome']['err']['name']
    res.count('outcome:' + oc)
    res.count('events:%d' % min(len(m['trace']), 20))
    diffs = flow_impl.compare(m, i)
    if observables is not None:
        diffs = [d for d in diffs if d in observables]
    if diffs:
        res.mismatch(case, {k: m.get(k) for k in diffs}, {k: i.get(k) for k in diffs},
                     'differs in ' + ','.join(diffs))
    breaches = []
    if expect is not None:
        breaches = floworacle.judge(expect, i)
        # the expectation must also hold of the model (it is proved to satisfy the property):
        mb = floworacle.judge(expect, dict(m, returned_ctx=True))
        if mb and not breaches:
            res.mismatch(case, {'model_breaches': mb}, None, 'the Lean model breaks the directed expectation')
    if random_monitor is not None:
        breaches += random_monitor(prog, i)
    if breaches:
        res.violation(case, '; '.join(breaches[:4]), signature=_sig(meta, breaches, prog), impl=i)


def replay_case(env, res, case):
    logging.disable(logging.CRITICAL)
    impl = flow_impl.Impl()
    try:
        inner = case['case'] if 'case' in case and 'prog' in case['case'] else case
        prog = inner['prog']
        if (inner.get('meta') or {}).get('impl_only'):
            i = impl.run(prog)
            res.case({'prog': prog})
            print('impl :', json.dumps(i)[:2000])
            breaches = floworacle.judge(floworacle.expect_from_json(inner.get('expect') or {}), i)
            if breaches:
                res.violation(inner, '; '.join(breaches[:4]), signature=_sig(inner['meta'], breaches), impl=i)
            return
        m = flow_impl.model_run(env.driver, prog)
        i = impl.run(prog, reuse=inner.get('reuse', 1))
        res.case({'prog': prog})
        diffs = flow_impl.compare(m, i)
        print('model:', json.dumps(m)[:2000])
        print('impl :', json.dumps(i)[:2000])
        if diffs:
            res.mismatch({'prog': prog}, {k: m.get(k) for k in diffs}, {k: i.get(k) for k in diffs})
    finally:
        impl.close()
        logging.disable(logging.NOTSET)


# ---- generic monitors on random programs (implementation alone) -------------------------------

def static_steps(prog):
    for pipe in prog['pipes']:
        for g, steps in pipe['groups']:
            for st in flow_impl.steps_of(steps):
                if not flow_impl.is_item(st):
                    yield pipe['name'], g, st


def can_fail(prog):
    """Conservative: could any error originate in this program?"""
    txt = json.dumps(prog)
    if any(x in txt for x in ('fails', 'failRest', 'failIf', 'nomodule', 'nokey', 'nogroup', 'nopipe', 'FAIL',
                              '"bad"', 'nochildkey', 'errorOnMax', '"name": null', '"scalar"', '"item"', '"name": ""',
                              '"description"')):
        return True
    for _, _, st in static_steps(prog):
        if isinstance(st, dict) and not isinstance(st.get('name'), str):
            return True
    return False


def monitor_error_free(prog, obs):
    """C02/C07 on programs in which no error can originate: success, no runErrors, no retries."""
    out = []
    if can_fail(prog):
        return out
    oc = obs.get('outcome')
    if isinstance(oc, dict) and 'err' in oc and oc['err']['name'] in (
            'pypyr.errors.Stop', 'pypyr.errors.StopPipeline', 'pypyr.errors.StopStepGroup', 'pypyr.errors.Jump',
            'pypyr.errors.Call', 'pypyr.errors.HandledError'):
        out.append(f"a control-of-flow instruction reached the caller as an error: {oc['err']['name']}")
    for e in floworacle.run_errors_of(obs):
        if isinstance(e, dict) and str(e.get('name', '')).startswith('pypyr.errors.') and e['name'].split('.')[-1] in (
                'Stop', 'StopPipeline', 'StopStepGroup', 'Jump', 'Call', 'HandledError'):
            out.append(f"runErrors records a control-of-flow instruction: {e['name']}")
    return out


def monitor_run_errors(prog, obs):
    """C07 invariants on any program: exception objects pairwise distinct; step/line/col of every entry
    name a step of the program."""
    out = []
    res = floworacle.run_errors_of(obs)
    # one entry per step whose body raised: an error crossing a pype step on a shared context is the body
    # error of the child's step and of the pype step (DESIGN section 6); call steps never record again
    seen = {}
    for e in res:
        if isinstance(e, dict):
            k = json.dumps(e.get('exception'))
            if k in seen and e.get('step') != 'pypyr.steps.pype':
                out.append(f"exception object recorded a second time by step {e.get('step')} "
                           f"(first by {seen[k]})")
            seen.setdefault(k, e.get('step'))
    locs = set()
    for _, _, st in static_steps(prog):
        if isinstance(st, dict):
            if st.get('name') is None or isinstance(st.get('name'), str):
                locs.add((st.get('name'), st.get('line'), st.get('col')))
        else:
            locs.add((st, None, None))
    txt = json.dumps(prog)
    tampered = any(x in txt for x in ('runErrors', 'clearAll', 'contextclearall'))
    for e in res:
        if isinstance(e, dict) and not tampered and (e.get('step'), e.get('line'), e.get('col')) not in locs:
            out.append(f"runErrors entry names step {e.get('step')} at line {e.get('line')} col {e.get('col')}, "
                       'which is not a step of the pipeline')
    oc = obs.get('outcome')
    if isinstance(oc, dict) and 'err' in oc and not tampered:
        for e in res:
            if isinstance(e, dict) and e.get('exception') == {'o': oc['err']['id']} and e.get('swallowed') is True:
                out.append('the error the caller received is recorded as swallowed')
    return out


def monitor_all(prog, obs):
    return monitor_error_free(prog, obs) + monitor_run_errors(prog, obs)
