"""C10 helpers: running merge / set_defaults / the two steps on the implementation, monitors written
from the property text (judged on the implementation alone), generators of (context, incoming) pairs.

A case is JSON-able:
  {"stream": s, "op": "merge" | "defaults" | "step-merge" | "step-default",
   "ctx": wire dict, "add": wire value (absent for the step ops: it is ctx[key]), "ruamel": bool}
  {"stream": s, "op": "seq", "ctx": wire dict, "ops": [{"op": …, "add": wire}…], "ruamel": bool}
      a SEQUENCE of operations on one Context (a step op with "add": the mapping is first put under the step's key,
      as a pipeline does with `in:`); every incoming mapping is inspected again after every later operation
A container at a VALUE position of "ctx" / "add" may be wrapped as {"cls": tag, "of": <wire container>}: it is built as
the class with that model tag (impl_c09._classes: set 1 = frozenset, list 2 = CommentedSeq, dict 2 = CommentedMap,
dict 3 = OrderedDict, 3 / 4 = MyList / MyTuple / MySet / MyDict); the tree-level model sees the wire without the wrappers
(`strip_cls`: it has no classes), the heap-level model the class tags.
"""
from __future__ import annotations

from collections.abc import Mapping, Set

from . import common
from .common import canon, Opaque
from .impl_c09 import (CASE_SECONDS, CaseTimeout, NotModelled, Snapshot, classes, graph_to_cells, has_cycle, id_map,
                       impl_graph, canon_wire, deep_equal, enc9, is_special,
                       py_brace_free, stable_repr, time_limit)

STEP_KEY = {'step-merge': 'contextMerge', 'step-default': 'defaults'}


# ---------------------------------------------------------------------------------------------
# wire -> python
# ---------------------------------------------------------------------------------------------

CLS_TAGS = {'list': (0, 2, 3), 'tuple': (0, 3), 'dict': (0, 2, 3, 4), 'set': (0, 1, 3)}


def wire_kind(w):
    """'list' | 'dict' | 'tuple' | 'set' for a wire container, else None."""
    if isinstance(w, list):
        return 'list'
    if isinstance(w, dict):
        for key, kind in (('d', 'dict'), ('t', 'tuple'), ('set', 'set')):
            if key in w:
                return kind
    return None


def K(tag, w):
    """the wire container `w` as an instance of the class with model tag `tag`"""
    assert tag in CLS_TAGS[wire_kind(w)], (tag, w)
    return {'cls': tag, 'of': w}


def strip_cls(w):
    """the wire value without class wrappers (what the class-less tree model is given)"""
    if isinstance(w, list):
        return [strip_cls(x) for x in w]
    if isinstance(w, dict):
        if 'cls' in w:
            return strip_cls(w['of'])
        if 'd' in w:
            return {'d': [[strip_cls(k), strip_cls(v)] for k, v in w['d']]}
        if 't' in w:
            return {'t': [strip_cls(x) for x in w['t']]}
        if 'jsonify' in w:
            return {'jsonify': strip_cls(w['jsonify'])}
    return w


def dec(w, ruamel=False, cls=None, key=False):
    """wire -> python. Unwrapped dicts / lists are plain (ruamel: CommentedMap / CommentedSeq); a container wrapped
    as {"cls": tag, "of": …} is an instance of the class with that model tag. `key`: inside a mapping key an
    unwrapped set is a frozenset (the only hashable one)."""
    if isinstance(w, dict) and 'cls' in w:
        return dec(w['of'], ruamel, classes()[wire_kind(w['of'])][w['cls']], key)
    if isinstance(w, list):
        if cls is None:
            cls = classes()['list'][2] if ruamel else list
        return cls([dec(x, ruamel) for x in w])
    if isinstance(w, dict):
        if 'd' in w:
            if cls is None:
                cls = classes()['dict'][2] if ruamel else dict
            return cls([(dec(k, ruamel, key=True), dec(v, ruamel)) for k, v in w['d']])
        if 't' in w:
            return (cls or tuple)([dec(x, ruamel, key=key) for x in w['t']])
        if 'set' in w:
            return (cls or (frozenset if key else set))([dec(x, ruamel, key=key) for x in w['set']])
        if 'jsonify' in w:
            from pypyr.dsl import Jsonify
            return Jsonify(dec(w['jsonify'], ruamel))
        if 'pysrc' in w:
            # arbitrary-Python !py (method calls with side effects: `free_ports.pop()`): outside PyEval.lean's
            # sub-language, the models reject the case; the monitors judge it on the implementation alone
            from pypyr.dsl import PyString
            return PyString(w['pysrc'])
    return common.dec(w)


# ---------------------------------------------------------------------------------------------
# monitors
# ---------------------------------------------------------------------------------------------

def is_strlike(v):
    return isinstance(v, str) or is_special(v)


def hashable(x):
    try:
        hash(x)
        return True
    except TypeError:
        return False


class Formatter:
    """Key / value formatting against a frozen copy of a context, using the real formatter
    (formatting itself is C08/C09's subject; here it is a trusted primitive of the monitor)."""

    def __init__(self, snapshot_dict):
        from pypyr.context import Context
        self.ctx = Context(snapshot_dict)

    def __call__(self, v):
        try:
            return True, self.ctx.get_formatted_value(v)
        except Exception:
            return False, None


MAX_DEPTH = 40          # trees of the generators are far shallower; deeper = a structure that became cyclic


def named_tree(add, before, fb, fa, depth=0):
    """Which paths does the incoming mapping name? {formatted key: ('w', v) | ('d', subtree, v) | ('?',)}.
    'w' = written (overwritten / extended / added), 'd' = descended into (mapping x mapping),
    '?' = ambiguous (the key formats differently before and after the call, formatting failed, or two
    incoming keys format to the same key): no claim is made at or below it."""
    out = {}
    if depth > MAX_DEPTH:
        return {('<unknown>', 0): ('?',)}
    for k, v in list(add.items()):
        okb, kb = fb(k)
        oka, ka = fa(k)
        cands = []
        for ok, fk in ((okb, kb), (oka, ka)):
            if ok and hashable(fk) and not any(c is fk or (type(c) is type(fk) and c == fk) for c in cands):
                cands.append(fk)
        if not (okb and oka) or len(cands) != 1:
            for fk in cands:
                out[fk] = ('?',)
            out.setdefault(('<unknown>', id(k)), ('?',))
            continue
        fk = cands[0]
        if fk in out:
            out[fk] = ('?',)
            continue
        cur = before.get(fk, _ABSENT) if isinstance(before, Mapping) else _ABSENT
        if cur is not _ABSENT and not is_strlike(v):
            for name, t in (('mapping', Mapping), ('list', list), ('tuple', tuple), ('set', Set)):
                if isinstance(cur, t) and isinstance(v, t):
                    COMBOS.append(f'{name}:{type(cur).__name__}<-{type(v).__name__}')
                    break
        if not is_strlike(v) and isinstance(v, Mapping) and isinstance(cur, Mapping):
            out[fk] = ('d', named_tree(v, cur, fb, fa, depth + 1), v)
        else:
            out[fk] = ('w', v)
    return out


_ABSENT = object()
COMBOS = []            # same-mergeable-kind pairs met by the monitors (existing class <- incoming class), drained per case
NAMED = []             # per operation run: the flat named paths (or None), drained per case


def flat_named(nt, before, defaults, path=()):
    """The named paths of an incoming mapping as the model's trace lists them: [[path of formatted keys, written?]…]
    in the order of the incoming items, nested entries right after their parent. merge: every item is a write
    (true) or a mapping x mapping descent (false); set_defaults: an existing key that is not descended into
    contributes NO entry. None when the named tree is ambiguous somewhere ('?')."""
    out = []
    for fk, ent in nt.items():
        if ent[0] == '?':
            return None
        p = path + (fk,)
        if ent[0] == 'd':
            sub = flat_named(ent[1], before[fk], defaults, p)
            if sub is None:
                return None
            out.append([list(p), False])
            out += sub
        elif not (defaults and isinstance(before, Mapping) and fk in before):
            out.append([list(p), True])
    return out


def has_unknown(nt):
    return any(isinstance(k, tuple) and len(k) == 2 and k[0] == '<unknown>' for k in nt)


def frame_monitor(before_copy, live_ids, after, nt, path, fails, identity=True):
    """Every path of the old context that the incoming tree does not name keeps its value and identity."""
    if has_unknown(nt) or len(path) > MAX_DEPTH:
        return
    for key, oldv in before_copy.items():
        p = path + [key]
        ent = nt.get(key)
        if ent is None:
            if key not in after:
                fails.append(('frame', f'{fmt_path(p)} disappeared although the incoming mapping does not name it'))
                continue
            newv = after[key]
            if not deep_equal(newv, oldv):
                fails.append(('frame', f'{fmt_path(p)} is not named by the incoming mapping but changed from '
                                       f'{stable_repr(oldv)[:120]} to {stable_repr(newv)[:120]}'))
            elif identity and live_ids.get(tuple(map(path_key, p))) not in (None, id(newv)):
                fails.append(('frame-identity', f'{fmt_path(p)} is not named by the incoming mapping but is now '
                                                f'a different object'))
        elif ent[0] == 'd' and isinstance(oldv, Mapping) and isinstance(after.get(key), Mapping):
            frame_monitor(oldv, live_ids, after[key], ent[1], p, fails, identity)
    # "changes only the paths the incoming mapping names": a key that was not there and that no incoming key
    # formats to is a changed path the mapping does not name (e.g. an entry stored under its UNFORMATTED key)
    if isinstance(after, Mapping) and not any(e[0] == '?' for e in nt.values()):
        for key in after:
            if key not in before_copy and key not in nt:
                fails.append(('frame-added', f'{fmt_path(path + [key])} was added although no incoming key formats to '
                                             f'{key!r} at this level (incoming keys format to '
                                             f'{[k for k in nt][:6]!r})'))


def path_key(k):
    return stable_repr(k)


def fmt_path(p):
    return 'context' + ''.join(f'[{k!r}]' for k in p)


def live_id_map(o, path=(), out=None):
    """path -> id(object) for every value reachable through mappings (objects kept alive by `keep`)."""
    out = {} if out is None else out
    if isinstance(o, Mapping) and len(path) <= MAX_DEPTH:
        for k, v in o.items():
            p = path + (path_key(k),)
            out[p] = id(v)
            live_id_map(v, p, out)
    return out


def keep_alive(o, acc, seen=None):
    seen = set() if seen is None else seen
    if id(o) in seen:
        return acc
    seen.add(id(o))
    acc.append(o)
    if isinstance(o, Mapping):
        for v in o.values():
            keep_alive(v, acc, seen)
    return acc


def table_monitor(before_copy, after, nt, path, fails, fb, fa):
    """Per incoming node: strings/scalars overwrite, mappings merge recursively, lists/tuples/sets are
    extended with the formatted incoming members after the existing ones (merge only)."""
    if has_unknown(nt) or len(path) > MAX_DEPTH:
        return
    for fk, ent in nt.items():
        p = path + [fk]
        if ent[0] == '?':
            continue
        if fk not in after:
            fails.append(('table', f'{fmt_path(p)} is named by the incoming mapping but missing afterwards'))
            continue
        new = after[fk]
        old = before_copy.get(fk, _ABSENT) if isinstance(before_copy, Mapping) else _ABSENT
        if ent[0] == 'd':
            if not isinstance(new, Mapping):
                fails.append(('table', f'{fmt_path(p)}: mapping merged into mapping is no longer a mapping'))
            else:
                table_monitor(old, new, ent[1], p, fails, fb, fa)
            continue
        v = ent[1]
        bf = py_brace_free(v)
        if bf:
            stable, fv = True, v
        else:
            # a claim about a value with expressions is made only when it formats to the same thing
            # against the context before and after the call (then also at the moment it was merged)
            (okb, fvb), (oka, fva) = fb(v), fa(v)
            stable, fv = okb and oka and deep_equal(fvb, fva), fva
        if isinstance(v, (bytes, bytearray)):
            if new is not v:
                fails.append(('table', f'{fmt_path(p)}: incoming bytes must overwrite as the same object'))
        elif is_strlike(v) or old is _ABSENT or not same_mergeable_kind(old, v):
            # overwrite with the formatted incoming value
            if stable and not deep_equal(new, fv):
                fails.append(('table', f'{fmt_path(p)}: incoming {stable_repr(v)[:80]} must overwrite with its '
                                       f'formatted value {stable_repr(fv)[:80]}, found {stable_repr(new)[:80]}'))
        elif isinstance(v, (list, tuple)):
            # the property speaks of the members, not of the class of the result (a tuple subclass + a tuple is a
            # plain tuple in CPython): members compared as plain sequences
            n = len(old)
            base = list if isinstance(v, list) else tuple
            if not isinstance(new, base) or len(new) != n + len(v) or not deep_equal(list(new)[:n], list(old)):
                fails.append(('table-extend', f'{fmt_path(p)}: existing members must come first and stay: old '
                                              f'{stable_repr(old)[:80]}, new {stable_repr(new)[:80]}'))
            elif stable and not deep_equal(list(new)[n:], list(fv)):
                fails.append(('table-extend', f'{fmt_path(p)}: incoming members must follow the existing ones: '
                                              f'{stable_repr(new)[:80]}'))
        elif isinstance(v, Set):
            if not (isinstance(new, Set) and all(x in new for x in old)
                    and (not stable or all(x in new for x in fv))
                    and (not stable or len(new) == len(set(old) | set(fv)))):
                fails.append(('table-extend', f'{fmt_path(p)}: set must be the union of old and incoming: '
                                              f'{stable_repr(new)[:80]}'))


def keys_monitor(add, before, after, fb, fa, path, fails, defaults, new_path=False, depth=0):
    """"Both apply formatting to incoming keys": read off the incoming mapping alone, level by level, for keys of
    EVERY hashable kind (str, int, bool, None, float, bytes, tuple, frozenset, nested ones - `get_formatted_value`
    formats the str members of tuple / frozenset keys; special tags are unhashable and cannot be keys). For every
    incoming entry whose key formats - to the same thing against the context before and after the call - to `fk`:
    `fk` is a key of the mapping at that level afterwards, and when `fk` differs from the raw key `k`, `k` itself is
    NOT a key there (unless it was one before or another incoming key formats to it). The walk follows the entry
    into an existing mapping (mapping x mapping: merge_recurse / defaults_recurse walk it themselves) and below a
    path that is new (`new_path`: that subtree is formatted as a whole)."""
    if depth > MAX_DEPTH or not isinstance(add, Mapping) or not isinstance(after, Mapping):
        return
    ents, targets = [], []
    for k, v in list(add.items()):
        (okb, kb), (oka, ka) = fb(k), fa(k)
        if not (okb and oka) or not hashable(kb) or not deep_equal(kb, ka):
            return                                   # a key without a stable formatted form: no claim at this level
        ents.append((k, v, kb))
        targets.append(kb)
    for k, v, fk in ents:
        p = path + [fk]
        where = 'below the new path ' + fmt_path(path) if new_path else 'at ' + fmt_path(path)
        if fk not in after:
            if not (defaults and new_path is False and isinstance(before, Mapping) and fk in before):
                fails.append(('key-not-formatted',
                              f'incoming key {k!r} ({type(k).__name__}) {where} formats to {fk!r}: {fmt_path(p)} must '
                              f'exist afterwards, keys found there: {list(after)[:8]!r}'))
            continue
        if not deep_equal(fk, k) and hashable(k):
            was = isinstance(before, Mapping) and any(deep_equal(k, b) for b in before) and not new_path
            named = any(deep_equal(k, t) for t in targets)
            if not was and not named and any(deep_equal(k, a) for a in after):
                fails.append(('key-not-formatted',
                              f'incoming key {k!r} ({type(k).__name__}) {where} must be formatted to {fk!r}; the '
                              f'UNFORMATTED key is a key of the context afterwards: {list(after)[:8]!r}'))
        if is_strlike(v) or not isinstance(v, Mapping) or not isinstance(after.get(fk), Mapping):
            continue
        old = before.get(fk, _ABSENT) if isinstance(before, Mapping) and not new_path else _ABSENT
        if old is _ABSENT:
            keys_monitor(v, None, after[fk], fb, fa, p, fails, defaults, True, depth + 1)
        elif isinstance(old, Mapping):
            keys_monitor(v, old, after[fk], fb, fa, p, fails, defaults, False, depth + 1)


def same_mergeable_kind(old, v):
    for t in (Mapping, list, tuple, Set):
        if isinstance(old, t) and isinstance(v, t):
            return True
    return False


def defaults_monitor(before_copy, live_ids, after, nt, path, fails, fa, fb=None):
    """Setting defaults never changes the value at any existing path (even None) and adds exactly the
    missing ones."""
    # never overwrites
    if len(path) > MAX_DEPTH:
        return
    for key, oldv in before_copy.items():
        p = path + [key]
        if key not in after:
            fails.append(('defaults-overwrite', f'{fmt_path(p)} existed and is gone'))
            continue
        newv = after[key]
        if isinstance(oldv, Mapping):
            if not isinstance(newv, Mapping):
                fails.append(('defaults-overwrite', f'{fmt_path(p)} existed (a mapping) and was replaced by '
                                                    f'{stable_repr(newv)[:80]}'))
                continue
            ent = nt.get(key) if nt is not None else None
            sub = None if nt is None else ent[1] if ent is not None and ent[0] == 'd' else {}
            if ent is not None and ent[0] == '?':
                sub = None
            defaults_monitor(oldv, live_ids, newv, sub, p, fails, fa, fb)
        else:
            if not deep_equal(newv, oldv):
                fails.append(('defaults-overwrite', f'{fmt_path(p)} existed with value {stable_repr(oldv)[:80]} '
                                                    f'and was changed to {stable_repr(newv)[:80]}'))
            elif live_ids.get(tuple(map(path_key, p))) not in (None, id(newv)):
                fails.append(('defaults-identity', f'{fmt_path(p)} existed and is now a different object'))
    if list(after.keys())[:len(before_copy)] != list(before_copy.keys()):
        fails.append(('defaults-overwrite', f'{fmt_path(path)}: existing keys moved or changed'))
    # adds exactly the missing ones (nt None: the named keys are not known, e.g. the call raised)
    if nt is None or has_unknown(nt):
        return
    for key in after:
        if key not in before_copy and key not in nt:
            fails.append(('defaults-extra', f'{fmt_path(path + [key])} was added but the defaults do not name it'))
    for fk, ent in nt.items():
        if ent[0] == '?':
            continue
        if fk not in after:
            fails.append(('defaults-missing', f'{fmt_path(path + [fk])} is named by the defaults, was missing, '
                                              f'and has not been added'))
        elif fk not in before_copy and ent[0] == 'w':
            v = ent[1]
            if py_brace_free(v):
                if not deep_equal(after[fk], v):
                    fails.append(('defaults-missing', f'{fmt_path(path + [fk])}: added value should be '
                                                      f'{stable_repr(v)[:80]}, found {stable_repr(after[fk])[:80]}'))
            elif fb is not None:
                # a value with expressions: a claim only when it formats to the same thing against the context
                # before and after the call (then also at the moment it was added) - formatted ONCE
                (okb, fvb), (oka, fva) = fb(v), fa(v)
                if okb and oka and deep_equal(fvb, fva) and not deep_equal(after[fk], fva):
                    fails.append(('defaults-missing', f'{fmt_path(path + [fk])}: added value should be the formatted '
                                                      f'default {stable_repr(fva)[:80]}, found {stable_repr(after[fk])[:80]}'))


# ---------------------------------------------------------------------------------------------
# the property text as an executable reference (entry by entry, on deep copies)
# ---------------------------------------------------------------------------------------------
#
# "Merging a mapping into context changes only the paths the incoming mapping names ... incoming strings and scalars
# overwrite, mappings merge recursively, and lists, tuples and sets are extended with the formatted incoming members
# after the existing ones. Setting defaults never changes the value at any path that already exists ... and adds
# exactly the missing ones. Both apply formatting to incoming keys and values."  Read entry by entry: the incoming
# mapping is walked in order; an entry's key and - where the entry has to write something - its value are formatted
# ONCE, as a whole, against the context as merged so far (i.e. BEFORE that entry writes anything), then the entry's
# path is written in one go. An entry that has nothing to write (a default for a path that exists) evaluates nothing.
# An entry that cannot be formatted writes nothing (the walk ends there with the formatter's error).
# The reference runs on a deep copy of context + incoming mapping with the real formatter as its only primitive;
# the implementation must end with the same outcome (returns / raises the same class of error) and leave the context
# deep-equal to the reference's - after a failure too (a failed operation has written the entries before the failing
# one completely and the failing one not at all).

class RefLog:
    """what the reference evaluated / skipped, for the detail text"""

    def __init__(self):
        self.skipped = []          # paths whose default was NOT evaluated (the path exists)
        self.failed_at = None      # path of the entry whose formatting raised


def ref_apply(octx, op, add, log):
    """The operation on the copy `octx` (a Context). Returns the exception raised, or None."""
    F = octx.get_formatted_value
    defaults = op in ('defaults', 'step-default')

    def rec(cur, inc, path):
        for k, v in inc.items():
            log.failed_at = path + (k,)
            fk = F(k)
            p = path + (fk,)
            log.failed_at = p
            if defaults:
                if fk in cur:
                    if isinstance(cur[fk], Mapping) and isinstance(v, Mapping):
                        rec(cur[fk], v, p)
                    else:
                        log.skipped.append(p)              # exists: stays, its default is not looked at
                else:
                    cur[fk] = F(v)
                continue
            if is_strlike(v):
                cur[fk] = F(v)
            elif isinstance(v, (bytes, bytearray)):
                cur[fk] = v
            elif fk in cur:
                old = cur[fk]
                if isinstance(old, Mapping) and isinstance(v, Mapping):
                    rec(old, v, p)
                elif isinstance(old, list) and isinstance(v, list):
                    fv = F(v)                              # the whole incoming list first ...
                    old.extend(fv)                         # ... then after the existing members
                elif isinstance(old, tuple) and isinstance(v, tuple):
                    cur[fk] = old + F(v)
                elif isinstance(old, Set) and isinstance(v, Set):
                    cur[fk] = old | F(v)
                else:
                    cur[fk] = F(v)
            else:
                cur[fk] = F(v)
        log.failed_at = None

    try:
        if op in STEP_KEY:
            octx.assert_key_has_value(key=STEP_KEY[op], caller='reference')
        rec(octx, add, ())
        if op in STEP_KEY:
            len(octx[STEP_KEY[op]])           # the step's log line
    except Exception as e:                    # RecursionError included
        return e
    return None


def reference_monitor(op, err, after, octx, oerr, log, fails):
    what = {'merge': 'Context.merge', 'defaults': 'Context.set_defaults', 'step-merge': 'pypyr.steps.contextmerge',
            'step-default': 'pypyr.steps.default'}[op]
    defaults = op in ('defaults', 'step-default')
    expected = dict(octx)
    if err is not None and oerr is None:
        why = ''
        if defaults and log.skipped:
            why = (f'; the defaults for the paths that exist already ({", ".join(fmt_path(list(p)) for p in log.skipped[:4])}) '
                   f'are of no consequence and must not be evaluated')
        fails.append(('raises-where-entry-by-entry-succeeds',
                      f'{what} raised {type(err).__name__}: {str(err)[:100]} although every incoming key and value it has '
                      f'to format formats against the context as merged so far{why}'))
    elif err is None and oerr is not None:
        fails.append(('succeeds-where-entry-by-entry-raises',
                      f'{what} returned although the entry at {fmt_path(list(log.failed_at or ()))} cannot be formatted '
                      f'against the context as merged so far ({type(oerr).__name__}: {str(oerr)[:100]})'))
    elif err is not None and type(err) is not type(oerr):
        fails.append(('raises-differently', f'{what} raised {type(err).__name__}: {str(err)[:80]}; entry by entry the '
                                            f'first failure is {type(oerr).__name__}: {str(oerr)[:80]}'))
    if has_cycle(after) or has_cycle(expected):
        return
    if not deep_equal(after, expected):
        diff = first_diff(after, expected).replace('after the step', 'in the context').replace(
            'after the direct call', 'expected').replace('step ', 'found ').replace('direct call ', 'expected ')
        if err is not None and oerr is not None:
            fails.append(('failed-entry-partly-written',
                          f'{what} raised {type(err).__name__} at the entry {fmt_path(list(log.failed_at or ()))}; the '
                          f'entries before it must be written completely and the failing one not at all, but {diff}'))
        elif err is None and oerr is None:
            fails.append(('entry-by-entry',
                          f'{what}: each incoming key and value is formatted once, as a whole, against the context as merged '
                          f'so far (before its own entry writes anything), and only entries that have something to write are '
                          f'evaluated; but {diff}'))


def atomic_monitor(before_copy, after, nt, path, fails):
    """Judged without any reference run, after an operation that RAISED: a list / tuple / set path named by the
    incoming mapping holds either exactly its old members or the old members followed by ALL the incoming ones -
    "extended with the formatted incoming members after the existing ones" knows no third state."""
    if has_unknown(nt) or len(path) > MAX_DEPTH or not isinstance(before_copy, Mapping) or not isinstance(after, Mapping):
        return
    for fk, ent in nt.items():
        if ent[0] == '?' or fk not in before_copy or fk not in after:
            continue
        old, new, p = before_copy[fk], after[fk], path + [fk]
        if ent[0] == 'd':
            atomic_monitor(old, new, ent[1], p, fails)
            continue
        v = ent[1]
        if is_strlike(v) or isinstance(v, (bytes, bytearray)):
            continue
        if isinstance(old, list) and isinstance(v, list) and isinstance(new, list):
            if len(new) not in (len(old), len(old) + len(v)) or not deep_equal(list(new)[:len(old)], list(old)):
                fails.append(('list-half-extended',
                              f'the operation raised and left {fmt_path(p)} with {len(new)} members: neither the '
                              f'{len(old)} it had nor those followed by all {len(v)} incoming ones '
                              f'({stable_repr(old)[:60]} -> {stable_repr(new)[:100]})'))


# ---------------------------------------------------------------------------------------------
# running one case on the implementation
# ---------------------------------------------------------------------------------------------

def has_pysrc(w):
    if isinstance(w, list):
        return any(has_pysrc(x) for x in w)
    if isinstance(w, dict):
        return 'pysrc' in w or any(has_pysrc(x) for x in w.values())
    return False


def case_ops(case):
    """The operations of a case, in order: [{"op": …, "add": wire (optional for the step ops)}…]."""
    if case['op'] == 'seq':
        return case['ops']
    o = {'op': case['op']}
    if 'add' in case:
        o['add'] = case['add']
    return [o]


def run_impl(case):
    """Run the operations of a case one after the other on ONE Context. Returns (obs, fails).
    obs: {"ok": ctx wire} | {"err": name, "at": index of the failing operation, "msg"}.
    Never raises for what the implementation does: any exception (RecursionError included) is the observation
    of that operation, a call that does not return within CASE_SECONDS is an observation and a failure."""
    try:
        with time_limit(CASE_SECONDS):
            return _run_impl(case)
    except CaseTimeout:
        return ({'err': 'Timeout', 'at': -1, 'msg': f'no result within {CASE_SECONDS}s'},
                [('hang', f'the operations did not return within {CASE_SECONDS}s')])


def _run_impl(case):
    from pypyr.context import Context
    ops = case_ops(case)
    ruamel = case.get('ruamel', False)
    del COMBOS[:]
    del NAMED[:]
    ctx = Context(dec(case['ctx']))
    # every incoming mapping is an object that exists before the sequence starts and is looked at again after
    # EVERY later operation ("leave the incoming mapping itself unmodified" has no time limit)
    adds, snaps = [], []
    for o in ops:
        if 'add' not in o and o['op'] in STEP_KEY and ruamel and isinstance(ctx.get(STEP_KEY[o['op']]), Mapping):
            ctx[STEP_KEY[o['op']]] = dec(enc9(ctx[STEP_KEY[o['op']]]), True)
        a = dec(o['add'], ruamel) if 'add' in o else _ABSENT
        adds.append(a)
        snaps.append(Snapshot(a) if a is not _ABSENT else None)
    # heap reading of the same objects (context, incoming mappings, everything they hold, with whatever sharing
    # there is between them) for the heap-level model
    heap = None
    try:
        given = [a for a in adds if a is not _ABSENT]      # a step op without "add" reads its mapping from the context
        cells, refs, objs = graph_to_cells([dict(ctx)] + given)
        objs[refs[0]] = ctx
        it = iter(refs[1:])
        heap = {'cells': cells, 'root': refs[0], 'id2old': id_map(objs), 'keep': objs,
                'ops': [dict({'op': o['op']}, **({'add': next(it)} if a is not _ABSENT else {}))
                        for o, a in zip(ops, adds)]}
    except NotModelled as e:
        heap = {'skip': str(e).split(' ')[0]}
    except RecursionError:
        heap = {'skip': 'too-deep'}
    fails = []
    obs = None
    swallowed = []         # [[index, error name]…] of failed operations marked "swallow": the sequence goes on
    use_ref = not case['stream'].startswith('alias:')
    # side-effecting !py ({"pysrc": …}: `free_ports.pop()`): an expression that HAS to be evaluated may change other
    # paths (DESIGN: in-place mutations by !py stay visible) - the frame / table / defaults monitors, which hold every
    # un-named path to its old value, stand back and the reference run alone says which evaluations were due
    effects = has_pysrc(case)
    for i, o in enumerate(ops):
        op = o['op']
        tag = f'op#{i} {op}: ' if len(ops) > 1 else ''
        if op in STEP_KEY:
            key = STEP_KEY[op]
            if adds[i] is not _ABSENT:
                ctx[key] = adds[i]                      # the step's `in:` argument
            else:
                adds[i] = ctx.get(key, _ABSENT)
                snaps[i] = Snapshot(adds[i]) if adds[i] is not _ABSENT else None
        err, f1 = run_one(ctx, op, adds[i], use_ref, effects)
        fails += [(m, tag + d) for m, d in f1]
        for j in range(i + 1):
            if snaps[j] is None:
                continue
            f = snaps[j].same(adds[j], ids=True)
            if f:
                if j == i:
                    fails.append(('incoming-modified', f'{tag}the incoming mapping changed: {f}'))
                else:
                    fails.append(('incoming-modified-later',
                                  f'{tag}the incoming mapping of the EARLIER operation #{j} ({ops[j]["op"]}) changed: '
                                  f'{f}; it was {snaps[j].repr[:160]} and now reads {stable_repr(adds[j])[:160]}'))
                snaps[j] = Snapshot(adds[j])           # report each modification once
        if err is not None and o.get('swallow') and not isinstance(err, RecursionError):
            # a step with `swallow: True` (or a retry / failure handler): the pipeline goes on with the context
            # as the failed operation left it
            swallowed.append([i, common.exc_name(err)])
            err = None
        if err is not None:
            obs = {'err': common.exc_name(err), 'at': i, 'msg': str(err)[:200]}
            break
        if has_cycle(dict(ctx)):
            # tree inputs never legitimately produce a context that contains itself; nothing further is run on it
            fails.append(('self-referential', f'{tag}the context contains itself after the operation'))
            obs = {'err': 'SelfReferentialContext', 'at': i, 'msg': ''}
            break
    if swallowed and 'skip' not in heap:
        heap = {'skip': 'swallowed-failure'}    # the heap-level model ends a sequence at the first failure
    if obs is not None:
        if swallowed:
            obs['errs'] = swallowed
        obs['heap'] = heap if 'skip' in heap else {k: heap[k] for k in ('cells', 'root', 'ops')}
        obs['combos'] = list(COMBOS)
        return obs, fails
    after = dict(ctx)
    try:
        w = canon_wire(enc9(after))
    except Exception:
        w = {'unencodable': repr(after)[:300]}
    if 'skip' not in heap:
        try:
            g = impl_graph([ctx] + given, heap['id2old'])
            g['items'][0].pop('class', None)
            g['items'][0]['tag'] = 0                       # the Context object is the root dict cell
            heap = {'cells': heap['cells'], 'root': heap['root'], 'ops': heap['ops'], 'graph': g}
        except RecursionError:
            heap = {'skip': 'too-deep'}
    obs = {'ok': w, 'heap': heap, 'combos': list(COMBOS)}
    if swallowed:
        obs['errs'] = swallowed
    if len(ops) == 1 and len(NAMED) == 1 and NAMED[0] is not None and ops[0]['op'] in ('merge', 'defaults'):
        try:
            obs['named'] = [[[canon_wire(enc9(k)) for k in p], b] for p, b in NAMED[0]]
        except Exception:
            pass
    return obs, fails


def call_op(ctx, op, add):
    if op == 'merge':
        ctx.merge(add)
    elif op == 'defaults':
        ctx.set_defaults(add)
    elif op == 'step-merge':
        import pypyr.steps.contextmerge
        pypyr.steps.contextmerge.run_step(ctx)
    elif op == 'step-default':
        import pypyr.steps.default
        pypyr.steps.default.run_step(ctx)
    else:
        raise ValueError(op)


def run_one(ctx, op, add, use_ref=True, effects=False):
    """One operation on the live context with the monitors of the property text. Returns (exception | None, fails)."""
    from pypyr.context import Context
    before_copy = Snapshot(dict(ctx))
    # the reference run's own copies (context + incoming mapping; a step's mapping is a value of the context)
    octx = oadd = None
    if use_ref and before_copy.copy is not None and isinstance(add, Mapping):
        ocopy = Snapshot(dict(ctx)).copy
        if op in STEP_KEY:
            if isinstance(ocopy.get(STEP_KEY[op]), Mapping):
                octx, oadd = Context(ocopy), ocopy[STEP_KEY[op]]
        else:
            oadd = Snapshot(add).copy
            if oadd is not None:
                octx = Context(ocopy)
    keep = keep_alive(dict(ctx), [])
    live_ids = live_id_map(ctx)
    fb = Formatter(before_copy.copy)
    # the steps must do exactly what Context.merge / set_defaults does with the mapping as it stands in the
    # context: the same operation on a deep copy of the whole context (the copy of the mapping is a value of the
    # copy of the context, as in the original), each incoming key and value formatted ONCE against the context
    # as merged so far
    twin = None
    if op in STEP_KEY and before_copy.copy is not None and isinstance(add, Mapping):
        twin = Context(Snapshot(dict(ctx)).copy)
    err = None
    try:
        call_op(ctx, op, add)
    except Exception as e:                  # incl. RecursionError: an observation, never a crash of the check
        err = e
    fails = []
    after = dict(ctx)
    if octx is not None:
        log = RefLog()
        try:
            oerr = ref_apply(octx, op, oadd, log)
            reference_monitor(op, err, after, octx, oerr, log, fails)
        except RecursionError:
            pass
    if (isinstance(add, Mapping) and before_copy.copy is not None and not has_cycle(after) and not has_cycle(add)
            and not effects):
        try:
            fa = Formatter(Snapshot(after).copy)
            nt = named_tree(add, before_copy.copy, fb, fa)
            if err is not None and op in ('merge', 'step-merge'):
                atomic_monitor(before_copy.copy, after, nt, [], fails)
            if err is None:
                NAMED.append(flat_named(nt, before_copy.copy, op in ('defaults', 'step-default')))
            if err is None:
                keys_monitor(add, before_copy.copy, after, fb, fa, [], fails, op in ('defaults', 'step-default'))
            if op in ('merge', 'step-merge'):
                frame_monitor(before_copy.copy, live_ids, after, nt, [], fails)
                if err is None:
                    table_monitor(before_copy.copy, after, nt, [], fails, fb, fa)
            else:
                defaults_monitor(before_copy.copy, live_ids, after, nt if err is None else None, [], fails, fa, fb)
        except RecursionError:
            fails.append(('self-referential', 'context or incoming mapping became self-referential: the monitors '
                                              'ran into unbounded recursion walking it'))
    if twin is not None:
        key = STEP_KEY[op]
        terr = None
        try:
            call_op(twin, 'merge' if op == 'step-merge' else 'defaults', twin[key])
            len(twin[key])                   # the step's log line: "merged %d context items", len(context[key])
        except Exception as e:
            terr = e
        what = 'Context.merge(context[%r])' % key if op == 'step-merge' else 'Context.set_defaults(context[%r])' % key
        if (err is None) != (terr is None) or (err is not None and type(err) is not type(terr)):
            fails.append(('step-differs', f'the step {"raised " + type(err).__name__ + ": " + str(err)[:80] if err else "succeeded"} '
                                          f'but {what} on a copy of the same context '
                                          f'{"raised " + type(terr).__name__ if terr else "succeeded"}'))
        elif err is None and not deep_equal(after, dict(twin)):
            diff = first_diff(after, dict(twin))
            fails.append(('step-differs', f'the step left the context different from {what} on a copy of the same '
                                          f'context (incoming keys and values formatted once, against the context as '
                                          f'merged so far): {diff}'))
    del keep
    return err, fails


def first_diff(a, b, path='context'):
    """A short description of the first position where two trees differ."""
    if isinstance(a, Mapping) and isinstance(b, Mapping):
        for k in a:
            if k not in b:
                return f'{path}[{k!r}] only after the step'
        for k in b:
            if k not in a:
                return f'{path}[{k!r}] only after the direct call'
        for k in a:
            if not deep_equal(a[k], b[k]):
                return first_diff(a[k], b[k], f'{path}[{k!r}]')
        return f'{path}: key order {list(a)} vs {list(b)}'
    if isinstance(a, (list, tuple)) and type(a) is type(b) and len(a) == len(b):
        for i, (x, y) in enumerate(zip(a, b)):
            if not deep_equal(x, y):
                return first_diff(x, y, f'{path}[{i}]')
    return f'{path}: step {stable_repr(a)[:100]} vs direct call {stable_repr(b)[:100]}'


# ---------------------------------------------------------------------------------------------
# generators
# ---------------------------------------------------------------------------------------------

EXISTING_KINDS = ['mapping', 'list', 'tuple', 'set', 'str', 'bytes', 'scalar', 'none', 'absent']
INCOMING_KINDS = ['mapping', 'list', 'tuple', 'set', 'str', 'bytes', 'scalar', 'none', 'special']


def D(*pairs):
    return {'d': [list(p) for p in pairs]}


def T(*xs):
    return {'t': list(xs)}


def S(*xs):
    xs = list(xs)
    xs.sort(key=canon)
    return {'set': xs}


def existing_of(kind, variant=0):
    return {
        'mapping': D(['m1', 'old-m1'], ['m2', D(['deep', 1])], ['keep', [1, 2]]),
        'list': ['old0', 1, D(['in', 'list'])],
        'tuple': T('old0', 1),
        'set': S('old0', 1),
        'str': 'old string',
        'bytes': {'b': '6f6c64'},
        'scalar': [7, True, {'f': [5, 1]}, {'o': 3}][variant % 4],
        'none': None,
    }[kind]


def incoming_of(kind, expr, variant=0):
    """expr: include a formatting expression referring to key 'e' (merged earlier in the same call)."""
    e = '{e}' if expr else 'lit'
    return {
        'mapping': D(['m1', 'new-' + e], ['m3', e], ['m2', D(['deep2', e])]),
        'list': ['new0', e, D(['k', e])],
        'tuple': T('new0', e),
        'set': S('new0', e),
        'str': 'new ' + e,
        'bytes': {'b': '6e6577'},
        'scalar': [8, False, {'f': [-3, 2]}, {'o': 4}][variant % 4],
        'none': None,
        'special': [{'sic': 'sic {e}'}, {'py': {'n': 'e'}}, {'jsonify': D(['j', e])}][variant % 3],
    }[kind]


def nest(depth, inner_key, value, siblings):
    """{'n1': {'n2': {inner_key: value, **siblings}}} with `depth-1` wrapping levels."""
    pairs = ([[inner_key, value]] if value is not _ABSENT else []) + siblings
    node = {'d': pairs}
    for lvl in range(depth - 1, 0, -1):
        node = {'d': [[f'n{lvl}', node], [f'side{lvl}', f'side value {lvl}']]}
    return node


def directed_cases():
    out = []
    v = 0
    for op in ('merge', 'defaults'):
        for depth in (1, 2, 3):
            for ek in EXISTING_KINDS:
                for ik in INCOMING_KINDS:
                    for mode in ('plain', 'value-expr', 'key-expr', 'both'):
                        v += 1
                        expr = mode in ('value-expr', 'both')
                        keyexpr = mode in ('key-expr', 'both')
                        ex = _ABSENT if ek == 'absent' else existing_of(ek, v)
                        inc = incoming_of(ik, expr, v)
                        sib_ctx = [['sib-str', 'unchanged'], ['sib-list', [1, [2]]], ['sib-none', None],
                                   ['sib-map', D(['a', 1], ['b', D(['c', T(1, 2)])])], ['sib-obj', {'o': 9}]]
                        ctx = nest(depth, 't', ex, sib_ctx)
                        ctx['d'] += [['kk', 't'], ['pre', 'pre-existing']]
                        tkey = '{kk}' if keyexpr else 't'
                        add_inner = nest(depth, tkey, inc, [['sib-new', 'added {pre}']])
                        add = {'d': [['e', 'earlier']] + add_inner['d']}
                        out.append({'stream': f'table:{op}:d{depth}:{ek}x{ik}:{mode}', 'op': op, 'ctx': ctx,
                                    'add': add, 'ruamel': v % 3 == 0})
    # root threading: nested values see what was merged earlier at any level
    out.append({'stream': 'thread:nested-sees-root', 'op': 'merge',
                'ctx': D(['n', D(['x', 'old'])], ['a', 'A']),
                'add': D(['n', D(['a', 1], ['b', '{n}'], ['c', '{a}'])], ['a', 'A2'], ['z', '{n}'])})
    out.append({'stream': 'thread:key-from-earlier', 'op': 'merge',
                'ctx': D(['x', 'b'], ['b', [1]]),
                'add': D(['name', 'b'], ['{name}', [2]], ['{x}', [3]], ['c', '{b}'])})
    out.append({'stream': 'thread:defaults-sees-added', 'op': 'defaults',
                'ctx': D(['n', D(['x', None])], ['a', None]),
                'add': D(['a', 'no'], ['b', 'B'], ['n', D(['x', 'no'], ['y', '{b}'], ['z', '{n}'])], ['c', '{n}'])})
    out.append({'stream': 'keys:duplicate-formatted', 'op': 'merge',
                'ctx': D(['x', 'b'], ['b', 'old']),
                'add': D(['b', 'first'], ['{x}', 'second'])})
    out.append({'stream': 'keys:non-string', 'op': 'merge',
                'ctx': D(['n', D([5, 'five'], [None, 'none'], [T(1, 'a'), 'tup'])], ['five', 5]),
                'add': D(['n', D([5, 'FIVE'], [T(1, 'a'), [1]], [6, 'six'])], ['{five}', 'root int key'])})
    out.append({'stream': 'keys:unhashable', 'op': 'merge', 'ctx': D(['l', [1]]), 'add': D(['{l}', 1])})
    out.append({'stream': 'keys:unhashable-defaults', 'op': 'defaults', 'ctx': D(['l', [1]]), 'add': D(['{l}', 1])})
    out.append({'stream': 'err:missing-ref', 'op': 'merge', 'ctx': D(['a', 1]),
                'add': D(['b', 'fine'], ['c', '{nope}'], ['d', 'never'])})
    out.append({'stream': 'err:missing-key-ref', 'op': 'defaults', 'ctx': D(['a', 1]),
                'add': D(['b', 'fine'], ['{nope}', 1])})
    for bad in ([1, 2], 'text', 5, None, T(1), S(1)):
        out.append({'stream': 'err:not-a-mapping', 'op': 'merge', 'ctx': D(['a', 1]), 'add': bad})
        out.append({'stream': 'err:not-a-mapping', 'op': 'defaults', 'ctx': D(['a', 1]), 'add': bad})
    # the steps
    for op, key in STEP_KEY.items():
        base = [['key1', 'value1'], ['key2', 'value2'], ['key3', D(['k31', 'value31'], ['k32', 'value32'])],
                ['none', None]]
        inc = D(['key2', 'aaa_{key1}_zzz'], ['key3', D(['k33', 'value33'])], ['key4', 'bbb_{key2}_yyy'],
                ['none', 'x'])
        out.append({'stream': f'step:{op}:docstring', 'op': op, 'ctx': {'d': base + [[key, inc]]}})
        out.append({'stream': f'step:{op}:ruamel', 'op': op, 'ctx': {'d': base + [[key, inc]]}, 'ruamel': True})
        out.append({'stream': f'step:{op}:absent', 'op': op, 'ctx': {'d': base}})
        out.append({'stream': f'step:{op}:none', 'op': op, 'ctx': {'d': base + [[key, None]]}})
        for bad in ([1], 'text', 5, False, T(1)):
            out.append({'stream': f'step:{op}:not-a-mapping', 'op': op, 'ctx': {'d': base + [[key, bad]]}})
        out.append({'stream': f'step:{op}:empty', 'op': op, 'ctx': {'d': base + [[key, D()]]}})
        for repl in (5, 'text', None, [1], {'sic': 's'}):
            out.append({'stream': f'step:{op}:names-own-key', 'op': op,
                        'ctx': {'d': base + [[key, D(['a', 1], [key, repl])]]}})
    return (out + format_once_cases() + sequence_cases() + class_cases() + whole_entry_cases()
            + inert_default_cases() + key_kind_cases())


# incoming keys of every hashable kind: (raw incoming key, the key it formats to) against KEY_CTX
KEY_CTX = [['env', 'prod'], ['num', 7], ['nothing', None], ['tupv', {'t': ['prod', 1]}], ['sib', 'unchanged'],
           ['sib-list', [1, [2]]]]
FS = lambda *xs: K(1, S(*xs))                     # a frozenset
KEY_KINDS = {
    'str-expr': ('{env}', 'prod'),
    'str-to-int': ('{num}', 7),
    'str-to-none': ('{nothing}', None),
    'str-to-tuple': ('{tupv}', {'t': ['prod', 1]}),
    'int': (5, 5), 'bool': (True, True), 'none': (None, None), 'float': ({'f': [5, 1]}, {'f': [5, 1]}),
    'bytes': ({'b': '7b656e767d'}, {'b': '7b656e767d'}),          # b'{env}': bytes are never formatted
    'tuple-plain': (T('prod', 'port'), T('prod', 'port')),
    'tuple-expr': (T('{env}', 'port'), T('prod', 'port')),        # what the YAML complex key ? ['{env}', port] loads as
    'tuple-expr-int': (T('{num}', 'x', 2), T(7, 'x', 2)),
    'tuple-nested': (T('a', T('{env}', T('{num}', None))), T('a', T('prod', T(7, None)))),
    'frozenset-plain': (FS('p', 'q'), FS('p', 'q')),
    'frozenset-expr': (FS('{env}', 'b'), FS('prod', 'b')),
    'tuple-frozenset': (T('t', FS('{env}', 3)), T('t', FS('prod', 3))),
}


def has_cls_key(w, in_key=False):
    """a class-wrapped container (frozenset) in KEY position somewhere in the wire value: the tree-level model has
    one set kind (mutable, unhashable) and the heap-level model hashes by structure of plain cells only - such cases
    are IMPLEMENTATION-ONLY, judged by the monitors written from the property text (keys / frame / table / defaults /
    reference monitor)"""
    if isinstance(w, list):
        return any(has_cls_key(x, in_key) for x in w)
    if isinstance(w, dict):
        if 'cls' in w:
            return in_key or has_cls_key(w['of'], in_key)
        if 'd' in w:
            return any(has_cls_key(k, True) or has_cls_key(v, in_key) for k, v in w['d'])
        for tag in ('t', 'set'):
            if tag in w:
                return any(has_cls_key(x, in_key) for x in w[tag])
        if 'jsonify' in w:
            return has_cls_key(w['jsonify'], in_key)
    return False


def has_expr_str(w):
    """a str with a brace somewhere in the (key) wire value"""
    if isinstance(w, str):
        return '{' in w
    if isinstance(w, list):
        return any(has_expr_str(x) for x in w)
    if isinstance(w, dict):
        return any(has_expr_str(x) for key in ('of', 't', 'set') if key in w for x in [w[key]])
    return False


def impl_only(case):
    return (has_cls_key(case.get('ctx')) or has_cls_key(case.get('add'))
            or any(has_cls_key(o.get('add')) for o in case.get('ops', [])))


def key_kind_cases():
    """"Both apply formatting to incoming keys": an incoming key of every hashable kind - str with an expression
    (formatting to str / int / None / a tuple), int, bool, None, float, bytes, tuple (plain, with expression members,
    nested), frozenset (plain, with an expression member, inside a tuple) - at the ROOT, under EXISTING mappings at
    depth 1-3 (the levels merge_recurse / defaults_recurse walk themselves) and below a NEW path of depth 1-2 (formatted
    as a whole subtree), with the formatted key absent / naming an existing list (merge: extended) / naming an
    existing None (defaults: kept), for merge, set_defaults and the two steps."""
    out = []
    n = 0
    for kind, (raw, fk) in KEY_KINDS.items():
        for site in ('root', 'd1', 'd2', 'd3', 'new1', 'new2'):
            for state in (('absent', 'list', 'none') if site[0] != 'n' else ('absent',)):
                for op in ('merge', 'defaults', 'step-merge', 'step-default'):
                    n += 1
                    inc = ['{env}-443', D(['k', '{num}'])] if state == 'list' else 'val {env}'
                    sib_new = [['sib-new', 'added {env}']]
                    if site[0] == 'n':
                        depth = 1 + int(site[-1])
                        ctx = {'d': list(KEY_CTX)}
                        add = nest(depth, raw, inc, sib_new)
                    else:
                        depth = 1 if site == 'root' else 1 + int(site[-1])
                        ex = {'absent': _ABSENT, 'list': [80], 'none': None}[state]
                        ctx = nest(depth, fk, ex, [['other', 1], [T('other', 'tuple'), 'kept']])
                        ctx['d'] += list(KEY_CTX)
                        add = nest(depth, raw, inc, sib_new)
                    case = {'stream': f'keys:kinds:{kind}:{site}:{state}:{op}', 'ruamel': n % 4 == 0}
                    if op in STEP_KEY:
                        case.update(op='seq', ctx=ctx, ops=[{'op': op, 'add': add}])
                    else:
                        case.update(op=op, ctx=ctx, add=add)
                    out.append(case)
    # the reported shape: YAML complex keys naming existing paths at the top level and at depth 3, both operations
    ctx = D(['env', 'prod'], [T('prod', 'port'), [80]],
            ['svc', D(['web', D([T('prod', 'hosts'), T('a')], [T('prod', 'retries'), None], ['other', 1])])])
    add = D([T('{env}', 'port'), [443]],
            ['svc', D(['web', D([T('{env}', 'hosts'), T('b')], [T('{env}', 'retries'), 3], [T('{env}', 'timeout'), 30])])],
            ['fresh', D([T('{env}', 'port'), '{env}-8080'])])
    for op in ('merge', 'defaults', 'step-merge', 'step-default'):
        out.append({'stream': f'keys:kinds:complex-yaml-keys:{op}', 'op': 'seq', 'ctx': ctx, 'ops': [{'op': op, 'add': add}]})
    return out


PY_LEN = lambda name: {'py': {'len': {'n': name}}}                                     # !py len(<name>)
PY_LEN_SUB = lambda name, key: {'py': {'len': {'idx': [{'n': name}, {'c': key}]}}}     # !py len(<name>['<key>'])


def whole_entry_cases():
    """An entry is formatted as a whole, against the context as it is BEFORE the entry writes, and written in one
    go: incoming lists / tuples / sets with >= 2 members where a LATER member (i) refers to the very path it is
    merged into ('{seen}', !py len(seen), one level down !py len(job['steps'])) or (ii) cannot be formatted
    (missing key, !py NameError, a failure inside a nested member) after earlier members formatted fine; then the
    same operation AGAIN (the failed one swallowed, the missing key supplied in between or not): nothing of the
    failed entry may be there already. Also a failing entry in the middle of a mapping (entries before it written,
    the rest not), a failing entry two levels down, and the same for set_defaults / the steps."""
    out = []
    ctx0 = [['seen', ['x']], ['other', 'untouched'], ['n', 1], ['tup', T('t0')], ['st', S('s0')],
            ['job', D(['name', 'j1'], ['steps', ['s0']], ['meta', D(['log', ['m0']])])]]
    selfref = {
        'list-str': D(['seen', ['first new', 'had {seen} before']]),
        'list-py-len': D(['seen', ['first new', PY_LEN('seen'), 'had {seen} before', PY_LEN('seen')]]),
        'list-nested-member': D(['seen', ['a', D(['k', '{seen}']), ['{seen}']]]),
        'list-sub': D(['job', D(['steps', ['s1', PY_LEN_SUB('job', 'steps'), 's3']])]),
        'list-sub2': D(['job', D(['meta', D(['log', ['m1', 'job is {job}']])])]),
        'tuple': D(['tup', T('t1', '{tup}', PY_LEN('tup'))]),
        'list-first': D(['seen', ['{seen}', 'second']]),
        'list-other-first': D(['n', 2], ['seen', ['n is {n}', PY_LEN('seen')]], ['after', '{seen}']),
    }
    ops1 = ('merge', 'step-merge')
    for name, inc in selfref.items():
        for op in ops1:
            for ruamel in (False, True):
                out.append({'stream': f'whole-entry:selfref:{name}:{op}', 'op': 'seq', 'ctx': {'d': list(ctx0)},
                            'ruamel': ruamel, 'ops': [{'op': op, 'add': inc}]})
        out.append({'stream': f'whole-entry:selfref:{name}:twice', 'op': 'seq', 'ctx': {'d': list(ctx0)},
                    'ops': [{'op': 'merge', 'add': inc}, {'op': 'step-merge', 'add': inc}]})
    failing = {
        'list-missing-key': D(['seen', ['checkout', 'build', 'tag {release_tag}']]),
        'list-missing-2nd': D(['seen', ['checkout', 'tag {release_tag}', 'after']]),
        'list-py-nameerror': D(['seen', ['a', 'b', {'py': {'n': 'release_tag'}}]]),
        'list-nested-member': D(['seen', ['a', D(['k', ['{release_tag}']])]]),
        'list-sub': D(['job', D(['name', 'j2'], ['steps', ['s1', 's2', '{release_tag}']], ['late', 1])]),
        'list-sub2': D(['other', 'touched'], ['job', D(['meta', D(['log', ['m1', '{release_tag}']], ['x', 1])])], ['z', 1]),
        'tuple': D(['tup', T('t1', '{release_tag}')]),
        'set': D(['st', S('s1', '{release_tag}')]),
        'mid-mapping': D(['a1', 'one'], ['seen', ['y']], ['a2', '{release_tag}'], ['a3', 'never']),
        'key': D(['a1', 'one'], ['{release_tag}', ['y']], ['a3', 'never']),
        'new-list': D(['fresh', ['a', '{release_tag}']], ['seen', ['never']]),
    }
    supply = D(['release_tag', 'v1.2.3'])
    for name, inc in failing.items():
        for op in ops1:
            for ruamel in (False, True):
                # the failing operation on its own (the state it leaves is monitored), ...
                out.append({'stream': f'whole-entry:fails:{name}:{op}', 'op': 'seq', 'ctx': {'d': list(ctx0)},
                            'ruamel': ruamel, 'ops': [{'op': op, 'add': inc}]})
                # ... swallowed and done again once the value is there (swallow + same step later, retry), ...
                out.append({'stream': f'whole-entry:fails:{name}:{op}:again', 'op': 'seq', 'ctx': {'d': list(ctx0)},
                            'ruamel': ruamel, 'ops': [{'op': op, 'add': inc, 'swallow': True},
                                                      {'op': 'merge', 'add': supply}, {'op': op, 'add': inc}]})
            # ... and retried without the value ever arriving (each attempt fails the same way on the same state)
            out.append({'stream': f'whole-entry:fails:{name}:{op}:retry3', 'op': 'seq', 'ctx': {'d': list(ctx0)},
                        'ops': [{'op': op, 'add': inc, 'swallow': True}, {'op': op, 'add': inc, 'swallow': True},
                                {'op': op, 'add': inc, 'swallow': True}, {'op': 'merge', 'add': D(['done', '{seen}'])}]})
    # set_defaults: the entries before a failing default are added, the rest not; again after the value arrived
    dfail = D(['d1', 'one'], ['job', D(['steps', ['never']], ['extra', ['e', '{release_tag}']], ['extra2', 2])],
              ['d2', ['a', '{release_tag}']], ['d3', 3])
    for op in ('defaults', 'step-default'):
        out.append({'stream': f'whole-entry:fails:defaults:{op}', 'op': 'seq', 'ctx': {'d': list(ctx0)},
                    'ops': [{'op': op, 'add': dfail}]})
        out.append({'stream': f'whole-entry:fails:defaults:{op}:again', 'op': 'seq', 'ctx': {'d': list(ctx0)},
                    'ops': [{'op': op, 'add': dfail, 'swallow': True}, {'op': 'merge', 'add': supply},
                            {'op': op, 'add': dfail}, {'op': 'merge', 'add': D(['d2', ['more']])}]})
    return out


def inert_default_cases():
    """A default for a path that EXISTS is of no consequence: it is not evaluated. Existing paths (top level, child
    of an existing mapping, existing scalar / None / falsy value where the default is a whole mapping, existing
    list) x defaults whose evaluation is not inert: (a) cannot be formatted now ('{base_dir}/out', !py NameError, a
    failing member inside a default list / mapping), (b) has a side effect (!py free_ports.pop() on a mutable
    context list: arbitrary Python, no model side). The missing defaults next to them are still added - once,
    evaluated once."""
    out = []
    POP = {'pysrc': 'free_ports.pop()'}
    base = [['out_dir', '/srv/given'], ['db', D(['url', 'postgres://given/db'])], ['none', None], ['empty', ''],
            ['zero', 0], ['false', False], ['elist', []], ['edict', D()], ['lst', ['l0']], ['port', 8080],
            ['free_ports', [9001, 9002, 9003]], ['who', 'world']]
    bad = {
        'str': '{base_dir}/out', 'py': {'py': {'n': 'base_dir'}}, 'list': ['a', '{base_dir}'],
        'map': D(['url', 'postgres://{db_host}/db'], ['pool', 5]), 'jsonify': {'jsonify': ['{base_dir}']},
        'tuple': T('{base_dir}'), 'pop': POP, 'pop-in-list': [POP, POP], 'pop-in-map': D(['p', POP]),
    }
    existing = ['out_dir', 'none', 'empty', 'zero', 'false', 'elist', 'edict', 'lst', 'port']
    n = 0
    for bname, b in bad.items():
        for ek in existing:
            if ek == 'edict' and bname in ('map', 'pop-in-map'):
                continue                                   # mapping x mapping descends: the children ARE missing
            for op in ('defaults', 'step-default'):
                n += 1
                add = D(['first', 'f {who}'], [ek, b], ['retries', 3], ['label', 'writes to {out_dir}'])
                case = {'stream': f'inert-default:{bname}:{ek}:{op}', 'ruamel': n % 3 == 0}
                if op == 'defaults' and n % 2:
                    case.update(op='defaults', ctx={'d': list(base)}, add=add)
                else:
                    case.update(op='seq', ctx={'d': list(base)}, ops=[{'op': op, 'add': add}])
                out.append(case)
    # one level down: the parent mapping exists, one child is given, one is missing
    for bname, b in bad.items():
        for op in ('defaults', 'step-default'):
            add = D(['db', D(['url', b], ['pool', 5])], ['retries', 3])
            out.append({'stream': f'inert-default:nested:{bname}:{op}', 'op': 'seq', 'ctx': {'d': list(base)},
                        'ops': [{'op': op, 'add': add}, {'op': 'merge', 'add': D(['db', D(['pool', 6])])},
                                {'op': op, 'add': add}]})
    # key expressions that land on an existing path
    out.append({'stream': 'inert-default:key-expr', 'op': 'defaults',
                'ctx': {'d': list(base) + [['kk', 'out_dir']]},
                'add': D(['{kk}', '{base_dir}/out'], ['retries', 3])})
    # side-effecting defaults that ARE needed: evaluated exactly once, wherever they sit
    for name, add in (('missing-top', D(['port2', POP], ['host', 'localhost'])),
                      ('missing-nested', D(['server', D(['port', POP], ['host', 'localhost'])])),
                      ('missing-in-list', D(['ports', [POP, 'x', POP]])),
                      ('existing-parent', D(['db', D(['url', 'no'], ['port', POP])])),
                      ('existing-and-missing', D(['port', POP], ['port2', POP], ['db', D(['url', POP], ['p', POP])]))):
        for op in ('defaults', 'step-default', 'merge', 'step-merge'):
            out.append({'stream': f'inert-default:side-effect:{name}:{op}', 'op': 'seq', 'ctx': {'d': list(base)},
                        'ops': [{'op': op, 'add': add}]})
    return out


ACC_INITS = {
    'elist': [], 'edict': D(), 'eset': S(), 'etuple': T(), 'estr': '', 'zero': 0, 'none': None, 'false': False,
    'ebytes': {'b': ''}, 'list1': ['x{name}'], 'dict1': D(['a', 1], ['e', D()], ['l', []]), 'set1': S('m'),
    'tuple1': T(1),
}


def grow_of(init, variant=0):
    """An incoming value of the same mergeable kind as `init` that grows it (list: extend, mapping: recurse /
    add keys, set: union, tuple: concatenate); for a scalar initialiser a list (kind clash: overwrite)."""
    if isinstance(init, list):
        return ['r-{name}', D(['k', '{name}'])] if variant % 2 == 0 else ['second']
    if isinstance(init, dict) and 'd' in init:
        return D(['a', 2], ['b', D(['c', '{name}'])], ['e', D(['deep', 1])], ['l', ['{name}']])
    if isinstance(init, dict) and 'set' in init:
        return S('m2', 5)
    if isinstance(init, dict) and 't' in init:
        return T('t', '{name}')
    return ['x']


def sequence_cases():
    """Accumulator initialisation followed by growth: op#0 stores an (empty or small) list / mapping / set / tuple
    / scalar for a path, op#1 and op#2 name the same path with a value of the same kind. Every incoming mapping
    must read afterwards as it did before it was merged in (and op#2's growth must not reach op#1's mapping)."""
    out = []
    v = 0
    ops1 = ('merge', 'defaults', 'step-merge', 'step-default')
    for depth in (1, 2, 3):
        for iname, init in ACC_INITS.items():
            for first in ops1:
                for second in ops1:
                    for has_path in ((False,) if depth == 1 else (False, True)):
                        v += 1
                        sib_ctx = [['name', 'job1'], ['keep', [1, [2]]], ['other', D(['x', None])]]
                        ctx = {'d': list(sib_ctx)}
                        if has_path:
                            ctx['d'] += nest(depth, 'pre', 'existing', [])['d'][:1]
                        init2 = ACC_INITS[list(ACC_INITS)[(v * 7) % len(ACC_INITS)]]
                        add1 = nest(depth, 'acc', init, [['acc2', init2], ['tag', '{name}']])
                        add2 = nest(depth, 'acc', grow_of(init, v), [['acc2', grow_of(init2, v + 1)]])
                        add3 = nest(depth, 'acc', grow_of(init, v + 1), [['acc2', grow_of(init2, v)], ['late', []]])
                        third = ops1[v % 2 * 2]          # merge or step-merge
                        out.append({'stream': f'seq:acc:d{depth}:{iname}:{first}>{second}>{third}', 'op': 'seq',
                                    'ctx': ctx, 'ruamel': v % 3 == 0,
                                    'ops': [{'op': first, 'add': add1}, {'op': second, 'add': add2},
                                            {'op': third, 'add': add3}]})
    # the demo shape: plain accumulators at the top level
    out.append({'stream': 'seq:acc:demo', 'op': 'seq', 'ctx': D(['name', 'job1']), 'ops': [
        {'op': 'merge', 'add': D(['results', []], ['cfg', D()], ['nested', D(['log', []])], ['tag', '{name}'])},
        {'op': 'merge', 'add': D(['results', ['r-{name}']], ['cfg', D(['a', 1])], ['nested', D(['log', ['l1']])])}]})
    # nothing is remembered between operations: the same key / value expression in a later operation is resolved
    # against the context as it is THEN (the key it refers to was rebound by the operation in between)
    for a, b, c in (('merge', 'merge', 'merge'), ('step-merge', 'merge', 'step-merge'), ('merge', 'step-merge', 'merge'),
                    ('defaults', 'merge', 'defaults'), ('step-default', 'merge', 'step-default'),
                    ('merge', 'defaults', 'step-merge')):
        for ruamel in (False, True):
            ctx = D(['kk', 'u1'], ['u1', 'old1'], ['sec', 'build'], ['log', D(['build', ['b0']], ['deploy', ['d0']])])
            rebind = D(['kk', 'u2'], ['sec', 'deploy']) if b != 'defaults' else D(['kk2', 'u2'])
            kx = '{kk}' if b != 'defaults' else '{kk2}'
            out.append({'stream': f'seq:rebind:{a}>{b}>{c}', 'op': 'seq', 'ctx': ctx, 'ruamel': ruamel, 'ops': [
                {'op': a, 'add': D(['{kk}', 'first'], ['v1', 'see {kk}'], ['log', D(['{sec}', ['{sec} one']])])},
                {'op': b, 'add': rebind},
                {'op': c, 'add': D([kx, 'second'], ['v2', 'see ' + kx], ['log', D(['{sec}', ['{sec} two']])],
                                   ['{kk}x', D(['{kk}', 1])])}]})
    out.append({'stream': 'seq:acc:demo-defaults', 'op': 'seq', 'ctx': D(['opts', D(['verbose', True])]), 'ops': [
        {'op': 'defaults', 'add': D(['errors', []], ['opts', D(['flags', []], ['env', D()])])},
        {'op': 'merge', 'add': D(['errors', ['boom']], ['opts', D(['flags', ['-x']], ['env', D(['A', 'b'])])])}]})
    return out


def format_once_cases():
    """Each incoming key and value is formatted ONCE, entry by entry, against the context as merged so far — by
    Context.merge / set_defaults and by the two steps alike: values whose formatted result still holds braces
    (escaped {{ }}, a flat :ff expression over a braces-holding string, !sic), entries that refer to a key an
    EARLIER entry of the same mapping writes (value, key, nested key)."""
    out = []
    base = [['who', 'World'], ['snippet', 'echo {who}'], ['templates', ['t0']], ['env', 'dev'], ['region', 'eu'],
            ['target', 'slot_a'], ['slot_a', 'keep A'], ['slot_b', 'old B'], ['section', 'build'],
            ['log', D(['build', ['b0']], ['deploy', ['d0']])], ['keepme', 'untouched']]
    incomings = {
        'escaped': D(['greeting', 'Hello {{who}}'], ['plain', 'Hello {who}'], ['jsonish', '{{"k": "v"}}'],
                     ['templates', ['{{who}} was here', '{{{{who}}}}']], ['deep', D(['g', '{{who}}'], ['l', ['{{who}}']])]),
        'flat': D(['script', '{snippet:ff}'], ['twice', '{snippet}'], ['l', ['{snippet:ff}', 'x {snippet:ff}']]),
        'sic': D(['raw', {'sic': '{who}'}], ['l', [{'sic': 'a {who}'}]], ['j', {'jsonify': D(['k', '{{who}}'])}]),
        'key-escaped': D(['{{who}}', 1], ['k{{who}}', D(['{{who}}', '{{who}}'])]),
        'earlier-value': D(['env', 'prod'], ['url', 'https://{env}.{region}.example.com'], ['l', ['{env}']]),
        'earlier-key': D(['target', 'slot_b'], ['{target}', 'written']),
        'earlier-nested-key': D(['section', 'deploy'], ['log', D(['{section}', ['{section} started']])]),
        'earlier-new-key': D(['fresh', 'who'], ['got', '{fresh}'], ['{fresh}', 'rebound'], ['after', '{who}']),
    }
    for name, inc in incomings.items():
        for op in ('merge', 'defaults'):
            for ruamel in (False, True):
                out.append({'stream': f'fmt-once:{name}:{op}', 'op': op, 'ctx': {'d': list(base)}, 'add': inc,
                            'ruamel': ruamel})
        for op, key in STEP_KEY.items():
            for ruamel in (False, True):
                out.append({'stream': f'fmt-once:{name}:{op}', 'op': op, 'ctx': {'d': list(base) + [[key, inc]]},
                            'ruamel': ruamel})
                out.append({'stream': f'fmt-once:{name}:seq:{op}', 'op': 'seq', 'ctx': {'d': list(base)},
                            'ruamel': ruamel, 'ops': [{'op': op, 'add': inc}, {'op': op, 'add': inc}]})
    return out


CLASS_PAYLOAD = {
    # kind: (existing, incoming, empty) — the incoming one has an expression and, for sets, a member already present
    'list': (['old0', 1], ['new0', '{e}', D(['k', '{e}'])], []),
    'tuple': (T('old0', 1), T('new0', '{e}'), T()),
    'set': (S('old0', 1), S('new0', 'old0', '{e}'), S()),
    'dict': (D(['m1', 'old-m1'], ['m2', D(['deep', 1])], ['keep', [1]]),
             D(['m1', 'new-{e}'], ['m3', '{e}'], ['m2', D(['deep2', '{e}'])], ['keep', ['{e}']]), D()),
}


def class_cases():
    """`are_all_this_type` is isinstance: every combination of the numbered classes of one kind on BOTH sides
    (set: set / frozenset / MySet; tuple: tuple / MyTuple; list: list / CommentedSeq / MyList; dict: dict /
    CommentedMap / OrderedDict / MyDict) takes the mergeable branch — with both sides non-empty, the existing one
    empty, the incoming one empty (CPython's tuple shortcut, empty-frozenset singleton); kinds that differ stay
    an overwrite whatever the classes."""
    out = []
    n = 0
    for kind, tags in CLS_TAGS.items():
        old, new, empty = CLASS_PAYLOAD[kind]
        for to in tags:
            for tn in tags:
                for variant, (o, v) in (('both', (old, new)), ('old-empty', (empty, new)), ('new-empty', (old, empty))):
                    for op, depth in (('merge', 1), ('merge', 2), ('defaults', 1), ('step-merge', 1)):
                        if (variant != 'both' and (op, depth) != ('merge', 1)) or (op == 'defaults' and kind != 'dict' and to != tn):
                            continue
                        n += 1
                        sib = [['sib', [1, [2]]], ['sib-none', None]]
                        ctx = nest(depth, 't', K(to, o), sib)
                        ctx['d'] += [['e', 'E']]
                        add = nest(depth, 't', K(tn, v), [['sib-new', 'added {e}']])
                        if n % 4 == 0:
                            add = K(CLS_TAGS['dict'][n // 4 % 4], add)        # the incoming mapping itself a subclass
                        case = {'stream': f'classes:{op}:{kind}:{to}x{tn}:{variant}:d{depth}', 'ruamel': n % 5 == 0}
                        if op == 'step-merge':
                            case.update(op='seq', ctx=ctx, ops=[{'op': op, 'add': add}])
                        else:
                            case.update(op=op, ctx=ctx, add=add)
                        out.append(case)
    # kinds differ: overwrite with the formatted value, whatever the classes
    clash = [(K(1, S('a')), K(3, T('b', '{e}'))), (K(3, ['a']), K(3, T('b'))), (K(3, T('a')), K(2, ['b', '{e}'])),
             (K(3, D(['a', 1])), K(3, ['b'])), (K(3, S('a')), K(4, D(['b', '{e}']))), (K(1, S('a')), K(2, ['{e}'])),
             (K(2, D(['a', 1])), K(1, S('b')))]
    for i, (o, v) in enumerate(clash):
        for op in ('merge', 'defaults'):
            out.append({'stream': f'classes:{op}:clash{i}', 'op': op, 'ctx': D(['t', o], ['e', 'E'], ['sib', 1]),
                        'add': D(['t', v], ['new', v])})
    return out


def sprinkle(w, rng, p=0.3):
    """Random class wrappers on the containers at value positions of a wire value (dict keys, set members and the
    payload of special tags stay as they are)."""
    kind = wire_kind(w)
    if kind is None:
        return w
    if kind == 'list':
        inner = [sprinkle(x, rng, p) for x in w]
    elif kind == 'dict':
        inner = {'d': [[k, sprinkle(v, rng, p)] for k, v in w['d']]}
    elif kind == 'tuple':
        inner = {'t': [sprinkle(x, rng, p) for x in w['t']]}
    else:
        inner = w
    if rng.random() < p:
        return {'cls': rng.choice(CLS_TAGS[kind]), 'of': inner}
    return inner


def sprinkle_case(case, rng):
    """class wrappers over a whole case: the values of the context (the root is the Context), every incoming mapping"""
    case['ctx'] = {'d': [[k, sprinkle(v, rng)] for k, v in case['ctx']['d']]}
    if 'add' in case:
        case['add'] = sprinkle(case['add'], rng)
    for o in case.get('ops', []):
        if 'add' in o:
            o['add'] = sprinkle(o['add'], rng)
    case['stream'] += '-classes'
    return case


def alias_cases():
    """Inputs on which the implementation is known to break the property (open known findings)."""
    out = []
    # a '{k:ff}' result is the context object itself; a later item of the same call extends it in place
    out.append(({'stream': 'alias:ff', 'op': 'merge', 'ctx': D(['a', [1]], ['x', 'b']),
                 'add': D(['b', '{a:ff}'], ['{x}', [2]])},
                {'site': 'merge_recurse', 'alias': 'ff-result-extended-in-place'}))
    out.append(({'stream': 'alias:ff-nested', 'op': 'merge',
                 'ctx': D(['a', D(['inner', [1]])], ['x', 'b']),
                 'add': D(['b', '{a:ff}'], ['{x}', D(['inner', [2]], ['more', 1])])},
                {'site': 'merge_recurse', 'alias': 'ff-result-extended-in-place'}))
    # the same through `!py a`: the expression's value IS the context's object
    out.append(({'stream': 'alias:py', 'op': 'merge', 'ctx': D(['a', [1]], ['x', 'b']),
                 'add': D(['b', {'py': {'n': 'a'}}], ['{x}', [2]])},
                {'site': 'merge_recurse', 'alias': 'ff-result-extended-in-place', 'via': '!py name'}))
    # ... stored one level down in itself: the context contains itself afterwards
    out.append(({'stream': 'alias:py-self', 'op': 'merge', 'ctx': D(['e1', D(['c', 'x'])]),
                 'add': D(['e1', D(['c', {'py': {'n': 'e1'}}])])},
                {'site': 'merge_recurse', 'alias': 'ff-result-extended-in-place', 'via': '!py name, self-referential'}))
    # the step hands context[key] itself to merge: naming `key` with a mapping merges it into itself
    out.append(({'stream': 'alias:step-merge-self', 'op': 'step-merge',
                 'ctx': D(['contextMerge', D(['contextMerge', D(['a', 1])])])},
                {'site': 'merge_recurse', 'alias': 'incoming-is-context-value'}))
    out.append(({'stream': 'alias:step-merge-self-existing-key', 'op': 'step-merge',
                 'ctx': D(['contextMerge', D(['a', 0], ['contextMerge', D(['a', 1])])])},
                {'site': 'merge_recurse', 'alias': 'incoming-is-context-value'}))
    out.append(({'stream': 'alias:step-default-self', 'op': 'step-default',
                 'ctx': D(['defaults', D(['defaults', D(['a', 1])])])},
                {'site': 'defaults_recurse', 'alias': 'incoming-is-context-value'}))
    return out


SCALARS = [0, 7, -3, True, False, {'f': [5, 1]}, 2 ** 65]
KEYS = ['a', 'b', 'c', 'dd', 'e1', 'key', 'x_y']


def random_case(rng):
    """Random context tree + incoming tree derived from it (same / different kind / new key at every
    node), with expressions that refer to root keys present before or merged earlier in the call."""
    op = rng.choice(['merge', 'merge', 'defaults', 'step-merge', 'step-default'])
    cur_defaults = [op in ('defaults', 'step-default')]
    obj_n = [0]
    str_keys = []          # root keys whose value is a brace-free string (usable in key expressions)
    any_keys = []          # root keys usable in value expressions (scalars/strings/containers)

    def leaf():
        q = rng.random()
        if q < 0.35:
            return rng.choice(['txt', 'other text', '', 'a{{zq}}'])
        if q < 0.7:
            return rng.choice(SCALARS)
        if q < 0.8:
            return None
        if q < 0.9:
            return {'b': rng.choice(['', '00ff', '7b617d'])}
        obj_n[0] += 1
        return {'o': obj_n[0]}

    def nkey(depth):
        if depth > 0 and rng.random() < 0.15:
            # keys of every hashable kind; 3 % of them with a frozenset (implementation-only cases)
            if rng.random() < 0.03:
                return rng.choice([FS('a', 5), T('b', FS('key'))])
            # (no float keys here: `!jsonify` of a context value holding one is outside the shared jsonDumps model, which
            # does not coerce float keys; float keys are in the directed keys:kinds family)
            return rng.choice([5, -1, None, T(1, 'a'), T('a', T(5, 'b')), T('key', 'x_y'), {'b': '00'}])
        return rng.choice(KEYS)

    def expr_key(k, holders):
        """the (tuple / frozenset) key with its str members that are the value of a holder key replaced by '{holder}'"""
        if isinstance(k, str):
            return '{' + rng.choice(holders[k]) + '}' if k in holders and rng.random() < 0.7 else k
        if isinstance(k, dict) and 'cls' in k:
            return {'cls': k['cls'], 'of': expr_key(k['of'], holders)}
        if isinstance(k, dict) and 't' in k:
            return {'t': [expr_key(x, holders) for x in k['t']]}
        if isinstance(k, dict) and 'set' in k:
            return S(*[expr_key(x, holders) for x in k['set']])
        return k

    def tree(depth, kind=None):
        kind = kind or rng.choice(['mapping', 'mapping', 'list', 'tuple', 'set', 'leaf', 'leaf'])
        if depth <= 0 and kind == 'mapping':
            kind = 'leaf'
        if kind == 'mapping':
            pairs, seen = [], set()
            for _ in range(rng.randint(0, 4)):
                k = nkey(depth)
                if canon(k) in seen:
                    continue
                seen.add(canon(k))
                pairs.append([k, tree(depth - 1)])
            return {'d': pairs}
        if kind == 'list':
            return [tree(depth - 1, rng.choice(['leaf', 'leaf', 'mapping', 'list'])) for _ in range(rng.randint(0, 3))]
        if kind == 'tuple':
            return T(*[tree(0, 'leaf') for _ in range(rng.randint(0, 3))])
        if kind == 'set':
            ms, seen = [], set()
            for _ in range(rng.randint(0, 3)):
                x = rng.choice(['m1', 'm2', 5, -1, None, {'b': '00'}])
                if canon(x) not in seen:
                    seen.add(canon(x))
                    ms.append(x)
            return S(*ms)
        return leaf()

    # root context: string keys
    pairs, seen = [], set()
    for _ in range(rng.randint(1, 6)):
        k = rng.choice(KEYS)
        if k in seen:
            continue
        seen.add(k)
        v = tree(rng.randint(0, 3))
        pairs.append([k, v])
    # a few keys whose value is the NAME of another key, for key expressions
    for name in ('kn1', 'kn2'):
        if rng.random() < 0.6:
            pairs.append([name, rng.choice(KEYS)])
    lit_keys = [name for name in ('lit1', 'lit2') if rng.random() < 0.7]
    for name in lit_keys:
        pairs.append([name, rng.choice(['L-one', 'two words', '7'])])
    if rng.random() < 0.12:
        # a non-str key at the ROOT of the context (invisible to expressions; an incoming container key may name it)
        pairs.append([rng.choice([T(1, 'a'), T('a', T(5, 'b')), T('key', 'x_y'), 5, None]), tree(rng.randint(0, 2))])
    ctx = {'d': pairs}

    bytes_keys = set()     # root keys that hold / ever held bytes

    def scan_root(prs):
        for k, v in prs:
            if not isinstance(k, str):
                continue
            if isinstance(v, dict) and 'b' in strip_cls(v):
                bytes_keys.add(k)
            if isinstance(v, str) and '{' not in v and '}' not in v and k not in str_keys:
                str_keys.append(k)
            if k not in any_keys and not (isinstance(v, dict) and ('b' in v or 'set' in v)):
                any_keys.append(k)

    scan_root(pairs)
    root_exists = {k for k, _ in pairs if isinstance(k, str)}
    containers = {k for k, v in pairs if isinstance(k, str) and isinstance(v, (list, dict))
                  and not (isinstance(v, dict) and ('o' in v or 'f' in v or 'b' in v))}

    def vexpr():
        if not any_keys or rng.random() < 0.1:
            return rng.choice(['{{esc}}', 'plain'])
        k = rng.choice(any_keys)
        if lit_keys and rng.random() < 0.12:
            # formatted ONCE: the result still holds braces naming an existing key and stays as it is (a key no
            # incoming mapping names: a later operation may format the stored text again, e.g. through '{k}')
            return rng.choice(['{{%s}}', 'lit {{%s}} lit', '{{{{%s}}}}', '{{"%s": 1}}']) % rng.choice(lit_keys)
        form = rng.random()
        spec = ''
        if k in str_keys and rng.random() < 0.3:
            # ff on a container would alias it into the context: only on keys no incoming mapping ever names (a
            # swallowed failure may have left another key a container although the mapping that failed rebinds it)
            spec = rng.choice([':ff', ':rf']) if k in lit_keys else ':rf'
        if form < 0.5:
            return '{' + k + spec + '}'
        k2 = rng.choice(str_keys) if str_keys else None
        if k2 is None or k in containers:
            return '{' + k + '}'
        return f'pre {{{k2}}} mid {{{k2}{spec}}}'

    def incoming_for(existing, depth, at_root):
        """Incoming mapping derived from an existing mapping node (wire)."""
        prs, seen = [], set()
        ex_pairs = existing['d'] if isinstance(existing, dict) and 'd' in existing else []
        # (an earlier incoming mapping may have expression keys: never re-used as a name)
        cands = ([k for k, _ in ex_pairs if k not in ('lit1', 'lit2') and not has_expr_str(k)]
                 + [rng.choice(KEYS) for _ in range(2)]
                 + ([nkey(1)] if not at_root or rng.random() < 0.15 else []))
        rng.shuffle(cands)
        for k in cands[:rng.randint(0, 5)]:
            if canon(k) in seen:
                continue
            seen.add(canon(k))
            cur = next((v for kk, v in ex_pairs if canon(kk) == canon(k)), _ABSENT)
            q = rng.random()
            if isinstance(cur, dict) and 'd' in cur and q < 0.6 and depth > 0:
                v = incoming_for(cur, depth - 1, False)
            elif isinstance(cur, list) and q < 0.6:
                v = [rng.choice([vexpr(), leaf()]) for _ in range(rng.randint(0, 3))]
                r2 = rng.random()
                if r2 < 0.3 and at_root and isinstance(k, str) and k in root_exists:
                    # >= 2 members, a LATER one refers to the very list the entry is merged into
                    # (len() of bytes is outside PyEval.lean: no !py len(k) on a key that ever held bytes)
                    lenk = PY_LEN(k) if k not in bytes_keys else '{' + k + '}'
                    v = (v or ['m0']) + [rng.choice(['{' + k + '}', lenk])] + ([lenk] if rng.random() < 0.3 else [])
                elif r2 < 0.42:
                    # ... or cannot be formatted after earlier ones formatted fine
                    v = (v or ['m0']) + [rng.choice(['{nope}', 'x {nope}', {'py': {'n': 'nope'}}, D(['k', '{nope}'])])] \
                        + ['tail'] * rng.randint(0, 1)
            elif isinstance(cur, dict) and 't' in cur and q < 0.6:
                v = T(*[rng.choice([vexpr(), leaf()]) for _ in range(rng.randint(0, 3))])
            elif isinstance(cur, dict) and 'set' in cur and q < 0.6:
                v = S(*{canon(x): x for x in [rng.choice(['m2', 'm3', 5, None]) for _ in range(rng.randint(0, 3))]}.values())
            else:
                r = rng.random()
                if r < 0.35:
                    v = vexpr()
                elif r < 0.45:
                    # !py <name> hands back the context's own object: only names that always hold a string
                    v = rng.choice([{'sic': 'raw {zq}'}, {'py': {'n': rng.choice(lit_keys)}} if lit_keys else {'sic': 's'},
                                    {'jsonify': D(['j', vexpr()])}])
                elif r < 0.6 and depth > 0:
                    v = incoming_for({'d': []}, depth - 1, False)
                else:
                    v = tree(rng.randint(0, 2))
            if cur_defaults[0] and cur is not _ABSENT and rng.random() < 0.3 and not (
                    isinstance(cur, dict) and 'd' in cur and isinstance(v, dict) and 'd' in v):
                # a default for a path that EXISTS (no descent): of no consequence, whatever evaluating it would do
                v = rng.choice(['{nope}/out', ['a', '{nope}'], {'py': {'n': 'nope'}}, {'jsonify': ['{nope}']},
                                T('{nope}')] + ([D(['u', '{nope}'], ['p', 5])] if not (isinstance(cur, dict) and 'd' in cur) else []))
            # key: literally, or as an expression whose value is this key's name
            kk = k
            if isinstance(k, str) and rng.random() < 0.2:
                holders = [h for h, hv in ctx['d'] if hv == k and h in str_keys]
                if holders:
                    kk = '{' + rng.choice(holders) + '}'
            elif isinstance(k, dict) and ('t' in k or 'cls' in k) and rng.random() < 0.6:
                # a container key (tuple / frozenset, nested): its str members as expressions whose value is the member
                hold = {}
                for h, hv in ctx['d']:
                    if isinstance(hv, str) and isinstance(h, str) and h in str_keys:
                        hold.setdefault(hv, []).append(h)
                kk = expr_key(k, hold)
            if canon(kk) in seen and kk != k:
                continue
            seen.add(canon(kk))
            prs.append([kk, v])
            if at_root and isinstance(k, str) and isinstance(v, dict) and 'b' in v:
                bytes_keys.add(k)
            if at_root and isinstance(k, str):
                exists = k in root_exists          # in the context by now (not only in the tree this one is derived from)
                root_exists.add(k)
            if at_root and isinstance(k, str) and not (cur_defaults[0] and exists):
                # merged earlier in this call: later expressions may refer to it (k is the formatted key)
                if isinstance(v, str) and '{' not in v and '}' not in v:
                    if k not in str_keys:
                        str_keys.append(k)
                    if k not in any_keys:
                        any_keys.append(k)
                    containers.discard(k)
                else:
                    if k in str_keys:
                        str_keys.remove(k)
                    if isinstance(v, (list, dict)) and not (isinstance(v, dict) and ('o' in v or 'f' in v)):
                        containers.add(k)
                        if isinstance(v, dict) and ('b' in v or 'set' in v or 'sic' in v or 'py' in v or 'jsonify' in v):
                            if k in any_keys:
                                any_keys.remove(k)
        return {'d': prs}

    add = incoming_for(ctx, 3, True)
    if rng.random() < 0.45:
        # a SEQUENCE of operations on the one context: a later incoming mapping is derived from an earlier one
        # (names the same paths with the same kinds: extends / recurses into what the earlier one stored, e.g.
        # its empty or non-empty accumulators) or from the context
        ops = [{'op': op, 'add': add}]
        prev = add
        for _ in range(rng.randint(1, 3)):
            op2 = rng.choice(['merge', 'merge', 'merge', 'defaults', 'step-merge', 'step-default'])
            cur_defaults[0] = op2 in ('defaults', 'step-default')
            base = prev if rng.random() < 0.7 else ctx
            add2 = incoming_for(base, 3, True)
            ops.append({'op': op2, 'add': add2})
            prev = add2
        for o in ops:
            if rng.random() < 0.5:
                o['swallow'] = True       # a failure of this operation is swallowed: the sequence goes on
        case = {'stream': 'random-seq', 'op': 'seq', 'ruamel': rng.random() < 0.25, 'ctx': ctx, 'ops': ops}
        return sprinkle_case(case, rng) if rng.random() < 0.4 else case
    case = {'stream': 'random', 'op': op, 'ruamel': rng.random() < 0.25}
    if op in STEP_KEY:
        key = STEP_KEY[op]
        ctx = {'d': [p for p in ctx['d'] if p[0] != key] + [[key, add]]}
        case['ctx'] = ctx
    else:
        case['ctx'], case['add'] = ctx, add
    return sprinkle_case(case, rng) if rng.random() < 0.4 else case
