"""C10 helpers: running merge / set_defaults / the two steps on the implementation, monitors written
from the property text (judged on the implementation alone), generators of (context, incoming) pairs.

A case is JSON-able:
  {"stream": s, "op": "merge" | "defaults" | "step-merge" | "step-default",
   "ctx": wire dict, "add": wire value (absent for the step ops: it is ctx[key]), "ruamel": bool}
"""
from __future__ import annotations

from collections.abc import Mapping, Set

from . import common
from .common import canon, Opaque
from .impl_c09 import (Snapshot, canon_wire, deep_equal, enc9, is_special, py_brace_free, stable_repr)

STEP_KEY = {'step-merge': 'contextMerge', 'step-default': 'defaults'}


# ---------------------------------------------------------------------------------------------
# wire -> python
# ---------------------------------------------------------------------------------------------

def dec(w, ruamel=False):
    """common.dec, optionally building ruamel CommentedMap / CommentedSeq for dicts / lists."""
    if not ruamel:
        return common.dec(w)
    from ruamel.yaml.comments import CommentedMap, CommentedSeq
    if isinstance(w, list):
        return CommentedSeq([dec(x, True) for x in w])
    if isinstance(w, dict):
        if 'd' in w:
            return CommentedMap([(dec(k, True), dec(v, True)) for k, v in w['d']])
        if 't' in w:
            return tuple(dec(x, True) for x in w['t'])
        if 'set' in w:
            return {dec(x, True) for x in w['set']}
        if 'jsonify' in w:
            from pypyr.dsl import Jsonify
            return Jsonify(dec(w['jsonify'], True))
    return common.dec(w)


# ---------------------------------------------------------------------------------------------
# monitors
# ---------------------------------------------------------------------------------------------

def is_strlike(v):
    return isinstance(v, str) or is_special(v)


def hashable(x):
    try:
        hash(x)
        return True
    except TypeError:
        return False


class Formatter:
    """Key / value formatting against a frozen copy of a context, using the real formatter
    (formatting itself is C08/C09's subject; here it is a trusted primitive of the monitor)."""

    def __init__(self, snapshot_dict):
        from pypyr.context import Context
        self.ctx = Context(snapshot_dict)

    def __call__(self, v):
        try:
            return True, self.ctx.get_formatted_value(v)
        except Exception:
            return False, None


def named_tree(add, before, fb, fa):
    """Which paths does the incoming mapping name? {formatted key: ('w', v) | ('d', subtree, v) | ('?',)}.
    'w' = written (overwritten / extended / added), 'd' = descended into (mapping x mapping),
    '?' = ambiguous (the key formats differently before and after the call, formatting failed, or two
    incoming keys format to the same key): no claim is made at or below it."""
    out = {}
    for k, v in add.items():
        okb, kb = fb(k)
        oka, ka = fa(k)
        cands = []
        for ok, fk in ((okb, kb), (oka, ka)):
            if ok and hashable(fk) and not any(c is fk or (type(c) is type(fk) and c == fk) for c in cands):
                cands.append(fk)
        if not (okb and oka) or len(cands) != 1:
            for fk in cands:
                out[fk] = ('?',)
            out.setdefault(('<unknown>', id(k)), ('?',))
            continue
        fk = cands[0]
        if fk in out:
            out[fk] = ('?',)
            continue
        cur = before.get(fk, _ABSENT) if isinstance(before, Mapping) else _ABSENT
        if not is_strlike(v) and isinstance(v, Mapping) and isinstance(cur, Mapping):
            out[fk] = ('d', named_tree(v, cur, fb, fa), v)
        else:
            out[fk] = ('w', v)
    return out


_ABSENT = object()


def has_unknown(nt):
    return any(isinstance(k, tuple) and len(k) == 2 and k[0] == '<unknown>' for k in nt)


def frame_monitor(before_copy, live_ids, after, nt, path, fails, identity=True):
    """Every path of the old context that the incoming tree does not name keeps its value and identity."""
    if has_unknown(nt):
        return
    for key, oldv in before_copy.items():
        p = path + [key]
        ent = nt.get(key)
        if ent is None:
            if key not in after:
                fails.append(('frame', f'{fmt_path(p)} disappeared although the incoming mapping does not name it'))
                continue
            newv = after[key]
            if not deep_equal(newv, oldv):
                fails.append(('frame', f'{fmt_path(p)} is not named by the incoming mapping but changed from '
                                       f'{stable_repr(oldv)[:120]} to {stable_repr(newv)[:120]}'))
            elif identity and live_ids.get(tuple(map(path_key, p))) not in (None, id(newv)):
                fails.append(('frame-identity', f'{fmt_path(p)} is not named by the incoming mapping but is now '
                                                f'a different object'))
        elif ent[0] == 'd' and isinstance(oldv, Mapping) and isinstance(after.get(key), Mapping):
            frame_monitor(oldv, live_ids, after[key], ent[1], p, fails, identity)


def path_key(k):
    return stable_repr(k)


def fmt_path(p):
    return 'context' + ''.join(f'[{k!r}]' for k in p)


def live_id_map(o, path=(), out=None):
    """path -> id(object) for every value reachable through mappings (objects kept alive by `keep`)."""
    out = {} if out is None else out
    if isinstance(o, Mapping):
        for k, v in o.items():
            p = path + (path_key(k),)
            out[p] = id(v)
            live_id_map(v, p, out)
    return out


def keep_alive(o, acc):
    acc.append(o)
    if isinstance(o, Mapping):
        for v in o.values():
            keep_alive(v, acc)
    return acc


def table_monitor(before_copy, after, nt, path, fails, fb, fa):
    """Per incoming node: strings/scalars overwrite, mappings merge recursively, lists/tuples/sets are
    extended with the formatted incoming members after the existing ones (merge only)."""
    if has_unknown(nt):
        return
    for fk, ent in nt.items():
        p = path + [fk]
        if ent[0] == '?':
            continue
        if fk not in after:
            fails.append(('table', f'{fmt_path(p)} is named by the incoming mapping but missing afterwards'))
            continue
        new = after[fk]
        old = before_copy.get(fk, _ABSENT) if isinstance(before_copy, Mapping) else _ABSENT
        if ent[0] == 'd':
            if not isinstance(new, Mapping):
                fails.append(('table', f'{fmt_path(p)}: mapping merged into mapping is no longer a mapping'))
            else:
                table_monitor(old, new, ent[1], p, fails, fb, fa)
            continue
        v = ent[1]
        bf = py_brace_free(v)
        if bf:
            stable, fv = True, v
        else:
            # a claim about a value with expressions is made only when it formats to the same thing
            # against the context before and after the call (then also at the moment it was merged)
            (okb, fvb), (oka, fva) = fb(v), fa(v)
            stable, fv = okb and oka and deep_equal(fvb, fva), fva
        if isinstance(v, (bytes, bytearray)):
            if new is not v:
                fails.append(('table', f'{fmt_path(p)}: incoming bytes must overwrite as the same object'))
        elif is_strlike(v) or old is _ABSENT or not same_mergeable_kind(old, v):
            # overwrite with the formatted incoming value
            if stable and not deep_equal(new, fv):
                fails.append(('table', f'{fmt_path(p)}: incoming {stable_repr(v)[:80]} must overwrite with its '
                                       f'formatted value {stable_repr(fv)[:80]}, found {stable_repr(new)[:80]}'))
        elif isinstance(v, (list, tuple)):
            n = len(old)
            if type(new) is not type(old) or len(new) != n + len(v) or not deep_equal(type(old)(new[:n]), old):
                fails.append(('table-extend', f'{fmt_path(p)}: existing members must come first and stay: old '
                                              f'{stable_repr(old)[:80]}, new {stable_repr(new)[:80]}'))
            elif stable and not deep_equal(type(fv)(new[n:]), fv):
                fails.append(('table-extend', f'{fmt_path(p)}: incoming members must follow the existing ones: '
                                              f'{stable_repr(new)[:80]}'))
        elif isinstance(v, Set):
            if not (isinstance(new, Set) and all(x in new for x in old)
                    and (not stable or all(x in new for x in fv))
                    and (not stable or len(new) == len(set(old) | set(fv)))):
                fails.append(('table-extend', f'{fmt_path(p)}: set must be the union of old and incoming: '
                                              f'{stable_repr(new)[:80]}'))


def same_mergeable_kind(old, v):
    for t in (Mapping, list, tuple, Set):
        if isinstance(old, t) and isinstance(v, t):
            return True
    return False


def defaults_monitor(before_copy, live_ids, after, nt, path, fails, fa):
    """Setting defaults never changes the value at any existing path (even None) and adds exactly the
    missing ones."""
    # never overwrites
    for key, oldv in before_copy.items():
        p = path + [key]
        if key not in after:
            fails.append(('defaults-overwrite', f'{fmt_path(p)} existed and is gone'))
            continue
        newv = after[key]
        if isinstance(oldv, Mapping):
            if not isinstance(newv, Mapping):
                fails.append(('defaults-overwrite', f'{fmt_path(p)} existed (a mapping) and was replaced by '
                                                    f'{stable_repr(newv)[:80]}'))
                continue
            ent = nt.get(key) if nt is not None else None
            sub = None if nt is None else ent[1] if ent is not None and ent[0] == 'd' else {}
            if ent is not None and ent[0] == '?':
                sub = None
            defaults_monitor(oldv, live_ids, newv, sub, p, fails, fa)
        else:
            if not deep_equal(newv, oldv):
                fails.append(('defaults-overwrite', f'{fmt_path(p)} existed with value {stable_repr(oldv)[:80]} '
                                                    f'and was changed to {stable_repr(newv)[:80]}'))
            elif live_ids.get(tuple(map(path_key, p))) not in (None, id(newv)):
                fails.append(('defaults-identity', f'{fmt_path(p)} existed and is now a different object'))
    if list(after.keys())[:len(before_copy)] != list(before_copy.keys()):
        fails.append(('defaults-overwrite', f'{fmt_path(path)}: existing keys moved or changed'))
    # adds exactly the missing ones (nt None: the named keys are not known, e.g. the call raised)
    if nt is None or has_unknown(nt):
        return
    for key in after:
        if key not in before_copy and key not in nt:
            fails.append(('defaults-extra', f'{fmt_path(path + [key])} was added but the defaults do not name it'))
    for fk, ent in nt.items():
        if ent[0] == '?':
            continue
        if fk not in after:
            fails.append(('defaults-missing', f'{fmt_path(path + [fk])} is named by the defaults, was missing, '
                                              f'and has not been added'))
        elif fk not in before_copy and ent[0] == 'w':
            v = ent[1]
            if py_brace_free(v) and not deep_equal(after[fk], v):
                fails.append(('defaults-missing', f'{fmt_path(path + [fk])}: added value should be '
                                                  f'{stable_repr(v)[:80]}, found {stable_repr(after[fk])[:80]}'))


# ---------------------------------------------------------------------------------------------
# running one case on the implementation
# ---------------------------------------------------------------------------------------------

def run_impl(case):
    """Returns (obs, fails). obs: {"ok": ctx wire} | {"err": name, "msg"}."""
    from pypyr.context import Context
    op = case['op']
    ctx = Context(dec(case['ctx']))
    if op in STEP_KEY:
        key = STEP_KEY[op]
        if case.get('ruamel') and isinstance(ctx.get(key), Mapping):
            ctx[key] = dec(enc9(ctx[key]), True)
        add = ctx.get(key, _ABSENT)
    else:
        add = dec(case['add'], case.get('ruamel', False))
    before_copy = Snapshot(dict(ctx))
    keep = keep_alive(dict(ctx), [])
    live_ids = live_id_map(ctx)
    snap_add = Snapshot(add) if add is not _ABSENT else None
    fb = Formatter(before_copy.copy)
    err = None
    try:
        if op == 'merge':
            ctx.merge(add)
        elif op == 'defaults':
            ctx.set_defaults(add)
        elif op == 'step-merge':
            import pypyr.steps.contextmerge
            pypyr.steps.contextmerge.run_step(ctx)
        elif op == 'step-default':
            import pypyr.steps.default
            pypyr.steps.default.run_step(ctx)
        else:
            raise ValueError(op)
    except RecursionError:
        raise
    except Exception as e:
        err = e
    fails = []
    after = dict(ctx)
    # incoming unmodified
    if snap_add is not None:
        f = snap_add.same(add)
        if f:
            fails.append(('incoming-modified', f'the incoming mapping changed: {f}'))
    if isinstance(add, Mapping):
        fa = Formatter(Snapshot(after).copy)
        nt = named_tree(add, before_copy.copy, fb, fa)
        if op in ('merge', 'step-merge'):
            frame_monitor(before_copy.copy, live_ids, after, nt, [], fails)
            if err is None:
                table_monitor(before_copy.copy, after, nt, [], fails, fb, fa)
        else:
            defaults_monitor(before_copy.copy, live_ids, after, nt if err is None else None, [], fails, fa)
    del keep
    if err is not None:
        return {'err': common.exc_name(err), 'msg': str(err)[:200]}, fails
    try:
        w = canon_wire(enc9(after))
    except Exception:
        w = {'unencodable': repr(after)[:300]}
    return {'ok': w}, fails


# ---------------------------------------------------------------------------------------------
# generators
# ---------------------------------------------------------------------------------------------

EXISTING_KINDS = ['mapping', 'list', 'tuple', 'set', 'str', 'bytes', 'scalar', 'none', 'absent']
INCOMING_KINDS = ['mapping', 'list', 'tuple', 'set', 'str', 'bytes', 'scalar', 'none', 'special']


def D(*pairs):
    return {'d': [list(p) for p in pairs]}


def T(*xs):
    return {'t': list(xs)}


def S(*xs):
    xs = list(xs)
    xs.sort(key=canon)
    return {'set': xs}


def existing_of(kind, variant=0):
    return {
        'mapping': D(['m1', 'old-m1'], ['m2', D(['deep', 1])], ['keep', [1, 2]]),
        'list': ['old0', 1, D(['in', 'list'])],
        'tuple': T('old0', 1),
        'set': S('old0', 1),
        'str': 'old string',
        'bytes': {'b': '6f6c64'},
        'scalar': [7, True, {'f': [5, 1]}, {'o': 3}][variant % 4],
        'none': None,
    }[kind]


def incoming_of(kind, expr, variant=0):
    """expr: include a formatting expression referring to key 'e' (merged earlier in the same call)."""
    e = '{e}' if expr else 'lit'
    return {
        'mapping': D(['m1', 'new-' + e], ['m3', e], ['m2', D(['deep2', e])]),
        'list': ['new0', e, D(['k', e])],
        'tuple': T('new0', e),
        'set': S('new0', e),
        'str': 'new ' + e,
        'bytes': {'b': '6e6577'},
        'scalar': [8, False, {'f': [-3, 2]}, {'o': 4}][variant % 4],
        'none': None,
        'special': [{'sic': 'sic {e}'}, {'py': {'n': 'e'}}, {'jsonify': D(['j', e])}][variant % 3],
    }[kind]


def nest(depth, inner_key, value, siblings):
    """{'n1': {'n2': {inner_key: value, **siblings}}} with `depth-1` wrapping levels."""
    pairs = ([[inner_key, value]] if value is not _ABSENT else []) + siblings
    node = {'d': pairs}
    for lvl in range(depth - 1, 0, -1):
        node = {'d': [[f'n{lvl}', node], [f'side{lvl}', f'side value {lvl}']]}
    return node


def directed_cases():
    out = []
    v = 0
    for op in ('merge', 'defaults'):
        for depth in (1, 2, 3):
            for ek in EXISTING_KINDS:
                for ik in INCOMING_KINDS:
                    for mode in ('plain', 'value-expr', 'key-expr', 'both'):
                        v += 1
                        expr = mode in ('value-expr', 'both')
                        keyexpr = mode in ('key-expr', 'both')
                        ex = _ABSENT if ek == 'absent' else existing_of(ek, v)
                        inc = incoming_of(ik, expr, v)
                        sib_ctx = [['sib-str', 'unchanged'], ['sib-list', [1, [2]]], ['sib-none', None],
                                   ['sib-map', D(['a', 1], ['b', D(['c', T(1, 2)])])], ['sib-obj', {'o': 9}]]
                        ctx = nest(depth, 't', ex, sib_ctx)
                        ctx['d'] += [['kk', 't'], ['pre', 'pre-existing']]
                        tkey = '{kk}' if keyexpr else 't'
                        add_inner = nest(depth, tkey, inc, [['sib-new', 'added {pre}']])
                        add = {'d': [['e', 'earlier']] + add_inner['d']}
                        out.append({'stream': f'table:{op}:d{depth}:{ek}x{ik}:{mode}', 'op': op, 'ctx': ctx,
                                    'add': add, 'ruamel': v % 3 == 0})
    # root threading: nested values see what was merged earlier at any level
    out.append({'stream': 'thread:nested-sees-root', 'op': 'merge',
                'ctx': D(['n', D(['x', 'old'])], ['a', 'A']),
                'add': D(['n', D(['a', 1], ['b', '{n}'], ['c', '{a}'])], ['a', 'A2'], ['z', '{n}'])})
    out.append({'stream': 'thread:key-from-earlier', 'op': 'merge',
                'ctx': D(['x', 'b'], ['b', [1]]),
                'add': D(['name', 'b'], ['{name}', [2]], ['{x}', [3]], ['c', '{b}'])})
    out.append({'stream': 'thread:defaults-sees-added', 'op': 'defaults',
                'ctx': D(['n', D(['x', None])], ['a', None]),
                'add': D(['a', 'no'], ['b', 'B'], ['n', D(['x', 'no'], ['y', '{b}'], ['z', '{n}'])], ['c', '{n}'])})
    out.append({'stream': 'keys:duplicate-formatted', 'op': 'merge',
                'ctx': D(['x', 'b'], ['b', 'old']),
                'add': D(['b', 'first'], ['{x}', 'second'])})
    out.append({'stream': 'keys:non-string', 'op': 'merge',
                'ctx': D(['n', D([5, 'five'], [None, 'none'], [T(1, 'a'), 'tup'])], ['five', 5]),
                'add': D(['n', D([5, 'FIVE'], [T(1, 'a'), [1]], [6, 'six'])], ['{five}', 'root int key'])})
    out.append({'stream': 'keys:unhashable', 'op': 'merge', 'ctx': D(['l', [1]]), 'add': D(['{l}', 1])})
    out.append({'stream': 'keys:unhashable-defaults', 'op': 'defaults', 'ctx': D(['l', [1]]), 'add': D(['{l}', 1])})
    out.append({'stream': 'err:missing-ref', 'op': 'merge', 'ctx': D(['a', 1]),
                'add': D(['b', 'fine'], ['c', '{nope}'], ['d', 'never'])})
    out.append({'stream': 'err:missing-key-ref', 'op': 'defaults', 'ctx': D(['a', 1]),
                'add': D(['b', 'fine'], ['{nope}', 1])})
    for bad in ([1, 2], 'text', 5, None, T(1), S(1)):
        out.append({'stream': 'err:not-a-mapping', 'op': 'merge', 'ctx': D(['a', 1]), 'add': bad})
        out.append({'stream': 'err:not-a-mapping', 'op': 'defaults', 'ctx': D(['a', 1]), 'add': bad})
    # the steps
    for op, key in STEP_KEY.items():
        base = [['key1', 'value1'], ['key2', 'value2'], ['key3', D(['k31', 'value31'], ['k32', 'value32'])],
                ['none', None]]
        inc = D(['key2', 'aaa_{key1}_zzz'], ['key3', D(['k33', 'value33'])], ['key4', 'bbb_{key2}_yyy'],
                ['none', 'x'])
        out.append({'stream': f'step:{op}:docstring', 'op': op, 'ctx': {'d': base + [[key, inc]]}})
        out.append({'stream': f'step:{op}:ruamel', 'op': op, 'ctx': {'d': base + [[key, inc]]}, 'ruamel': True})
        out.append({'stream': f'step:{op}:absent', 'op': op, 'ctx': {'d': base}})
        out.append({'stream': f'step:{op}:none', 'op': op, 'ctx': {'d': base + [[key, None]]}})
        for bad in ([1], 'text', 5, False, T(1)):
            out.append({'stream': f'step:{op}:not-a-mapping', 'op': op, 'ctx': {'d': base + [[key, bad]]}})
        out.append({'stream': f'step:{op}:empty', 'op': op, 'ctx': {'d': base + [[key, D()]]}})
        for repl in (5, 'text', None, [1], {'sic': 's'}):
            out.append({'stream': f'step:{op}:names-own-key', 'op': op,
                        'ctx': {'d': base + [[key, D(['a', 1], [key, repl])]]}})
    return out


def alias_cases():
    """Inputs on which the implementation is known to break the property (open known findings)."""
    out = []
    # a '{k:ff}' result is the context object itself; a later item of the same call extends it in place
    out.append(({'stream': 'alias:ff', 'op': 'merge', 'ctx': D(['a', [1]], ['x', 'b']),
                 'add': D(['b', '{a:ff}'], ['{x}', [2]])},
                {'site': 'merge_recurse', 'alias': 'ff-result-extended-in-place'}))
    out.append(({'stream': 'alias:ff-nested', 'op': 'merge',
                 'ctx': D(['a', D(['inner', [1]])], ['x', 'b']),
                 'add': D(['b', '{a:ff}'], ['{x}', D(['inner', [2]], ['more', 1])])},
                {'site': 'merge_recurse', 'alias': 'ff-result-extended-in-place'}))
    # the step hands context[key] itself to merge: naming `key` with a mapping merges it into itself
    out.append(({'stream': 'alias:step-merge-self', 'op': 'step-merge',
                 'ctx': D(['contextMerge', D(['contextMerge', D(['a', 1])])])},
                {'site': 'merge_recurse', 'alias': 'incoming-is-context-value'}))
    out.append(({'stream': 'alias:step-merge-self-existing-key', 'op': 'step-merge',
                 'ctx': D(['contextMerge', D(['a', 0], ['contextMerge', D(['a', 1])])])},
                {'site': 'merge_recurse', 'alias': 'incoming-is-context-value'}))
    out.append(({'stream': 'alias:step-default-self', 'op': 'step-default',
                 'ctx': D(['defaults', D(['defaults', D(['a', 1])])])},
                {'site': 'defaults_recurse', 'alias': 'incoming-is-context-value'}))
    return out


SCALARS = [0, 7, -3, True, False, {'f': [5, 1]}, 2 ** 65]
KEYS = ['a', 'b', 'c', 'dd', 'e1', 'key', 'x_y']


def random_case(rng):
    """Random context tree + incoming tree derived from it (same / different kind / new key at every
    node), with expressions that refer to root keys present before or merged earlier in the call."""
    op = rng.choice(['merge', 'merge', 'defaults', 'step-merge', 'step-default'])
    is_defaults = op in ('defaults', 'step-default')
    obj_n = [0]
    str_keys = []          # root keys whose value is a brace-free string (usable in key expressions)
    any_keys = []          # root keys usable in value expressions (scalars/strings/containers)

    def leaf():
        q = rng.random()
        if q < 0.35:
            return rng.choice(['txt', 'other text', '', 'a{{zq}}'])
        if q < 0.7:
            return rng.choice(SCALARS)
        if q < 0.8:
            return None
        if q < 0.9:
            return {'b': rng.choice(['', '00ff', '7b617d'])}
        obj_n[0] += 1
        return {'o': obj_n[0]}

    def nkey(depth):
        if depth > 0 and rng.random() < 0.15:
            return rng.choice([5, -1, None, T(1, 'a')])
        return rng.choice(KEYS)

    def tree(depth, kind=None):
        kind = kind or rng.choice(['mapping', 'mapping', 'list', 'tuple', 'set', 'leaf', 'leaf'])
        if depth <= 0 and kind == 'mapping':
            kind = 'leaf'
        if kind == 'mapping':
            pairs, seen = [], set()
            for _ in range(rng.randint(0, 4)):
                k = nkey(depth)
                if canon(k) in seen:
                    continue
                seen.add(canon(k))
                pairs.append([k, tree(depth - 1)])
            return {'d': pairs}
        if kind == 'list':
            return [tree(depth - 1, rng.choice(['leaf', 'leaf', 'mapping', 'list'])) for _ in range(rng.randint(0, 3))]
        if kind == 'tuple':
            return T(*[tree(0, 'leaf') for _ in range(rng.randint(0, 3))])
        if kind == 'set':
            ms, seen = [], set()
            for _ in range(rng.randint(0, 3)):
                x = rng.choice(['m1', 'm2', 5, -1, None, {'b': '00'}])
                if canon(x) not in seen:
                    seen.add(canon(x))
                    ms.append(x)
            return S(*ms)
        return leaf()

    # root context: string keys
    pairs, seen = [], set()
    for _ in range(rng.randint(1, 6)):
        k = rng.choice(KEYS)
        if k in seen:
            continue
        seen.add(k)
        v = tree(rng.randint(0, 3))
        pairs.append([k, v])
    # a few keys whose value is the NAME of another key, for key expressions
    for name in ('kn1', 'kn2'):
        if rng.random() < 0.6:
            pairs.append([name, rng.choice(KEYS)])
    ctx = {'d': pairs}

    def scan_root(prs):
        for k, v in prs:
            if isinstance(v, str) and '{' not in v and '}' not in v and k not in str_keys:
                str_keys.append(k)
            if k not in any_keys and not (isinstance(v, dict) and ('b' in v or 'set' in v)):
                any_keys.append(k)

    scan_root(pairs)
    containers = {k for k, v in pairs if isinstance(v, (list, dict)) and not (isinstance(v, dict) and ('o' in v or 'f' in v or 'b' in v))}

    def vexpr():
        if not any_keys or rng.random() < 0.1:
            return rng.choice(['{{esc}}', 'plain'])
        k = rng.choice(any_keys)
        form = rng.random()
        spec = ''
        if k in str_keys and rng.random() < 0.3:
            spec = rng.choice([':ff', ':rf'])        # ff on a container would alias it into the context
        if form < 0.5:
            return '{' + k + spec + '}'
        k2 = rng.choice(str_keys) if str_keys else None
        if k2 is None or k in containers:
            return '{' + k + '}'
        return f'pre {{{k2}}} mid {{{k2}{spec}}}'

    def incoming_for(existing, depth, at_root):
        """Incoming mapping derived from an existing mapping node (wire)."""
        prs, seen = [], set()
        ex_pairs = existing['d'] if isinstance(existing, dict) and 'd' in existing else []
        cands = [k for k, _ in ex_pairs] + [rng.choice(KEYS) for _ in range(2)] + ([nkey(1)] if not at_root else [])
        rng.shuffle(cands)
        for k in cands[:rng.randint(0, 5)]:
            if canon(k) in seen:
                continue
            seen.add(canon(k))
            cur = next((v for kk, v in ex_pairs if canon(kk) == canon(k)), _ABSENT)
            q = rng.random()
            if isinstance(cur, dict) and 'd' in cur and q < 0.6 and depth > 0:
                v = incoming_for(cur, depth - 1, False)
            elif isinstance(cur, list) and q < 0.6:
                v = [rng.choice([vexpr(), leaf()]) for _ in range(rng.randint(0, 3))]
            elif isinstance(cur, dict) and 't' in cur and q < 0.6:
                v = T(*[rng.choice([vexpr(), leaf()]) for _ in range(rng.randint(0, 3))])
            elif isinstance(cur, dict) and 'set' in cur and q < 0.6:
                v = S(*{canon(x): x for x in [rng.choice(['m2', 'm3', 5, None]) for _ in range(rng.randint(0, 3))]}.values())
            else:
                r = rng.random()
                if r < 0.35:
                    v = vexpr()
                elif r < 0.45:
                    v = rng.choice([{'sic': 'raw {zq}'}, {'py': {'n': rng.choice(str_keys)}} if str_keys else {'sic': 's'},
                                    {'jsonify': D(['j', vexpr()])}])
                elif r < 0.6 and depth > 0:
                    v = incoming_for({'d': []}, depth - 1, False)
                else:
                    v = tree(rng.randint(0, 2))
            # key: literally, or as an expression whose value is this key's name
            kk = k
            if isinstance(k, str) and rng.random() < 0.2:
                holders = [h for h, hv in ctx['d'] if hv == k and h in str_keys]
                if holders:
                    kk = '{' + rng.choice(holders) + '}'
            if canon(kk) in seen and kk != k:
                continue
            seen.add(canon(kk))
            prs.append([kk, v])
            if at_root and isinstance(k, str) and not (is_defaults and cur is not _ABSENT):
                # merged earlier in this call: later expressions may refer to it (k is the formatted key)
                if isinstance(v, str) and '{' not in v and '}' not in v:
                    if k not in str_keys:
                        str_keys.append(k)
                    if k not in any_keys:
                        any_keys.append(k)
                    containers.discard(k)
                else:
                    if k in str_keys:
                        str_keys.remove(k)
                    if isinstance(v, (list, dict)) and not (isinstance(v, dict) and ('o' in v or 'f' in v)):
                        containers.add(k)
                        if isinstance(v, dict) and ('b' in v or 'set' in v or 'sic' in v or 'py' in v or 'jsonify' in v):
                            if k in any_keys:
                                any_keys.remove(k)
        return {'d': prs}

    add = incoming_for(ctx, 3, True)
    case = {'stream': 'random', 'op': op, 'ruamel': rng.random() < 0.25}
    if op in STEP_KEY:
        key = STEP_KEY[op]
        ctx = {'d': [p for p in ctx['d'] if p[0] != key] + [[key, add]]}
        case['ctx'] = ctx
    else:
        case['ctx'], case['add'] = ctx, add
    return case
