"""Generators of flow programs (wire form) for the C01-C07/C11 correspondences.

Every random choice comes from the `random.Random` handed in. Programs terminate by
construction: loops are bounded (while always has max <= 3, retry has max <= 3 unless the
failure script is finite; the rare unbounded retry around a step that always fails runs out of
fuel in the model and is then not run on the implementation), call/jump/pype targets form a DAG
(a group only reaches higher-numbered groups - the dedicated on_success / on_failure groups may
reach any of them - and a pipeline only deeper children), except for the self-pyping pipelines of
`Gen.self_pype`, whose recursion a counter in the context bounds.

Unusual values are in range on purpose (each with a small probability): group names '' and
expressions that format to '' / [], `groups` given as a string or a number, retry / while `max`
negative, zero, float-like, a numeric or non-numeric string or an expression, negative sleeps, a
list `sleep` (also empty) with every back-off strategy, back-off names through expressions, unknown
and dotted ones, a `base` that is no number, `stopOn` / `retryOn` as a plain string (substring
semantics) or an expression, `in` that is no mapping, KeyError (whose str() quotes), `runErrors`
pre-set to something that is no list, onError / run / skip / swallow expressions that fail to format,
foreach over a string, a tuple, a number.
"""
from __future__ import annotations

import json

D = lambda **kw: {'d': [[k, v] for k, v in kw.items()]}  # noqa: E731


def P(tag, **kw):
    d = {'tag': tag}
    d.update(kw)
    return {'d': [[k, v] for k, v in d.items()]}


# equivalent ways of writing one pipeline document (harness/flow_impl.render_pipe)
LAYOUTS = [
    None,
    {'style': 'wrap'},                                            # {steps: [{name: ..}, ..], ..} on line 1
    {'style': 'wrap', 'quote': True},                             # compact JSON on line 1
    {'style': 'flow'},                                            # steps: [{..}, {..}]   first group on line 1
    {'style': 'flow', 'perline': 'rest', 'pad': 8},               # first step on the key's line, rest below
    {'style': 'flow', 'perline': True, 'pad': 2, 'quote': True},
    {'style': 'wrap', 'perline': True, 'quote': True, 'pad': 1},  # JSON, one step per line
    {'style': 'wrap', 'perline': 'rest', 'lead': 1},
    {'style': 'block', 'indent': 0},
    {'style': 'block', 'indent': 4, 'lead': 2, 'docstart': True},
    {'style': 'block', 'dashsplit': True},
    {'style': 'flow', 'docstart': True},
    {'style': 'block', 'lead': 3},
    # the same values in other scalar styles: single-quoted / plain / `|-` / `>-` block scalars, anchors with
    # aliases for every repeated text (ruamel delivers anchored and block scalars as str SUBCLASSES), and the
    # decorators of a step pulled in through a merge key from an anchored mapping (`<<: *m1`)
    {'style': 'block', 'scalars': 'single'},
    {'style': 'block', 'anchors': True},
    {'style': 'block', 'scalars': 'literal'},
    {'style': 'block', 'scalars': 'folded', 'anchors': True, 'indent': 4},
    {'style': 'block', 'merge': True},
    {'style': 'flow', 'anchors': True},
    {'style': 'block', 'scalars': 'mixed', 'merge': True, 'anchors': True},
    {'style': 'wrap', 'scalars': 'single', 'perline': True},
    {'style': 'block', 'scalars': 'mixed', 'dashsplit': True},
]


# foreach items: falsy values are items like any other
FOREACH_LISTS = [[1, 2], ['a'], [], [[1], [2, 3]], '{lst}', {'py': {'n': 'lst'}}, [None, 0], '{empty}', ['x', 'y', 'z'],
                 {'d': [['ka', 1], ['kb', 2]]}, ['a', None], [None], [0, ''], [False, 'b'], [[], {'d': []}], [None, 'z'],
                 '{falsy}', ['', False, 0], 'ab', '{tup}', '{k1}',
                 # values Python's == cannot tell apart (a called group's loop leaves an equal `i` of another type)
                 [0, False, {'f': [0, 0]}], [1, True, {'f': [1, 0]}], [True, 1], [{'f': [1, 0]}, 1, 2]]
# iterables that are none: `for i in foreach` raises TypeError (outside run/skip/swallow: not recorded)
FOREACH_BAD = [5, True, {'py': {'c': 3}}, '{n1}', {'f': [3, 1]}]

# group bodies that are no sequence of steps / sequence items that are no steps (yaml slips)
BAD_BODIES = [{'scalar': 42}, {'scalar': 0}, {'scalar': {'f': [3, 1]}}, {'scalar': True}, {'scalar': False},
              {'scalar': 'zq'}, {'scalar': ''}, {'scalar': {'d': [['nomodule_k', 1]]}}, {'scalar': {'d': []}},
              {'scalar': {'d': [[1, 2]]}}, {'scalar': {'py': {'c': 1}}}, {'scalar': {'sic': 'x'}}, None, []]
BAD_ITEMS = [{'item': 1}, {'item': None}, {'item': [1, 2]}, {'item': {'f': [1, 1]}}, {'item': True}, '',
             {'in': [['a', 1]]}, {'name': 5}, {'name': [1]}, {'name': 0, 'in': [['a', 1]]}, {'name': True, 'swallow': True},
             {'name': 7, 'retry': {'bad': [1]}}]

ERR_NAMES = ['ValueError', 'TypeError', 'RuntimeError', 'vprobe.ProbeError', 'vprobe.OtherError', 'KeyError',
             'vprobe.FalsyError', 'built.BuiltError', 'main.MainError',
             # classes declared inside a class / a function / with module __main__ (harness/probe/built.py, main.py)
             'built.Fatal', 'built.Quota', 'MainNested']
# container literals are judged as written (their members - unresolvable expressions, stray braces - are not looked at)
TRUTHY = [True, 'true', 'True', 'TRUE', '1', '1.0', 1, 2, [0], 'tRuE', ['{nokey}'], {'d': [['a', '{']]}, {'sic': 'false'},
          {'f': [1, 0]}, [{'py': {'n': 'nokey'}}]]
FALSY = [False, 'false', 'False', '0', '', 'yes', 0, [], None, ' true', 'no', {'d': []}, {'f': [0, 0]}, 'ignore']


def pyname(n):
    return {'py': {'n': n}}


def pycmp(n, op, c):
    return {'py': {'op': op, 'a': {'n': n}, 'b': {'c': c}}}


class Gen:
    def __init__(self, rng, weights=None):
        self.r = rng
        self.w = {'probe': 10, 'fail': 3, 'stop': 0.6, 'stoppipeline': 0.6, 'stopstepgroup': 0.8, 'call': 2.2,
                  'jump': 0.8, 'switch': 0.8, 'set': 1.0, 'clear': 0.5, 'clearall': 0.2, 'pype': 1.0,
                  'unknown': 0.15, 'baddef': 0.15}
        if weights:
            self.w.update(weights)
        self.tagn = 0

    # ---- small pieces -------------------------------------------------
    def chance(self, p):
        return self.r.random() < p

    def pick(self, xs):
        return xs[self.r.randrange(len(xs))]

    def wpick(self, table):
        tot = sum(w for _, w in table)
        x = self.r.random() * tot
        for k, w in table:
            x -= w
            if x <= 0:
                return k
        return table[-1][0]

    def boolish(self, want=None, dyn=True):
        """A decorator value: literal, truth-rule string, '{flag}' or !py."""
        if want is None:
            want = self.chance(0.7)
        form = self.wpick([('lit', 5), ('fmt', 2 if dyn else 0), ('py', 2 if dyn else 0)])
        if form == 'lit':
            return self.pick(TRUTHY if want else FALSY)
        key = self.pick(['t1', 't2'] if want else ['f1', 'f2'])
        if form == 'fmt':
            return '{' + key + '}'
        return pyname(key) if self.chance(0.5) else pycmp('n1', '==' if want else '!=', 1)

    def tag(self, pipe, group):
        self.tagn += 1
        return f'{pipe}.{group}.{self.tagn}'

    # ---- steps ----------------------------------------------------------
    def probe(self, pipe, group, failing=False, under_retry=False):
        kw = {}
        if self.chance(0.3):
            kw['keys'] = self.r.sample(['i', 'whileCounter', 'retryCounter', 'k1', 'k2', 'n1', 'call', 'flag'],
                                       self.r.randint(1, 3))
        if self.chance(0.25):
            sets = {}
            for _ in range(self.r.randint(1, 2)):
                k = self.pick(['k1', 'k2', 'flag', 'n1', 't1', 'f1', 'i', 'whileCounter', 'retryCounter'])
                sets[k] = self.pick([True, False, 0, 1, 5, 'x', 'true', [1], 'true' if k == 'flag' else 'z', {'f': [1, 0]},
                                     {'f': [2, 0]}, 2, ''])
            kw['set'] = D(**sets)
        if self.chance(0.08):
            kw['del'] = self.r.sample(['k1', 'i', 'whileCounter', 'retryCounter', 'call', 'flag'],
                                      self.r.randint(1, 2))
        if failing:
            name = self.pick(ERR_NAMES)
            mode = self.wpick([('always', 3), ('first', 3), ('script', 2), ('if', 1)])
            if mode == 'always':
                kw['failRest'] = name
            elif mode == 'first':
                kw['fails'] = [name] * self.r.randint(1, 2)
            elif mode == 'script':
                kw['fails'] = [self.pick([None, name, self.pick(ERR_NAMES)]) for _ in range(self.r.randint(1, 4))]
                if self.chance(0.3):
                    kw['failRest'] = name
            else:
                kw['failIf'] = self.pick(['{flag}', pyname('flag'), pycmp('n1', '==', 1), True, 'false'])
            if self.chance(0.3):
                kw['msg'] = self.pick(['bad thing', "it's", 'x {k1} y'])
        return P(self.tag(pipe, group), **kw)

    def decorate(self, st, pipe, kind):
        """Add decorators to a complex step dict in place."""
        r = self.r
        if self.chance(0.25):
            st['run'] = self.boolish()
        if self.chance(0.2):
            st['skip'] = self.boolish(want=self.chance(0.25))
        if self.chance(0.3):
            st['swallow'] = self.boolish(want=self.chance(0.7))
        if self.chance(0.25):
            st['foreach'] = json.loads(json.dumps(self.pick(FOREACH_BAD if self.chance(0.06) else FOREACH_LISTS)))
        if self.chance(0.22):
            w = {}
            if self.chance(0.85):
                w['max'] = self.pick([1, 2, 3, 0, '{two}', 2])
                if self.chance(0.12):
                    w['max'] = self.pick([-1, '{neg}', '{zero}', '2', ' 3 ', {'f': [5, 1]}, True, 'x', '', [2], '-2'])
            if 'max' not in w or self.chance(0.5):
                w['stop'] = self.pick(['{flag}', pyname('flag'), pycmp('whileCounter', '>=', 2), True, False,
                                       pycmp('whileCounter', '==', 1), '{f1}', '{f2}', '{t2}', 'is{flag}', '{raw}', 'no',
                                       '{k1}'])
                w.setdefault('max', self.pick([2, 3]))
            if self.chance(0.3):
                w['sleep'] = self.pick([0, 1, {'f': [1, 1]}, '{two}', 2])
                if self.chance(0.1):
                    w['sleep'] = self.pick([-1, '{neg}', {'f': [-1, 1]}, 'x', '2'])
            if self.chance(0.4):
                w['errorOnMax'] = self.pick([True, False, '{t1}', 'true', '{f2}', '{t2}', 'no', '{raw}'])
            st['while'] = w
        if self.chance(0.25):
            rt = {'max': self.pick([1, 2, 3, '{two}', 3])}
            if self.chance(0.12):
                # negative: one attempt, then `assert is_retry_ok` fails; 0 / absent: unbounded
                mx = self.pick([-1, '{neg}', '-2', {'f': [5, 1]}, '2', True, '{zero}', 0, None, 'x', [1], ''])
                if mx is None:
                    del rt['max']
                else:
                    rt['max'] = mx
            if self.chance(0.5):
                rt['sleep'] = self.pick([0, 1, 2, {'f': [1, 1]}, [1, 2, 3], [4], '{two}'])
                if self.chance(0.12):
                    rt['sleep'] = self.pick([[], -1, '{neg}', [2, -1], {'f': [-1, 1]}, '{empty}', [0]])
            if self.chance(0.5):
                rt['backoff'] = self.pick(['fixed', 'linear', 'exponential', 'jitter', 'linearjitter',
                                           'exponentialjitter'])
                if self.chance(0.12):
                    rt['backoff'] = self.pick(['{bname}', 'nope', 'nomodule.X', 'nomodule.a.X', 'vprobe.Nope', 5, [1],
                                               '', '{n1}', 'Fixed', '{nokey}'])
            if self.chance(0.3):
                rt['sleepMax'] = self.pick([1, 3, {'f': [5, 1]}, 0, 100])
                if self.chance(0.2):
                    # a cap that arrives as text (cli argument, environment): float(text)
                    rt['sleepMax'] = self.pick(['3', '2.5', '{capt}', ' 4 ', 'x', '', '{es}', '0'])
            if self.chance(0.3):
                rt['jrc'] = self.pick([0, {'f': [1, 1]}, 1, {'f': [1, 2]}])
                if self.chance(0.1):
                    rt['jrc'] = self.pick([-1, 2, '{two}'])
            if self.chance(0.2):
                rt['backoffArgs'] = D(base=self.pick([2, 3, 1]))
                if self.chance(0.2):
                    rt['backoffArgs'] = self.pick([D(base='x'), D(base=None), 'abc', [1], 0, D(other=1), D(base={'f': [5, 1]}),
                                                   D(base='{two}'), D()])
            if self.chance(0.25):
                rt['stopOn'] = self.r.sample(ERR_NAMES, r.randint(1, 2))
                if self.chance(0.2):
                    rt['stopOn'] = self.pick(['ValueError', 'xTypeErrorx', 'Error', '{names}', '{sname}', 5, '', [],
                                              'vprobe.ProbeError RuntimeError'])
            if self.chance(0.25):
                rt['retryOn'] = self.r.sample(ERR_NAMES, r.randint(1, 3))
                if self.chance(0.2):
                    rt['retryOn'] = self.pick(['ValueError', 'xTypeErrorx', 'Error', '{names}', '{sname}', 5, '', [],
                                               'vprobe.ProbeError RuntimeError KeyError'])
            st['retry'] = rt
        if self.chance(0.2):
            st['onError'] = self.pick(['plain', D(code=1, note='{k1}'), '{k2}', [1, '{k1}'], 0])
            if self.chance(0.08):
                st['onError'] = self.pick(['{nokey}', D(a='{nokey}'), pyname('nokey')])
        # a decorator expression that fails to format: its error is raised outside the try of
        # run_conditional_decorators (run, skip) or inside its except clause (swallow): never recorded
        if self.chance(0.03):
            st[self.pick(['run', 'skip', 'swallow'])] = self.pick(['{nokey}', pyname('nokey')])
        # a description: formatted once, up front (its own errors propagate; those of the run/skip preview do not)
        if self.chance(0.15):
            st['description'] = self.pick(['plain text', 'step for {k1}', '{k2}', '', 0, ['a', '{k1}'], pyname('k1'),
                                           'uses {i}', 'round {whileCounter}', '{arg1}',
                                           '{nokey}' if self.chance(0.3) else 'fine', D(note='{k1}')])

    def step(self, pipe, group, targets, children, depth):
        kind = self.wpick(list(self.w.items()))
        if kind in ('call', 'jump', 'switch') and not targets:
            kind = 'probe'
        if kind == 'pype' and not children:
            kind = 'probe'
        if kind in ('stop', 'stoppipeline', 'stopstepgroup') and self.chance(0.6):
            return f'pypyr.steps.{kind}'
        if kind == 'unknown':
            return self.pick(['nomodule.x', {'name': 'nomodule.y', 'swallow': True}])
        if kind == 'baddef':
            return self.pick([{'name': None, 'run': True}, {'name': 'vprobe', 'while': {'bad': 'x'}},
                              {'name': 'vprobe', 'retry': {'bad': [1]}},
                              {'name': 'vprobe', 'while': {'sleep': 1}, 'in': [['p', P('nw')]]},
                              {'name': 'vprobe', 'in': None, 'run': None}])
        st = {'name': 'vprobe'}
        ins = []
        if kind in ('probe', 'fail'):
            ins.append(['p', self.probe(pipe, group, failing=(kind == 'fail'))])
        elif kind in ('stop', 'stoppipeline', 'stopstepgroup'):
            st['name'] = f'pypyr.steps.{kind}'
        elif kind in ('call', 'jump'):
            st['name'] = f'pypyr.steps.{kind}'
            ins.append([kind, self.cof_cfg(targets)])
        elif kind == 'switch':
            st['name'] = 'pypyr.steps.switch'
            cases = []
            for _ in range(self.r.randint(1, 3)):
                cases.append(D(case=self.boolish(want=self.chance(0.4)), call=self.cof_cfg(targets)))
            if self.chance(0.4):
                cases.append(D(default=self.cof_cfg(targets)))
            ins.append(['switch', cases])
        elif kind == 'set':
            st['name'] = 'pypyr.steps.set'
            sets = {}
            for _ in range(self.r.randint(1, 3)):
                k = self.pick(['k1', 'k2', 'flag', 'n1', 'lst', 'i', 'whileCounter', 'retryCounter', '{k1}'])
                sets[k] = self.pick([1, 'v', '{k1}', '{k2} and {k1}', [1, '{k1}'], True, 'true', pyname('n1'),
                                     {'sic': '{raw}'}, '{nokey}' if self.chance(0.1) else 'w'])
            ins.append(['set', D(**sets)])
        elif kind == 'clear':
            st['name'] = 'pypyr.steps.contextclear'
            ins.append(['contextClear', self.r.sample(
                ['k1', 'i', 'whileCounter', 'retryCounter', 'call', 'flag', 'runErrors', 'nokey'],
                self.r.randint(1, 3))])
        elif kind == 'clearall':
            st['name'] = 'pypyr.steps.contextclearall'
        elif kind == 'pype':
            st['name'] = 'pypyr.steps.pype'
            ins.append(['pype', self.pype_cfg(children)])
        if self.chance(0.15):
            ins.append([self.pick(['k1', 'arg1', 'flag']), self.pick(['inval', 1, True, '{k2}'])])
        if ins:
            st['in'] = ins
        if self.chance(0.02):
            # `in:` that is no mapping: set_step_input_context itself fails ('' is a no-op)
            st['in'] = {'bad': self.pick(['ab', 5, '', True, 0, {'f': [1, 1]}, 'x'])}
        if self.chance(0.55):
            self.decorate(st, pipe, kind)
        return st

    def cof_cfg(self, targets):
        if self.chance(0.05):
            # a group name that is '' (assert step_group_name), a raw configuration that is falsy (the assert in
            # the finally of invoke_step), expressions that format to those
            return self.pick(['', [], '{es}', '{empty}', [targets[0], ''], D(groups=['', targets[0]]), D(groups='{es}'),
                              D(groups=targets[0], failure=''), D(groups=[targets[0]], success='', failure=targets[-1])])
        gs = self.r.sample(targets, self.r.randint(1, min(2, len(targets))))
        form = self.wpick([('str', 3), ('list', 2), ('dict', 3), ('fmt', 1)])
        if form == 'str':
            return gs[0]
        if form == 'list':
            return gs
        if form == 'fmt':
            # '{gname}' is 'g1'; 'g{n1}' reads a plain key, 'g{i}' / 'g{whileCounter}' the caller's own loop counter
            # (a name that does not exist when the step has no such loop or the counter names no group)
            return self.pick(['{gname}', '{gname}', 'g{n1}', 'g{i}', 'g{whileCounter}', 'g{retryCounter}'])
        d = {'groups': gs if self.chance(0.6) else gs[0]}
        if self.chance(0.4):
            d['success'] = self.pick(targets + ['nogroup'])
        if self.chance(0.5):
            d['failure'] = self.pick(targets + ['nogroup'])
        return D(**d)

    def pype_cfg(self, children):
        d = {'name': self.pick(children + (['nopipe'] if self.chance(0.05) else []))}
        if self.chance(0.4):
            d['args'] = D(a1=self.pick([1, 'x', '{k1}']), k1=self.pick(['childk1', [1]]))
        if self.chance(0.2):
            d['useParentContext'] = self.chance(0.5)
        if self.chance(0.3):
            d['pipeArg'] = self.pick(['a=b c=d', 'FAIL', 'one two'])
        if self.chance(0.15):
            d['skipParse'] = self.chance(0.5)
        if self.chance(0.35):
            d['out'] = self.pick(['k1', ['k1', 'ck'], D(pk='ck', k2='k1'), 'nochildkey'])
        if self.chance(0.35):
            d['raiseError'] = self.chance(0.4)
        if self.chance(0.2):
            d['groups'] = self.pick(['steps', ['steps', 'g1'], ['g1']])
            if self.chance(0.15):
                d['groups'] = self.pick([5, 0, True, '', [], ['steps', ''], D(steps=1, g1=2), {'f': [3, 1]}, '{es}',
                                         '{n1}'])
            if self.chance(0.5):
                d['success'] = 'on_success'
            if self.chance(0.5):
                d['failure'] = 'on_failure'
        return D(**d)

    # ---- pipelines -----------------------------------------------------
    def pipe(self, name, children, depth):
        ngroups = self.r.randint(0, 3)
        custom = [f'g{i+1}' for i in range(ngroups)]
        groups = []
        allg = ['steps'] + custom
        for gi, g in enumerate(allg):
            targets = custom[gi:] if g == 'steps' else custom[gi:]
            targets = [t for t in targets if t != g]
            n = self.r.randint(0 if g != 'steps' else 1, 4)
            groups.append([g, [self.step(name, g, targets, children, depth) for _ in range(n)]])
        for h in ('on_success', 'on_failure'):
            if self.chance(0.5):
                n = self.r.randint(0, 2)
                # the dedicated handlers may call / jump / switch to any custom group and pype any child
                steps = ([self.step(name, h, custom, children, depth) for _ in range(n)]
                         if n or self.chance(0.7) else None)
                groups.append([h, steps])
        # yaml slips: what stands under a group name is no sequence, or a sequence item is no step
        if self.chance(0.12):
            gi = self.r.randrange(len(groups))
            if self.chance(0.5) or not isinstance(groups[gi][1], list):
                groups[gi][1] = json.loads(json.dumps(self.pick(BAD_BODIES)))
            else:
                groups[gi][1].insert(self.r.randint(0, len(groups[gi][1])), json.loads(json.dumps(self.pick(BAD_ITEMS))))
        p = {'name': name, 'groups': groups}
        if self.chance(0.3):
            p['parser'] = self.pick(['vparser', 'pypyr.parser.keyvaluepairs'])
        # the same document written another way (flow style, JSON, other indentation, ...)
        if self.chance(0.35):
            lay = self.pick(LAYOUTS)
            if lay is not None:
                p['layout'] = dict(lay)
        return p

    def self_pype(self, pipe):
        """The pipeline pypes ITSELF: a leading step counts the depth in the (shared or handed-down) context and
        the pype step is skipped once it reaches the bound."""
        bound = self.r.randint(1, 3)
        cfg = {'name': pipe['name']}
        if self.chance(0.4):
            cfg['args'] = D(depth='{depth}', k1='{k1}')          # a context of its own, the counter handed down
            if self.chance(0.5):
                cfg['out'] = 'depth'
        if self.chance(0.3):
            cfg['raiseError'] = self.chance(0.5)
        count = {'name': 'pypyr.steps.set',
                 'in': [['set', D(depth={'py': {'op': '+', 'a': {'n': 'depth'}, 'b': {'c': 1}}})]]}
        again = {'name': 'pypyr.steps.pype', 'in': [['pype', D(**cfg)]], 'skip': pycmp('depth', '>=', bound)}
        if self.chance(0.3):
            again['swallow'] = True
        for g, steps in pipe['groups']:
            if g == 'steps' and isinstance(steps, list):
                steps.insert(0, count)
                steps.insert(self.r.randint(1, len(steps)), again)
                return

    def program(self):
        self.tagn = 0
        nchild = self.wpick([(0, 5), (1, 3), (2, 2)])
        names = ['main'] + [f'child{i+1}' for i in range(nchild)]
        pipes = []
        for i, n in enumerate(names):
            pipes.append(self.pipe(n, names[i + 1:], i))
        run = {'name': 'main'}
        ctx = {'k1': 'v1', 'k2': 'two {k1}', 't1': True, 't2': 'TRUE', 'f1': False, 'f2': 'no', 'n1': 1,
               'two': 2, 'lst': ['l1', 'l2'], 'empty': [], 'flag': False, 'gname': 'g1', 'raw': 'r',
               'falsy': [0, None, ''], 'neg': -1, 'zero': 0, 'es': '', 'bname': 'linear',
               'names': ['ValueError', 'KeyError'], 'sname': 'xTypeErrorx vprobe.OtherError', 'tup': {'t': [1, 'b']},
               'depth': 0, 'capt': '1.5'}
        if self.chance(0.04):
            # runErrors already there and no list: save_error's append fails
            ctx['runErrors'] = self.pick(['x', None, D(a=1), 5, []])
        if self.chance(0.85):
            run['dict_in'] = D(**ctx)
            if self.chance(0.1):
                self.self_pype(pipes[0])
        if self.chance(0.25):
            run['args_in'] = self.pick([['x=1', 'y=2'], ['FAIL'], ['a b'], []])
        if pipes[0].get('parser') == 'vparser' and self.chance(0.3):
            # the context parser fails: the failure handler (with whatever instructions it holds) runs first
            run['args_in'] = ['FAIL']
        if self.chance(0.2):
            run['parse_args'] = self.chance(0.5)
        if self.chance(0.12):
            # config.default_backoff as configured for this run: what a retry without `backoff` uses
            run['default_backoff'] = self.pick(['linear', 'exponential', 'jitter', 'linearjitter', 'fixed', 'nope',
                                                'exponentialjitter'])
        if self.chance(0.3):
            run['groups'] = self.pick([['steps'], ['g1'], ['steps', 'g1'], ['g1', 'steps'], ['nogroup', 'steps']])
            if self.chance(0.12):
                # '' is no group name (assert); a string is iterated character by character; a number not at all
                run['groups'] = self.pick([[''], ['steps', ''], ['', 'steps'], 'g1', 'steps', 5, 0, True, []])
        if self.chance(0.25):
            run['success'] = self.pick(['on_success', 'g1', 'nogroup'])
        if self.chance(0.25):
            run['failure'] = self.pick(['on_failure', 'g1', 'nogroup'])
        rnd = [[self.r.randint(0, 4), 2] for _ in range(6)]
        return {'pipes': pipes, 'run': run, 'rnd': rnd}


def random_program(rng, weights=None):
    return Gen(rng, weights).program()
