"""C19 — runs in a FRESH subprocess whose working directory is the scenario's cwd
(pypyr fixes config.cwd and the cwd/pipelines directory at import time).

usage: python -I impl_c19_runner.py <scenario.json>      (prints one JSON line)

scenario = {"repo": <dir containing pypyr/>, "lib": <dir for harness step/loader modules>,
            "kind": "paths", "root": R, "cases": [{"files": [rel…], "name": str, "parent": str|null,
                                                   "parent_form": "path"|"str"}…]}
         | {…, "kind": "run", "name": str, "loader": str|null}
         | {…, "kind": "run", "runs": [{"name": str, "loader": str|null, "py_dir": str|null}…]}
           several root pipelines one after the other in this one process → {"runs": [{trail, err, msg}…], …}
         | {…, "kind": "seq", "root": R, "noCache": bool, "ops": [
               {"op": "fs", "files": [rel…]}          leaf pipelines present from now on (others are removed)
             | {"op": "req", "via": "obj"|"obj.run"|"new"|"runner"|"pype", "obj": k, "name": str,
                "parent": str|null, "parent_form": "path"|"str", "wrapper": rel|null, "py_dir": str|null}
             | {"op": "clear"} | {"op": "noCache", "b": bool} …]}
           a SEQUENCE of look-ups in this one process, caches warm; → {"results": [{ran: [marker…], err, msg}…]}
"""
import json
import os
import sys
from pathlib import Path


def run_seq(sc):
    import signal
    import pypyr.cache.admin
    import pypyr.pipelinerunner
    from pypyr.config import config
    from pypyr.context import Context
    from pypyr.pipeline import Pipeline
    import vtrail
    root = Path(sc['root'])
    config.no_cache = bool(sc.get('noCache'))
    objs = {}
    leaves = set()
    results = []
    sys_before = list(sys.path)

    class Timeout(BaseException):
        pass

    def on_alarm(signum, frame):
        raise Timeout()
    signal.signal(signal.SIGALRM, on_alarm)
    for op in sc['ops']:
        k = op['op']
        if k == 'fs':
            want = set(op['files'])
            for rel in leaves - want:
                try:
                    os.remove(root / rel)
                except FileNotFoundError:
                    pass
            for rel in want:
                f = root / rel
                f.parent.mkdir(parents=True, exist_ok=True)
                # the step module lives NEXT TO the pipeline file: running it shows the directory is importable
                dirid = str(Path(rel).parent).replace('/', '_').replace('+', '_')
                mod = f.parent / f'vmod_{dirid}.py'
                if not mod.exists():
                    mod.write_text("import vtrail\n\ndef run_step(context):\n    vtrail.T.append(context['vfile'])\n")
                f.write_text(f"steps:\n  - name: vmod_{dirid}\n    in:\n      vfile: {json.dumps(rel)}\n")
            leaves = want
        elif k == 'clear':
            pypyr.cache.admin.clear_all()
        elif k == 'noCache':
            config.no_cache = bool(op['b'])
        elif k == 'req':
            parent = op['parent']
            if parent is not None and op.get('parent_form') == 'path':
                parent = Path(parent)
            if op.get('py_dir') and op.get('py_dir_form') == 'path':
                op['py_dir'] = Path(op['py_dir'])
            del vtrail.T[:]
            r = {'err': None, 'msg': None}
            signal.alarm(30)
            try:
                via = op['via']
                if via in ('obj', 'obj.run'):
                    key = (op['obj'], op['name'])
                    if key not in objs:
                        objs[key] = Pipeline(op['name'], py_dir=op.get('py_dir'))
                    if via == 'obj.run':
                        objs[key].run(Context())
                    else:
                        objs[key].load_and_run_pipeline(Context(), parent)
                elif via == 'new':
                    Pipeline(op['name'], py_dir=op.get('py_dir')).load_and_run_pipeline(Context(), parent)
                elif via == 'runner':
                    pypyr.pipelinerunner.run(op['name'], py_dir=op.get('py_dir'))
                elif via == 'pype':
                    pypyr.pipelinerunner.run(str(root / op['wrapper'])[:-5])
                else:
                    raise SystemExit(f'unknown via {via}')
            except Timeout:
                r = {'err': 'timeout', 'msg': 'the look-up did not return within 30 s'}
            except Exception as e:  # noqa: BLE001
                r = {'err': type(e).__name__, 'msg': str(e)}
            finally:
                signal.alarm(0)
            r['ran'] = list(vtrail.T)
            r['sys_path_added'] = [p for p in sys.path if p not in sys_before]
            r['sys_path_dups'] = sorted({p for p in sys.path if sys.path.count(p) > 1 and p not in sys_before})
            results.append(r)
            if r['err'] == 'timeout':
                break
    return results


def run_subdir(sc):
    """kind 'subdir': a script played in this fresh process BEFORE anything else of pypyr is imported - the order
    of imports, configuration and first pipeline load is the point.
      {"op": "import", "module": m}   importlib.import_module(m)            (what a client / the command line imports first)
      {"op": "init"}                  pypyr.config.config.init()            (reads the config files of the scenario)
      {"op": "set", "subdir": s}      config.pipelines_subdir = s
      {"op": "cli", "name": n}        pypyr.cli.main([n])                   (does its own config.init())
      {"op": "run", "name": n}        pypyr.pipelinerunner.run(n)
    -> results: one {trail, err, msg, subdir_config} per cli / run op; loader_imported: after every import op, whether
       pypyr.loaders.file is in sys.modules."""
    import importlib
    import io
    import pypyr
    out = {'cwd': str(Path.cwd()), 'pypyr_file': pypyr.__file__, 'builtin': str(Path(pypyr.__file__).parent / 'pipelines'),
           'results': [], 'loader_imported': []}
    import vtrail
    for op in sc['script']:
        k = op['op']
        if k == 'import':
            importlib.import_module(op['module'])
            out['loader_imported'].append([op['module'], 'pypyr.loaders.file' in sys.modules])
            continue
        from pypyr.config import config
        if k == 'init':
            config.init()
            continue
        if k == 'set':
            config.pipelines_subdir = op['subdir']
            continue
        del vtrail.T[:]
        o = {'err': None, 'msg': None}
        try:
            if k == 'cli':
                import pypyr.cli
                keep = sys.stderr
                sys.stderr = io.StringIO()
                try:
                    rc = pypyr.cli.main([op['name']])
                    text = sys.stderr.getvalue()
                finally:
                    sys.stderr = keep
                if rc:
                    tail = text[text.rfind('\x1b[91m') + 5:] if '\x1b[91m' in text else text
                    tail = tail.replace('\x1b[0;0m', '').strip()
                    o['err'] = tail.split(': ', 1)[0] or f'exit-{rc}'
                    o['msg'] = tail.split(': ', 1)[-1]
            else:
                import pypyr.pipelinerunner
                pypyr.pipelinerunner.run(op['name'])
        except Exception as e:  # noqa: BLE001
            o['err'] = type(e).__name__
            o['msg'] = str(e)
        o['trail'] = list(vtrail.T)
        o['subdir_config'] = config.pipelines_subdir
        out['results'].append(o)
    out['config_cwd'] = str(config.cwd) if 'config' in dir() else out['cwd']
    return out


def run_names(sc, fl):
    """kind 'names': pipeline NAMES as arbitrary strings. One process, many cases; before every case the trees
    w/ e/ e2/ are emptied and the caches cleared. Every file of a case is a pipeline whose only step records the
    file's own relative path (its marker), so what RAN is observed, not only found / not-found.
      case = {"files": [rel…], "mkdirs": [rel…], "name": str, "via": "path"|"run"|"cli"|"pype", "parent": str|null,
              "parent_form": "str"|"path", "vroot": rel|null}
    -> per case {"probe": facts about the FILE SYSTEM only (os.path on `dir + '/' + name + '.yaml'`, plain string
       append; no pypyr involved), "ok": path | "ran": [marker…], "err", "msg"}"""
    import io
    import shutil
    import signal
    import pypyr.cache.admin
    import pypyr.pipelinerunner
    import vtrail
    root = Path(sc['root'])
    cwd = str(fl.config.cwd)
    builtin = str(fl.builtin_pipelines_dir)

    class Timeout(BaseException):
        pass

    def on_alarm(signum, frame):
        raise Timeout()
    signal.signal(signal.SIGALRM, on_alarm)
    os.environ['PYPYR_SKIP_INIT'] = '1'
    results = []
    for case in sc['cases']:
        for top in ('w', 'e', 'e2'):
            (root / top).mkdir(exist_ok=True)
            for child in os.listdir(root / top):
                q = root / top / child
                if q.is_dir() and not q.is_symlink():
                    shutil.rmtree(q)
                else:
                    os.remove(q)
        (root / 'w' / 'pipelines').mkdir()
        for d in case.get('mkdirs', []):
            (root / d).mkdir(parents=True, exist_ok=True)
        for rel in case['files']:
            f = root / rel
            f.parent.mkdir(parents=True, exist_ok=True)
            f.write_text(f"steps:\n  - name: vcustomstep\n    in:\n      vfile: {json.dumps(rel)}\n")
        name = case['name']
        if case.get('vroot'):
            vr = root / case['vroot']
            vr.parent.mkdir(parents=True, exist_ok=True)
            vr.write_text(f"steps:\n  - name: pypyr.steps.pype\n    in:\n      pype:\n        name: {json.dumps(name)}\n")
        pypyr.cache.admin.clear_all()
        # ---- facts about the file system (monitor side) -------------------------------------------------
        parent = case.get('parent')
        pp = case.get('probe_parent')      # the directory of the calling parent pipeline / the parent handed in
        probe = {'abs': name.startswith('/'), 'cands': []}
        if pp:
            probe['parent'] = {'exists': os.path.isdir(pp), 'real': os.path.realpath(pp),
                               'is_cwd': os.path.isdir(pp) and os.path.samefile(pp, cwd)}
        if name.startswith('/'):
            c = name + '.yaml'
            probe['cands'].append([None, os.path.isfile(c), os.path.realpath(c)])
        else:
            for key, d in (('parent', os.path.realpath(pp) if pp else None), ('cwd', cwd),
                           ('sub', cwd + '/pipelines'), ('builtin', builtin)):
                if d is not None:
                    c = d + '/' + name + '.yaml'
                    probe['cands'].append([key, os.path.isfile(c), os.path.realpath(c)])
        r = {'probe': probe, 'err': None, 'msg': None}
        del vtrail.T[:]
        via = case['via']
        signal.alarm(30)
        try:
            if via == 'path':
                pa = parent
                if pa is not None and case.get('parent_form') == 'path':
                    pa = Path(pa)
                r['ok'] = str(fl.get_pipeline_path(name, pa))
            elif via == 'run':
                pypyr.pipelinerunner.run(name)
            elif via == 'pype':
                pypyr.pipelinerunner.run(str(root / case['vroot'])[:-5])
            elif via == 'cli':
                import pypyr.cli
                keep = sys.stderr
                sys.stderr = io.StringIO()
                try:
                    rc = pypyr.cli.main([name])
                    text = sys.stderr.getvalue()
                finally:
                    sys.stderr = keep
                if rc:
                    tail = text[text.rfind('\x1b[91m') + 5:] if '\x1b[91m' in text else text
                    tail = tail.replace('\x1b[0;0m', '').strip()
                    r['err'] = tail.split(': ', 1)[0] or f'exit-{rc}'
                    r['msg'] = tail.split(': ', 1)[-1]
            else:
                raise SystemExit(f'unknown via {via}')
        except Timeout:
            r['err'], r['msg'] = 'timeout', 'the look-up did not return within 30 s'
        except Exception as e:  # noqa: BLE001
            r['err'], r['msg'] = type(e).__name__, str(e)
        except SystemExit as e:
            r['err'], r['msg'] = 'SystemExit', str(e.code)
        finally:
            signal.alarm(0)
        r['ran'] = list(vtrail.T)
        results.append(r)
    return results


def wipe(created):
    """remove what one paths case put there: files, links, fifos, directories"""
    import shutil
    for f in reversed(created):
        try:
            if os.path.isdir(f) and not os.path.islink(f):
                shutil.rmtree(f)
            else:
                os.remove(f)
        except FileNotFoundError:
            pass


def main():
    sc = json.loads(Path(sys.argv[1]).read_text())
    sys.path.insert(0, sc['repo'])
    if sc.get('lib'):
        sys.path.insert(1, sc['lib'])
    if sc['kind'] == 'subdir':
        print(json.dumps(run_subdir(sc)))
        return
    import pypyr.loaders.file as fl
    out = {'cwd': str(Path.cwd()), 'config_cwd': str(fl.config.cwd), 'builtin': str(fl.builtin_pipelines_dir),
           'pypyr_file': fl.__file__}
    if sc['kind'] == 'paths':
        root = Path(sc['root'])
        results = []
        created = []
        for case in sc['cases']:
            wipe(created)
            created = []
            for rel in case.get('mkdirs', []):       # a DIRECTORY at that path (it may be called <name>.yaml)
                p = root / rel
                if not p.is_dir():
                    p.mkdir(parents=True)
                    created.append(p)
            for rel in case.get('fifos', []):
                p = root / rel
                p.parent.mkdir(parents=True, exist_ok=True)
                os.mkfifo(p)
                created.append(p)
            for rel in case['files']:
                p = root / rel
                p.parent.mkdir(parents=True, exist_ok=True)
                p.write_text('steps: []\n')
                created.append(p)
            for link, target in case.get('links', []):
                lp = root / link
                lp.parent.mkdir(parents=True, exist_ok=True)
                if not lp.is_symlink():
                    os.symlink(root / target, lp)
                created.append(lp)
            parent = case['parent']
            if parent is not None and case.get('parent_form') == 'path':
                parent = Path(parent)
            home = os.getcwd()
            if case.get('chdir'):
                os.chdir(root / case['chdir'])      # the OS cwd moves; config.cwd is what it was at import
            try:
                r = fl.get_pipeline_path(case['name'], parent)
                results.append({'ok': str(r)})
            except Exception as e:  # noqa: BLE001
                results.append({'err': type(e).__name__, 'msg': str(e)})
            finally:
                os.chdir(home)
        wipe(created)
        out['results'] = results
    elif sc['kind'] == 'seq':
        out['results'] = run_seq(sc)
    elif sc['kind'] == 'names':
        out['results'] = run_names(sc, fl)
    else:
        import pypyr.pipelinerunner
        before = list(sys.path)
        import vtrail  # harness module in lib/: the step modules append what ran to vtrail.T
        runs = sc.get('runs') or [{'name': sc['name'], 'loader': sc.get('loader'), 'py_dir': sc.get('py_dir')}]
        if sc.get('chdir'):
            # the OS cwd moves after import: config.cwd stays what it was
            os.chdir(sc['chdir'])
        per_run = []
        for r in runs:
            del vtrail.T[:]
            o = {'err': None, 'msg': None}
            py_dir = r.get('py_dir')
            if py_dir is not None and r.get('py_dir_form') == 'path':
                py_dir = Path(py_dir)
            try:
                if r.get('via') == 'cli':
                    # the command line: --dir defaults to the cwd; errors are printed and become exit code 255
                    import io
                    import pypyr.cli
                    os.environ['PYPYR_SKIP_INIT'] = '1'       # no config files of the host
                    keep = sys.stderr
                    sys.stderr = io.StringIO()
                    try:
                        rc = pypyr.cli.main([r['name']] + (['--dir', str(py_dir)] if py_dir is not None else []))
                        text = sys.stderr.getvalue()
                    finally:
                        sys.stderr = keep
                    if rc:
                        # the last thing main() writes: "\n\x1b[91m<Type>: <message>\x1b[0;0m\n" (log lines come before it)
                        tail = text[text.rfind('\x1b[91m') + 5:] if '\x1b[91m' in text else text
                        tail = tail.replace('\x1b[0;0m', '').strip()
                        o['err'] = tail.split(': ', 1)[0] or f'exit-{rc}'
                        o['msg'] = tail.split(': ', 1)[-1]
                else:
                    pypyr.pipelinerunner.run(r['name'], loader=r.get('loader'), py_dir=py_dir)
            except Exception as e:  # noqa: BLE001
                o['err'] = type(e).__name__
                o['msg'] = str(e)
            o['trail'] = list(vtrail.T)
            per_run.append(o)
        out['runs'] = per_run
        # the single-run view (the last run)
        out['err'], out['msg'], out['trail'] = per_run[-1]['err'], per_run[-1]['msg'], per_run[-1]['trail']
        out['sys_path_added'] = [p for p in sys.path if p not in before]
        out['sys_path_dups'] = sorted({p for p in sys.path if sys.path.count(p) > 1 and p not in before})
    print(json.dumps(out))


if __name__ == '__main__':
    main()
