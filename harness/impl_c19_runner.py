"""C19 — runs in a FRESH subprocess whose working directory is the scenario's cwd
(pypyr fixes config.cwd and the cwd/pipelines directory at import time).

usage: python -I impl_c19_runner.py <scenario.json>      (prints one JSON line)

scenario = {"repo": <dir containing pypyr/>, "lib": <dir for harness step/loader modules>,
            "kind": "paths", "root": R, "cases": [{"files": [rel…], "name": str, "parent": str|null,
                                                   "parent_form": "path"|"str"}…]}
         | {…, "kind": "run", "name": str, "loader": str|null}
"""
import json
import os
import sys
from pathlib import Path


def main():
    sc = json.loads(Path(sys.argv[1]).read_text())
    sys.path.insert(0, sc['repo'])
    if sc.get('lib'):
        sys.path.insert(1, sc['lib'])
    import pypyr.loaders.file as fl
    out = {'cwd': str(Path.cwd()), 'config_cwd': str(fl.config.cwd), 'builtin': str(fl.builtin_pipelines_dir),
           'pypyr_file': fl.__file__}
    if sc['kind'] == 'paths':
        root = Path(sc['root'])
        results = []
        created = []
        for case in sc['cases']:
            for f in created:
                try:
                    os.remove(f)
                except FileNotFoundError:
                    pass
            created = []
            for rel in case['files']:
                p = root / rel
                p.parent.mkdir(parents=True, exist_ok=True)
                p.write_text('steps: []\n')
                created.append(p)
            parent = case['parent']
            if parent is not None and case.get('parent_form') == 'path':
                parent = Path(parent)
            try:
                r = fl.get_pipeline_path(case['name'], parent)
                results.append({'ok': str(r)})
            except Exception as e:  # noqa: BLE001
                results.append({'err': type(e).__name__, 'msg': str(e)})
        out['results'] = results
    else:
        import pypyr.pipelinerunner
        before = list(sys.path)
        import vtrail  # harness module in lib/: the step modules append what ran to vtrail.T
        try:
            pypyr.pipelinerunner.run(sc['name'], loader=sc.get('loader'))
            out['err'] = None
        except Exception as e:  # noqa: BLE001
            out['err'] = type(e).__name__
            out['msg'] = str(e)
        out['trail'] = list(vtrail.T)
        out['sys_path_added'] = [p for p in sys.path if p not in before]
        out['sys_path_dups'] = sorted({p for p in sys.path if sys.path.count(p) > 1 and p not in before})
    print(json.dumps(out))


if __name__ == '__main__':
    main()
