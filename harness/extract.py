"""Static extraction: regenerate lean/Generated/*.lean from the source under test (ast only;
never imports pypyr).

  Generated/Ladders.lean  - the exception class hierarchy of pypyr/errors.py and, for every
                            `try` statement of the functions that route control-of-flow signals,
                            the ordered list of (caught classes, what the handler does).
  Generated/Tables.lean   - small literal tables the models hard-code: truthy strings of
                            cast_str_to_bool, built-in back-off names, default group names.

Props/Agreement.lean proves (by `decide`) that these equal the constants the models use, so an
edit of a ladder or a table breaks a proof obligation even if no generated input reaches it.
"""
from __future__ import annotations

import ast
import os
from pathlib import Path

VERIF = Path(__file__).resolve().parent.parent
GEN = VERIF / 'lean' / 'Generated'

SITES = [
    # (file, class or None, function)
    ('pypyr/dsl.py', 'Step', 'invoke_step'),
    ('pypyr/dsl.py', 'Step', 'run_conditional_decorators'),
    ('pypyr/dsl.py', 'RetryDecorator', 'exec_iteration'),
    ('pypyr/stepsrunner.py', 'StepsRunner', 'run_step_group'),
    ('pypyr/stepsrunner.py', 'StepsRunner', 'run_failure_step_group'),
    ('pypyr/stepsrunner.py', 'StepsRunner', 'run_step_groups'),
    ('pypyr/steps/pype.py', None, 'run_step'),
    ('pypyr/pipeline.py', 'Pipeline', '_run_pipeline'),
    ('pypyr/pipeline.py', 'Pipeline', 'run'),
]


def repo():
    return Path(os.environ.get('PYPYR_REPO', '/repo'))


def lean_str(s):
    return '"' + s.replace('\\', '\\\\').replace('"', '\\"') + '"'


def names_of(t):
    if t is None:
        return ['BaseException']
    if isinstance(t, ast.Tuple):
        return [n for e in t.elts for n in names_of(e)]
    if isinstance(t, ast.Name):
        return [t.id]
    if isinstance(t, ast.Attribute):
        return [t.attr]
    return ['?']


def contains(node_list, pred):
    for n in node_list:
        for sub in ast.walk(n):
            if pred(sub):
                return True
    return False


def action_of(handler):
    """Summarise a handler body: what happens to the caught exception.
      reraise            every path ends in a bare `raise` / `raise <the bound name>`
      raiseFrom X        raises a new X from it
      swallow            no raise at all (falls through / pass / logging only)
      return             returns from the function without raising
      conditional        raises on some paths only (if/else around the raise, or a nested try)
    """
    body = handler.body
    bound = handler.name
    raises = [n for b in body for n in ast.walk(b) if isinstance(n, ast.Raise)]
    returns = [n for b in body for n in ast.walk(b) if isinstance(n, ast.Return)]
    if not raises:
        return 'ret' if returns else 'swallow'
    last = body[-1]
    if isinstance(last, ast.Raise):
        if last.exc is None or (isinstance(last.exc, ast.Name) and last.exc.id == bound):
            # unconditional unless an earlier statement can leave (return) or re-route
            if any(isinstance(n, ast.Return) for b in body[:-1] for n in ast.walk(b)):
                return 'conditional'
            nested_try = any(isinstance(n, ast.Try) for b in body[:-1] for n in ast.walk(b))
            return 'reraiseAfterHandler' if nested_try else 'reraise'
        if last.cause is not None:
            return 'raiseFrom ' + lean_str(names_of(last.exc.func if isinstance(last.exc, ast.Call) else last.exc)[0])
        return 'raiseOther'
    return 'conditional'


def find_func(tree, cls, fn):
    scope = tree.body
    if cls:
        for n in tree.body:
            if isinstance(n, ast.ClassDef) and n.name == cls:
                scope = n.body
                break
        else:
            raise LookupError(f'class {cls} not found')
    for n in scope:
        if isinstance(n, ast.FunctionDef) and n.name == fn:
            return n
    raise LookupError(f'function {fn} not found')


def tries_of(fn):
    """All try statements in source order (outer before inner)."""
    out = []

    def walk(stmts):
        for s in stmts:
            if isinstance(s, ast.Try):
                out.append(s)
                walk(s.body)
                for h in s.handlers:
                    walk(h.body)
                walk(s.orelse)
                walk(s.finalbody)
            else:
                for field in ('body', 'orelse', 'finalbody'):
                    sub = getattr(s, field, None)
                    if isinstance(sub, list):
                        walk(sub)
                if isinstance(s, (ast.With,)):
                    pass
    walk(fn.body)
    return out


def hierarchy():
    tree = ast.parse((repo() / 'pypyr/errors.py').read_text())
    out = []
    for n in tree.body:
        if isinstance(n, ast.ClassDef):
            out.append((n.name, [names_of(b)[0] for b in n.bases]))
    return out


def ladders():
    out = []
    for file, cls, fn in SITES:
        tree = ast.parse((repo() / file).read_text())
        f = find_func(tree, cls, fn)
        for k, t in enumerate(tries_of(f)):
            hs = [(names_of(h.type), action_of(h)) for h in t.handlers]
            out.append((f'{cls + "." if cls else "pype."}{fn}#{k}', hs, bool(t.finalbody)))
    return out


def literal_list_in(file, func, pred):
    tree = ast.parse((repo() / file).read_text())
    f = find_func(tree, None, func)
    for n in ast.walk(f):
        if pred(n):
            return n
    raise LookupError


def tables():
    # truthy strings: the list literal in cast_str_to_bool's `in [...]`
    # (informational since harness/translate.py translates cast_str_to_bool itself and
    #  Props/Translated_C04.lean proves it equal to the model: any literal collection will do, in any order)
    try:
        n = literal_list_in('pypyr/utils/types.py', 'cast_str_to_bool',
                            lambda x: isinstance(x, (ast.List, ast.Tuple, ast.Set)))
        truthy = sorted(e.value for e in n.elts if isinstance(e, ast.Constant) and isinstance(e.value, str))
    except LookupError:
        truthy = []
    # built-in back-offs: keys of builtin_backoffs dict literal
    tree = ast.parse((repo() / 'pypyr/retries.py').read_text())
    backoffs = []
    for s in tree.body:
        if isinstance(s, ast.Assign) and any(isinstance(t, ast.Name) and t.id == 'builtin_backoffs' for t in s.targets):
            backoffs = [k.value for k in s.value.keys]
    # default group names from config.py
    cfg = (repo() / 'pypyr/config.py').read_text()
    tree = ast.parse(cfg)
    defaults = {}
    for n in ast.walk(tree):
        if isinstance(n, (ast.Assign, ast.AnnAssign)):
            tgt = n.targets[0] if isinstance(n, ast.Assign) else n.target
            if isinstance(tgt, ast.Attribute) and tgt.attr in ('default_group', 'default_success_group',
                                                               'default_failure_group', 'default_backoff') \
                    and isinstance(n.value, ast.Constant):
                defaults[tgt.attr] = n.value.value
    return truthy, backoffs, defaults


def write_if_changed(path, text):
    path.parent.mkdir(exist_ok=True)
    if not path.exists() or path.read_text() != text:
        path.write_text(text)


def generate():
    hs = hierarchy()
    ls = ladders()
    lines = ['/- GENERATED by harness/extract.py from the source under test. Do not edit. -/',
             'namespace Pypyr.Generated', '',
             'inductive HAction where',
             '  | reraise | reraiseAfterHandler | swallow | ret | conditional | raiseOther',
             '  | raiseFrom (cls : String)',
             '  deriving Repr, DecidableEq', '',
             '/-- class ↦ base classes, from pypyr/errors.py -/',
             'def hierarchy : List (String × List String) := [']
    lines += ['  (' + lean_str(c) + ', [' + ', '.join(lean_str(b) for b in bs) + ']),' for c, bs in hs]
    lines[-1] = lines[-1].rstrip(',')
    lines += [']', '',
              '/-- site ↦ ordered handlers (caught classes, action), has-finally -/',
              'def ladders : List (String × List (List String × HAction) × Bool) := [']
    for name, handlers, fin in ls:
        hh = ', '.join('([' + ', '.join(lean_str(c) for c in cs) + '], .' + a + ')' for cs, a in handlers)
        lines.append(f'  ({lean_str(name)}, [{hh}], {"true" if fin else "false"}),')
    lines[-1] = lines[-1].rstrip(',')
    lines += [']', '', 'end Pypyr.Generated', '']
    write_if_changed(GEN / 'Ladders.lean', '\n'.join(lines))
    truthy, backoffs, defaults = tables()
    t = ['/- GENERATED by harness/extract.py from the source under test. Do not edit. -/',
         'namespace Pypyr.Generated', '',
         'def truthyStrings : List String := [' + ', '.join(lean_str(x) for x in truthy) + ']',
         'def builtinBackoffs : List String := [' + ', '.join(lean_str(x) for x in backoffs) + ']',
         'def defaultGroup : String := ' + lean_str(defaults.get('default_group', '?')),
         'def defaultSuccessGroup : String := ' + lean_str(defaults.get('default_success_group', '?')),
         'def defaultFailureGroup : String := ' + lean_str(defaults.get('default_failure_group', '?')),
         'def defaultBackoff : String := ' + lean_str(defaults.get('default_backoff', '?')),
         '', 'end Pypyr.Generated', '']
    write_if_changed(GEN / 'Tables.lean', '\n'.join(t))


if __name__ == '__main__':
    generate()
    print((GEN / 'Ladders.lean').read_text())
    print((GEN / 'Tables.lean').read_text())
