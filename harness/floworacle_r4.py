"""Directed families of round 4 (expectations from the property texts, see harness/floworacle.py):

  handlers that hand over   a failure handler (the pipeline's, a custom one, the failure group of a call / of a
                  jump, a child pipeline's) that JUMPS / CALLS / SWITCHES to another group in which a step fails a
                  second time - directly, through a chain of jumps, with a failure group of its own, under retry,
                  swallowed: the caller receives the ORIGINAL error (C01), the handler ran once;
  group lists of every sequence kind   str / list / TUPLE, written literally, through `{key}` expressions, through
                  `!py` expressions (names, concatenations, per-iteration), in the str / list / MAP spelling of call,
                  jump and switch-case `call`: the named groups run, in order, with their handlers (C03);
  WHEN a decorator argument is evaluated   while's max / sleep / errorOnMax once when the loop starts, stop after
                  every iteration; foreach's iterable once; retry's max / sleep when the loop starts - each given as an
                  expression whose value the body (its probe, a called group) changes or creates while the loop runs,
                  and as an expression that cannot be resolved when the loop starts: nothing iterates (C05, C06);
  instruction configuration that lives in the context   (`call` / `switch` / `jump` as context keys, the step given
                  bare) and is used twice - after called groups replaced or removed the key (C02, C03).

Cases marked meta['impl_only'] use python source outside the modelled `!py` language (wire form {'pyraw': src}):
they run on the implementation alone and are judged by the expectation."""
from __future__ import annotations

import itertools
import json

from .flowgen import D, pycmp, pyname
from .floworacle import ANY, MISSING, _call, _jump, _pype, cover_first, probe, prog_of
from .floworacle_r3 import T, raw

SSG = 'pypyr.steps.stopstepgroup'


def pyadd(a, b):
    return {'py': {'op': '+', 'a': a, 'b': b}}


def cp(x):
    return json.loads(json.dumps(x))


# --------------------------------------------------------------------------
# C01: failure handlers that hand over and fail again
# --------------------------------------------------------------------------

HANDOVERS = ['jump', 'jump-map', 'jump-tuple', 'jump-list', 'call', 'call-map', 'switch', 'jump-chain', 'jump-own-failure',
             'call-own-failure', 'call-then-jump', 'direct']
SECONDS = ['fails', 'same-class', 'ok', 'swallowed', 'retry-fails', 'stops-then-fails']
LEVELS = ['pipeline', 'custom', 'call-failure', 'jump-failure', 'child', 'nested-call']


def _target(second):
    """the group the handler hands over to: (steps, tags, ends_ok, recorded errors)"""
    if second == 'fails':
        return [probe('H1'), probe('F2', failRest='TypeError', msg='second'), probe('N1')], ['H1', 'F2'], False, 1
    if second == 'same-class':
        return [probe('H1'), probe('F2', failRest='ValueError', msg='second'), probe('N1')], ['H1', 'F2'], False, 1
    if second == 'ok':
        return [probe('H1')], ['H1'], True, 0
    if second == 'swallowed':
        f2 = probe('F2', failRest='TypeError', msg='second')
        f2['swallow'] = True
        return [probe('H1'), f2, probe('H1b')], ['H1', 'F2', 'H1b'], True, 1
    if second == 'retry-fails':
        f2 = probe('F2', failRest='KeyError', msg='second')
        f2['retry'] = {'max': 2}
        return [probe('H1'), f2, probe('N1')], ['H1', 'F2', 'F2'], False, 1
    if second == 'stops-then-fails':
        # h1 ends itself with stopstepgroup, the NEXT jumped-to / called group fails: see handovers with two groups
        return [probe('H1'), SSG, probe('N1')], ['H1'], True, 0
    raise ValueError(second)


def _handler(handover, second):
    """(handler steps, extra groups, tags, recorded errors) of a failure handler that hands over"""
    tsteps, ttags, tok, trec = _target(second)
    extra = [['h1', tsteps]]
    ctx = {'hgs': T('h1'), 'hname': 'h1'}
    h = [probe('H')]
    tags = ['H']
    rec = trec
    if handover == 'direct':
        # control: the handler's own steps are the target
        return [probe('H')] + tsteps + [probe('NH')], [], ['H'] + ttags + (['NH'] if tok else []), rec, ctx
    if handover == 'jump':
        h += [_jump('h1'), probe('NH')]
        tags += ttags
    elif handover == 'jump-map':
        h += [_jump(D(groups=['h1'])), probe('NH')]
        tags += ttags
    elif handover == 'jump-tuple':
        h += [_jump(D(groups='{hgs}')), probe('NH')]
        tags += ttags
    elif handover == 'jump-list':
        # two groups: the first as `second` says, the second always fails when reached
        extra.append(['h2', [probe('H2'), probe('F4', failRest='RuntimeError', msg='fourth')]])
        h += [_jump(['{hname}', 'h2']), probe('NH')]
        tags += ttags + (['H2', 'F4'] if tok else [])
        rec += 1 if tok else 0
    elif handover == 'call':
        h += [_call('h1'), probe('AH')]
        tags += ttags + (['AH'] if tok else [])
    elif handover == 'call-map':
        h += [_call(D(groups='{hgs}', success='hs')), probe('AH')]
        extra.append(['hs', [probe('HS')]])
        tags += ttags + (['HS', 'AH'] if tok else [])
    elif handover == 'switch':
        h += [{'name': 'pypyr.steps.switch', 'in': [['switch', [D(case=False, call='nogroup'), D(case='{yes}', call='h1')]]]},
              probe('AH')]
        ctx['yes'] = True
        tags += ttags + (['AH'] if tok else [])
    elif handover == 'jump-chain':
        extra.append(['h0', [probe('H0'), _jump('{hname}'), probe('N0')]])
        h += [_jump('h0'), probe('NH')]
        tags += ['H0'] + ttags
    elif handover == 'jump-own-failure':
        extra.append(['hf', [probe('HF'), probe('F3', failRest='RuntimeError', msg='third')]])
        h += [_jump(D(groups=['h1'], failure='hf')), probe('NH')]
        tags += ttags + ([] if tok else ['HF', 'F3'])
        rec += 0 if tok else 1
    elif handover == 'call-own-failure':
        extra.append(['hf', [probe('HF'), _jump('hf2')]])
        extra.append(['hf2', [probe('HF2'), probe('F3', failRest='RuntimeError', msg='third')]])
        h += [_call(D(groups=['h1'], failure='hf')), probe('AH')]
        tags += ttags + (['AH'] if tok else ['HF', 'HF2', 'F3'])
        rec += 0 if tok else 1
    elif handover == 'call-then-jump':
        # the handler calls a group that ends normally, then jumps to the target
        extra.append(['hc', [probe('HC')]])
        h += [_call('hc'), _jump('h1'), probe('NH')]
        tags += ['HC'] + ttags
    else:
        raise ValueError(handover)
    return h, extra, tags, rec, ctx


def c01_handover_family(rng, n):
    """When an error escapes a step the failure group runs exactly once and the caller receives that ORIGINAL error -
    an error raised inside the failure group never replaces it: also when the failure group handed over to other
    groups by jump / call / switch and the second error was raised there, at any depth."""
    # (a stopstepgroup issued by the failure group ITSELF is the one thing that turns the failure into a quiet end:
    #  that is C02's / c01-straight's subject, not a hand-over)
    cases = [(lv, ho, sc) for lv in LEVELS for ho in HANDOVERS for sc in SECONDS if (ho, sc) != ('direct', 'stops-then-fails')]
    rng.shuffle(cases)
    cases = cover_first(cases, lambda c: (c[0], c[1]), lambda c: (c[1], c[2]), lambda c: (c[0], c[2]))
    for lv, ho, sc in cases[:n]:
        h, extra, htags, rec, ctx = _handler(ho, sc)
        ctx['k'] = 'v'
        fail = probe('F', failRest='ValueError')
        run, children = None, None
        if lv == 'pipeline':
            groups = [['steps', [probe('A'), fail, probe('B')]], ['on_failure', h], ['on_success', [probe('OS')]]] + extra
            tags = ['A', 'F'] + htags
        elif lv == 'custom':
            groups = [['steps', [probe('A'), fail, probe('B')]], ['myfail', h], ['on_failure', [probe('XOF')]]] + extra
            run = {'groups': ['steps'], 'failure': 'myfail'}
            tags = ['A', 'F'] + htags
        elif lv == 'call-failure':
            groups = [['steps', [probe('A'), _call(D(groups=['g'], failure='gf')), probe('B')]], ['g', [probe('G'), fail, probe('NG')]],
                      ['gf', h], ['on_failure', [probe('OF')]], ['on_success', [probe('OS')]]] + extra
            tags = ['A', 'G', 'F'] + htags + ['OF']
        elif lv == 'jump-failure':
            groups = [['steps', [probe('A'), _jump(D(groups=['g'], failure='gf')), probe('B')]], ['g', [probe('G'), fail, probe('NG')]],
                      ['gf', h], ['on_failure', [probe('OF')]], ['on_success', [probe('OS')]]] + extra
            tags = ['A', 'G', 'F'] + htags + ['OF']
        elif lv == 'nested-call':
            # two levels of call, each with a failure group; the inner one hands over
            groups = [['steps', [probe('A'), _call(D(groups=['g0'], failure='g0f')), probe('B')]],
                      ['g0', [probe('G0'), _call(D(groups=['g'], failure='gf')), probe('NG0')]],
                      ['g0f', [probe('G0F')]], ['g', [probe('G'), fail, probe('NG')]],
                      ['gf', h], ['on_failure', [probe('OF')]]] + extra
            tags = ['A', 'G0', 'G', 'F'] + htags + ['G0F', 'OF']
        else:
            groups = [['steps', [probe('A'), _pype(name='child'), probe('B')]], ['on_failure', [probe('POF')]]]
            children = {'child': [['steps', [probe('C'), fail, probe('NC')]], ['on_failure', h], ['on_success', [probe('COS')]]] + extra}
            tags = ['A', 'C', 'F'] + htags + ['POF']
        exp = {'tags': tags, 'outcome': ('err', 'ValueError'), 'err_msg': 'boom F'}
        if lv != 'child':
            exp['nerr'] = 1 + rec
        prog = prog_of(groups, run=run, children=children, ctx=ctx)
        prog['budget_s'] = 5
        yield prog, exp, {'family': 'c01-handler-hands-over', 'level': lv, 'handover': ho, 'second': sc}


# --------------------------------------------------------------------------
# C03: group lists of every sequence kind in every spelling
# --------------------------------------------------------------------------

# (label, wire value of the `groups` part, the groups it names, spelling it is legal in, impl_only)
def _group_values():
    vals = [
        ('str-literal', 't1', ['t1'], False),
        ('str-fmt', '{tname}', ['t1'], False),
        ('str-py-name', pyname('tname'), ['t1'], False),
        ('str-py-concat', pyadd({'c': 't'}, {'n': 'one'}), ['t1'], False),
        ('list-literal', ['t1', 't2'], ['t1', 't2'], False),
        ('list-items-fmt', ['{tname}', 't{two}'], ['t1', 't2'], False),
        ('list-fmt', '{tlist}', ['t1', 't2'], False),
        ('list-py-name', pyname('tlist'), ['t1', 't2'], False),
        ('list-py-concat', pyadd({'n': 'tlist'}, {'n': 'tlist3'}), ['t1', 't2', 't3'], False),
        ('list-one', ['t2'], ['t2'], False),
        ('list-pyraw', raw("['t1', 't' + str(1 + 1)]"), ['t1', 't2'], True),
        ('list-pyraw-comprehension', raw("['t' + str(x) for x in (1, 2, 3)]"), ['t1', 't2', 't3'], True),
    ]
    tup = [
        ('tuple-fmt', '{ttup}', ['t1', 't2'], False),
        ('tuple-py-name', pyname('ttup'), ['t1', 't2'], False),
        ('tuple-py-concat', pyadd({'n': 'ttup'}, {'n': 'ttup3'}), ['t1', 't2', 't3'], False),
        ('tuple-one', '{ttup3}', ['t3'], False),
        ('tuple-pyraw', raw("('t1', 't' + two)"), ['t1', 't2'], True),
        ('tuple-pyraw-one', raw("('t' + two,)"), ['t2'], True),
        ('tuple-pyraw-of-list', raw('tuple(tlist)'), ['t1', 't2'], True),
    ]
    return vals, tup


GROUPS_CTX = {'tname': 't1', 'one': '1', 'two': '2', 'tlist': ['t1', 't2'], 'tlist3': ['t3'], 'ttup': T('t1', 't2'),
              'ttup3': T('t3'), 'k': 'v'}


def c03_group_kinds_family(rng, n):
    """A call runs the named groups (with their own optional success and failure handlers) to completion and
    execution resumes after the calling step; a jump abandons the rest of its group and runs the target groups
    instead; switch calls the groups of the first true case - whichever way the names are given: one name or a
    sequence of names (list or tuple), literally or through an expression, as the whole configuration or as the
    `groups` entry of its map form."""
    vals, tup = _group_values()
    cases = []
    for instr in ('call', 'jump', 'switch'):
        for label, v, names, io in vals:
            for spelling in ('whole', 'map', 'map-success', 'map-failure'):
                cases.append((instr, label, v, names, io, spelling))
        for label, v, names, io in tup:
            # a tuple of names: in the map form (as the whole configuration the code rejects a tuple)
            for spelling in ('map', 'map-success', 'map-failure'):
                cases.append((instr, label, v, names, io, spelling))
    full = [(c, deco, where) for c in cases for deco in (None, 'foreach', 'while', 'retry') for where in ('main', 'called')]
    rng.shuffle(full)
    full = cover_first(full, lambda c: (c[0][0], c[0][1], c[0][5] == 'whole'), lambda c: (c[0][0], c[0][5], c[1]),
                       lambda c: (c[0][1], c[2]))
    for (instr, label, v, names, io, spelling), deco, where in full[:n]:
        v = cp(v)
        fails = spelling == 'map-failure'
        if spelling == 'whole':
            cfg = v
        elif spelling == 'map':
            cfg = D(groups=v)
        elif spelling == 'map-success':
            cfg = D(groups=v, success='ts')
        else:
            cfg = D(groups=v, success='ts', failure='tf')
        if instr == 'call':
            st = _call(cfg)
        elif instr == 'jump':
            st = _jump(cfg)
        else:
            st = {'name': 'pypyr.steps.switch',
                  'in': [['switch', [D(case=False, call='nogroup'), D(case=True, call=cfg), D(default='nogroup')]]]}
        iters = 1
        if deco == 'foreach':
            st['foreach'] = ['p', 'q']
            iters = 2
        elif deco == 'while':
            st['while'] = {'max': 2}
            iters = 2
        elif deco == 'retry':
            st['retry'] = {'max': 2}
        if instr == 'jump' or fails:
            iters = 1                      # a jump leaves at its first execution; an error ends the loops
        # the last named group fails in the `map-failure` spelling: its failure group runs, the error reaches the caller
        last = names[-1]
        tg = []
        for g in ('t1', 't2', 't3'):
            body = [probe(g.upper())]
            if fails and g == last:
                body.append(probe('TF_' + g.upper(), failRest='ValueError', msg='boom in ' + g))
            tg.append([g, body])
        tg += [['ts', [probe('TS')]], ['tf', [probe('TF')]]]
        once = [g.upper() for g in names]
        if fails:
            once += ['TF_' + last.upper(), 'TF']
            if deco == 'retry' and instr != 'jump':
                once = once + once      # the calling step is retried once (max 2): the groups run again
        elif spelling == 'map-success':
            once += ['TS']
        inner = ['C'] + once * iters
        if fails:
            main_tail = ['OF']
            exp = {'outcome': ('err', 'ValueError'), 'err_msg': 'boom in ' + last}
        else:
            main_tail = ([] if instr == 'jump' else ['D']) + (['B'] if where == 'called' else []) + ['OS']
            exp = {'outcome': 'ok', 'nerr': 0}
        if where == 'main':
            groups = [['steps', [probe('C'), st, probe('D')]]] + tg + [['on_success', [probe('OS')]], ['on_failure', [probe('OF')]]]
            tags = inner + main_tail
        else:
            groups = [['steps', [probe('A'), _call('cg'), probe('B')]], ['cg', [probe('C'), st, probe('D')]]] + tg + [
                ['on_success', [probe('OS')]], ['on_failure', [probe('OF')]]]
            tags = ['A'] + inner + main_tail
        exp['tags'] = tags
        meta = {'family': 'c03-group-sequence-kinds', 'instruction': instr, 'groups': label, 'spelling': spelling,
                'decorator': deco, 'where': where}
        if io:
            meta['impl_only'] = True
        prog = prog_of(groups, ctx=dict(GROUPS_CTX))
        prog['budget_s'] = 5
        yield prog, exp, meta


def c03_group_counter_family(rng, n):
    """group names given through expressions that depend on the current loop counters: the calling step under
    foreach / while / retry names `('prep', 'build_' + i)` - a tuple built per iteration - in the map form, and the
    same as a list, as text; every iteration runs exactly the groups its own counter names, in order."""
    out = []
    forms = [
        ('list-fmt-items', ['prep', 'build_{i}'], False), ('str-fmt', 'build_{i}', False),
        ('str-py', pyadd({'c': 'build_'}, {'n': 'i'}), False),
        ('tuple-pyraw', raw("('prep', 'build_' + i)"), True), ('list-pyraw', raw("['prep', 'build_' + i]"), True),
        ('tuple-py-concat', pyadd({'n': 'preptup'}, {'idx': [{'n': 'tups'}, {'n': 'i'}]}), False),
        ('tuple-py-idx', {'py': {'idx': [{'n': 'tups'}, {'n': 'i'}]}}, False),
    ]
    for (label, v, io), spelling, instr, loop in itertools.product(forms, ('whole', 'map', 'map-success'), ('call', 'switch', 'jump'),
                                                                   ('foreach', 'while', 'foreach-in-called')):
        if label.startswith('tuple') and spelling == 'whole':
            continue
        out.append((label, v, io, spelling, instr, loop))
    rng.shuffle(out)
    out = cover_first(out, lambda c: (c[0], c[4]), lambda c: (c[3], c[4], c[5]))
    for label, v, io, spelling, instr, loop in out[:n]:
        v = cp(v)
        items = ['a', 'b']
        cfg = v if spelling == 'whole' else (D(groups=v) if spelling == 'map' else D(groups=v, success='ts'))
        if instr == 'call':
            st = _call(cfg)
        elif instr == 'jump':
            st = _jump(cfg)
        else:
            st = {'name': 'pypyr.steps.switch', 'in': [['switch', [D(case='{no}', call='nogroup'), D(case=True, call=cfg)]]]}
        st['foreach'] = items
        has_prep = not label.startswith('str') and label != 'tuple-py-idx'
        names = lambda x: (['prep'] if has_prep else []) + ['build_' + x]  # noqa: E731
        groups_t = [['prep', [probe('PREP', keys=['i'])]], ['build_a', [probe('BA', keys=['i'])]], ['build_b', [probe('BB', keys=['i'])]],
                    ['ts', [probe('TS')]]]
        tagof = {'prep': 'PREP', 'build_a': 'BA', 'build_b': 'BB'}
        events = []
        for x in (items if instr != 'jump' else items[:1]):
            events += [(tagof[g], x, ANY, ANY) for g in names(x)]
            if spelling == 'map-success':
                events.append(('TS', x, ANY, ANY))
        ctx = {'no': False, 'k': 'v', 'preptup': T('prep'), 'tups': D(a=T('build_a'), b=T('build_b'))}
        if loop == 'foreach-in-called':
            groups = [['steps', [probe('A'), _call('cg'), probe('B')]], ['cg', [probe('C'), st, probe('D', keys=['i'])]]] + groups_t
            events = [('A', ANY, ANY, ANY), ('C', ANY, ANY, ANY)] + events + (
                [] if instr == 'jump' else [('D', 'b', ANY, ANY)]) + [('B', ANY, ANY, ANY)]
        elif loop == 'while':
            st['while'] = {'max': 2}
            groups = [['steps', [probe('A'), st, probe('D')]]] + groups_t
            events = [('A', ANY, ANY, ANY)] + [(e[0], e[1], w, ANY) for w in ((1, 2) if instr != 'jump' else (1,)) for e in events] + (
                [] if instr == 'jump' else [('D', ANY, ANY, ANY)])
        else:
            groups = [['steps', [probe('A'), st, probe('D')]]] + groups_t
            events = [('A', ANY, ANY, ANY)] + events + ([] if instr == 'jump' else [('D', 'b', ANY, ANY)])
        meta = {'family': 'c03-groups-from-loop-counter', 'groups': label, 'spelling': spelling, 'instruction': instr, 'loop': loop}
        if io:
            meta['impl_only'] = True
        prog = prog_of(groups, ctx=ctx)
        prog['budget_s'] = 5
        yield prog, {'events': events, 'outcome': 'ok', 'nerr': 0}, meta


# --------------------------------------------------------------------------
# C05 / C06: WHEN a decorator argument is evaluated
# --------------------------------------------------------------------------

def _expr_forms(key):
    return [('fmt', '{%s}' % key), ('py', pyname(key))]


def c05_when_family(rng, n):
    """while iterates exactly as declared: max, sleep and errorOnMax are what they evaluate to WHEN THE LOOP STARTS -
    whatever the body does to the values they were computed from afterwards - and an argument that cannot be
    resolved then is an error before the first iteration; stop is evaluated after every iteration, on the state the
    body left. foreach's iterable is evaluated once. The body changes the values through its own step (probe
    `set`), through a group it calls, or through an inner foreach sequence."""
    out = []
    vias = ('probe', 'called', 'foreach-inner')

    def build(wcfg, sets, via, ctx, extra_deco=None, keys=None):
        """the looping step W (its body applies `sets` to the context on every execution), then Z"""
        groups_extra = []
        if via == 'called':
            st = _call('body')
            groups_extra = [['body', [probe('W', set=D(**sets) if sets else D(), keys=keys or [])]]]
        else:
            st = probe('W', set=D(**sets) if sets else D(), keys=keys or [])
            if via == 'foreach-inner':
                st['foreach'] = ['x', 'y']
        st['while'] = wcfg
        if extra_deco == 'swallow':
            st['swallow'] = True
        elif extra_deco == 'retry':
            st['retry'] = {'max': 2}
        elif extra_deco == 'run':
            st['run'] = '{go}'
        ctx = dict(ctx, go=True, k='v')
        return prog_of([['steps', [st, probe('Z')]], ['on_failure', [probe('OF')]]] + groups_extra, ctx=ctx)

    def wev(iters, via):
        per = 2 if via == 'foreach-inner' else 1
        return [('W', ANY, k + 1, ANY) for k in range(iters) for _ in range(per)]

    for via, deco in itertools.product(vias, (None, 'swallow', 'retry', 'run')):
        for fname, f in _expr_forms('strict'):
            # errorOnMax declared false / true at loop start, the body flips it
            for start, flipped in ((False, True), (True, False), ('false', 'true'), ('TRUE', 'no'), (0, 1), (1, 0)):
                if fname == 'py' and isinstance(start, str):
                    continue            # the text rule is for text written in the pipeline / formatted from it
                truth = (start is True or start == 1 or (isinstance(start, str) and start.lower() in ('true', '1', '1.0')))
                for stop in (None, 'never', 'second'):
                    w = {'max': 2, 'errorOnMax': cp(f)}
                    if stop == 'never':
                        w['stop'] = '{never}'
                    elif stop == 'second':
                        w['stop'] = pycmp('whileCounter', '==', 2)
                    prog = build(w, {'strict': flipped}, via, {'strict': start, 'never': False}, deco)
                    if truth and stop != 'second':
                        exp = {'events': wev(2, via) + [('OF', ANY, ANY, ANY)], 'outcome': ('err', 'pypyr.errors.LoopMaxExhaustedError'),
                               'nerr': 0}
                    else:
                        exp = {'events': wev(2, via) + [('Z', ANY, ANY, ANY)], 'outcome': 'ok', 'nerr': 0}
                    out.append((prog, exp, {'arg': 'errorOnMax', 'expr': fname, 'start': json.dumps(start), 'stop': stop,
                                            'via': via, 'decorator': deco, 'case': 'body-changes'}))
            # errorOnMax cannot be resolved when the loop starts: nothing iterates - even when the body would create the key
            for stop in (None, 'first'):
                w = {'max': 2, 'errorOnMax': cp(f)}
                if stop:
                    w['stop'] = True
                prog = build(w, {'strict': True}, via, {}, deco)
                exp = {'tags': ['OF'], 'outcome': ('err', ANY if fname == 'py' else 'pypyr.errors.KeyNotInContextError'), 'nerr': 0, 'sleeps': []}
                out.append((prog, exp, {'arg': 'errorOnMax', 'expr': fname, 'stop': stop, 'via': via, 'decorator': deco,
                                        'case': 'unresolvable-at-start'}))
        for fname, f in _expr_forms('m'):
            for start, later in ((2, 5), (3, 1), ('2', 0), (1, 4)):
                for eom in (False, True):
                    w = {'max': cp(f), 'sleep': 1, 'errorOnMax': eom}
                    prog = build(w, {'m': later}, via, {'m': start}, deco)
                    it = int(start)
                    exp = {'events': wev(it, via) + [('OF' if eom else 'Z', ANY, ANY, ANY)], 'sleeps': [1] * (it - 1), 'nerr': 0,
                           'outcome': ('err', 'pypyr.errors.LoopMaxExhaustedError') if eom else 'ok'}
                    out.append((prog, exp, {'arg': 'max', 'expr': fname, 'start': json.dumps(start), 'later': later, 'errorOnMax': eom,
                                            'via': via, 'decorator': deco, 'case': 'body-changes'}))
            prog = build({'max': cp(f), 'stop': True}, {'m': 2}, via, {}, deco)
            out.append((prog, {'tags': ['OF'], 'outcome': ('err', ANY if fname == 'py' else 'pypyr.errors.KeyNotInContextError'), 'nerr': 0, 'sleeps': []},
                        {'arg': 'max', 'expr': fname, 'via': via, 'decorator': deco, 'case': 'unresolvable-at-start'}))
        for fname, f in _expr_forms('sl'):
            for start, later in ((1, 7), (3, 0), ('2', 9), (0, 5)):
                prog = build({'max': 3, 'sleep': cp(f)}, {'sl': later}, via, {'sl': start}, deco)
                exp = {'events': wev(3, via) + [('Z', ANY, ANY, ANY)], 'sleeps': [int(start)] * 2, 'outcome': 'ok', 'nerr': 0}
                out.append((prog, exp, {'arg': 'sleep', 'expr': fname, 'start': json.dumps(start), 'later': later, 'via': via,
                                        'decorator': deco, 'case': 'body-changes'}))
            prog = build({'max': 2, 'sleep': cp(f)}, {'sl': 1}, via, {}, deco)
            out.append((prog, {'tags': ['OF'], 'outcome': ('err', ANY if fname == 'py' else 'pypyr.errors.KeyNotInContextError'), 'nerr': 0, 'sleeps': []},
                        {'arg': 'sleep', 'expr': fname, 'via': via, 'decorator': deco, 'case': 'unresolvable-at-start'}))
        for fname, f in _expr_forms('done'):
            # stop: evaluated AFTER each iteration, on what the body left
            for start, later, iters in ((False, True, 1), (True, False, 3), ('no', 'TRUE', 1), (False, False, 3)):
                for eom in (False, True):
                    prog = build({'max': 3, 'stop': cp(f), 'errorOnMax': eom}, {'done': later}, via, {'done': start}, deco)
                    ends_on_stop = iters < 3
                    exp = {'events': wev(iters, via) + [('Z' if (ends_on_stop or not eom) else 'OF', ANY, ANY, ANY)], 'nerr': 0,
                           'sleeps': [0] * (iters - 1),
                           'outcome': 'ok' if (ends_on_stop or not eom) else ('err', 'pypyr.errors.LoopMaxExhaustedError')}
                    out.append((prog, exp, {'arg': 'stop', 'expr': fname, 'start': json.dumps(start), 'later': json.dumps(later),
                                            'errorOnMax': eom, 'via': via, 'decorator': deco, 'case': 'body-changes'}))
            # the key the stop expression reads does not exist when the loop starts: the body creates it in time
            prog = build({'max': 3, 'stop': cp(f)}, {'done': True}, via, {}, deco)
            out.append((prog, {'events': wev(1, via) + [('Z', ANY, ANY, ANY)], 'outcome': 'ok', 'nerr': 0},
                        {'arg': 'stop', 'expr': fname, 'via': via, 'decorator': deco, 'case': 'created-by-the-body'}))
            # ... or never: the first iteration runs, then the error (outside run / skip / swallow: never recorded)
            prog = build({'max': 3, 'stop': cp(f)}, {}, via, {}, deco)
            out.append((prog, {'events': wev(1, via) + [('OF', ANY, ANY, ANY)], 'nerr': 0,
                               'outcome': ('err', ANY if fname == 'py' else 'pypyr.errors.KeyNotInContextError')},
                        {'arg': 'stop', 'expr': fname, 'via': via, 'decorator': deco, 'case': 'never-resolvable'}))
    # foreach: the iterable is evaluated once (per while iteration), the body replaces the list it came from
    for (fname, f), wmax, deco in itertools.product(_expr_forms('lst'), (None, 2), (None, 'swallow', 'retry', 'run')):
        st = probe('W', set=D(lst=['n1', 'n2', 'n3']))
        st['foreach'] = cp(f)
        if wmax:
            st['while'] = {'max': wmax}
        if deco == 'swallow':
            st['swallow'] = True
        elif deco == 'retry':
            st['retry'] = {'max': 2}
        elif deco == 'run':
            st['run'] = '{go}'
        ev = [('W', x, 1 if wmax else ANY, ANY) for x in ('a', 'b')]
        if wmax:
            ev += [('W', x, 2, ANY) for x in ('n1', 'n2', 'n3')]
        prog = prog_of([['steps', [st, probe('Z')]], ['on_failure', [probe('OF')]]], ctx={'lst': ['a', 'b'], 'go': True})
        out.append((prog, {'events': ev + [('Z', ANY, ANY, ANY)], 'outcome': 'ok', 'nerr': 0},
                    {'arg': 'foreach', 'expr': fname, 'while_max': wmax, 'decorator': deco, 'case': 'body-changes', 'via': 'probe'}))
        st2 = cp(st)
        prog = prog_of([['steps', [st2, probe('Z')]], ['on_failure', [probe('OF')]]], ctx={'go': True})
        out.append((prog, {'tags': ['OF'], 'outcome': ('err', ANY if fname == 'py' else 'pypyr.errors.KeyNotInContextError'), 'nerr': 0},
                    {'arg': 'foreach', 'expr': fname, 'while_max': wmax, 'decorator': deco, 'case': 'unresolvable-at-start', 'via': 'probe'}))
    rng.shuffle(out)
    out = cover_first(out, lambda c: (c[2]['arg'], c[2]['case'], c[2]['expr']), lambda c: (c[2]['arg'], c[2]['case'], c[2]['via']),
                      lambda c: (c[2]['arg'], c[2].get('start'), c[2].get('stop')), lambda c: (c[2]['arg'], c[2]['decorator']))
    for prog, exp, meta in out[:n]:
        prog['budget_s'] = 5
        yield prog, exp, dict(meta, family='c05-when-evaluated')


def c06_when_family(rng, n):
    """A step with retry is re-executed until it succeeds or MAX attempts were made, sleeping the duration the
    strategy gives: max and sleep are what they evaluate to when the retry loop starts, whatever the failing body
    does to the keys afterwards; an argument that cannot be resolved then fails the step before the first attempt.
    stopOn / retryOn name errors: the lists are read when an attempt has failed - a list the body filled in by then
    counts."""
    out = []
    E = 'ValueError'
    for deco in (None, 'foreach', 'swallow'):
        def build(rcfg, sets, ctx, nfail, deco=deco):
            st = probe('R', fails=[E] * nfail + [None], failRest=E if nfail >= 9 else None, set=D(**sets))
            st['retry'] = rcfg
            if deco == 'foreach':
                st['foreach'] = ['x']
            elif deco == 'swallow':
                st['swallow'] = True
            return prog_of([['steps', [st, probe('Z')]], ['on_failure', [probe('OF')]]], ctx=dict(ctx, k='v'))
        for fname, f in _expr_forms('m'):
            for start, later in ((2, 5), (3, 1), ('2', 1), (4, 0)):
                it = int(start)
                prog = build({'max': cp(f), 'sleep': 1}, {'m': later}, {'m': start}, 9)
                sw = deco == 'swallow'
                exp = {'events': [('R', ANY, ANY, k + 1) for k in range(it)] + [('Z' if sw else 'OF', ANY, ANY, ANY)],
                       'sleeps': [1] * (it - 1), 'nerr': 1, 'outcome': 'ok' if sw else ('err', E)}
                out.append((prog, exp, {'arg': 'max', 'expr': fname, 'start': json.dumps(start), 'later': later, 'decorator': deco,
                                        'case': 'body-changes'}))
            prog = build({'max': cp(f)}, {'m': 2}, {}, 9)
            sw = deco == 'swallow'
            # the retry loop is inside run / skip / swallow: this error is the step's error (recorded; swallowed if asked)
            out.append((prog, {'tags': ['Z'] if sw else ['OF'], 'nerr': 1, 'sleeps': [],
                               'outcome': 'ok' if sw else ('err', ANY if fname == 'py' else 'pypyr.errors.KeyNotInContextError')},
                        {'arg': 'max', 'expr': fname, 'decorator': deco, 'case': 'unresolvable-at-start'}))
        for fname, f in _expr_forms('sl'):
            for start, later in ((1, 7), (3, 0), (0, 4)):
                prog = build({'max': 4, 'sleep': cp(f)}, {'sl': later}, {'sl': start}, 2)
                exp = {'events': [('R', ANY, ANY, k + 1) for k in range(3)] + [('Z', ANY, ANY, ANY)], 'sleeps': [start] * 2,
                       'nerr': 0, 'outcome': 'ok'}
                out.append((prog, exp, {'arg': 'sleep', 'expr': fname, 'start': json.dumps(start), 'later': later, 'decorator': deco,
                                        'case': 'body-changes'}))
            prog = build({'max': 3, 'sleep': cp(f)}, {'sl': 1}, {}, 2)
            sw = deco == 'swallow'
            out.append((prog, {'tags': ['Z'] if sw else ['OF'], 'nerr': 1, 'sleeps': [],
                               'outcome': 'ok' if sw else ('err', ANY if fname == 'py' else 'pypyr.errors.KeyNotInContextError')},
                        {'arg': 'sleep', 'expr': fname, 'decorator': deco, 'case': 'unresolvable-at-start'}))
        for fname, f in _expr_forms('names'):
            for arg in ('stopOn', 'retryOn'):
                for start, later in (([], [E]), ([E], ['KeyError']), (['KeyError'], [E])):
                    # read when the first attempt has failed: `later` (the body has set it by then) decides
                    if not start:
                        ctx = {}
                    else:
                        ctx = {'names': start}
                    prog = build({'max': 3, arg: cp(f)}, {'names': later}, ctx, 9)
                    stops_now = (arg == 'stopOn' and E in later) or (arg == 'retryOn' and E not in later)
                    it = 1 if stops_now else 3
                    sw = deco == 'swallow'
                    exp = {'events': [('R', ANY, ANY, k + 1) for k in range(it)] + [('Z' if sw else 'OF', ANY, ANY, ANY)],
                           'sleeps': [0] * (it - 1), 'nerr': 1, 'outcome': 'ok' if sw else ('err', E)}
                    out.append((prog, exp, {'arg': arg, 'expr': fname, 'start': json.dumps(start), 'later': json.dumps(later),
                                            'decorator': deco, 'case': 'body-changes'}))
    rng.shuffle(out)
    out = cover_first(out, lambda c: (c[2]['arg'], c[2]['case'], c[2]['expr']), lambda c: (c[2]['arg'], c[2].get('start')),
                      lambda c: (c[2]['arg'], c[2]['decorator']))
    for prog, exp, meta in out[:n]:
        prog['budget_s'] = 5
        yield prog, exp, dict(meta, family='c06-when-evaluated')


# --------------------------------------------------------------------------
# C02 / C03: instruction configuration that lives in the context, used twice
# --------------------------------------------------------------------------

def c02_config_in_context_family(rng, n):
    """call / switch are instructions: executing one reports success and execution resumes after the calling step
    with the caller's own call / switch configuration in context again that of the caller - whatever the called
    groups did to the key (a nested call with its own `in` removes it when it completes; a step overwrites or deletes
    it; the context is cleared) and whatever the caller looks like: a bare step name without `in` and without any
    decorator, a mapping, under loops. So a configuration kept in the context can be used twice: by the same step
    in its next iteration, by a second bare step. jump reads its configuration afresh where it stands."""
    out = []
    cfgs = [('str', 'g', False), ('list', ['g'], False), ('map', D(groups=['g'], success='gs'), True), ('fmt', '{gname}', False),
            ('map-tuple', D(groups='{gtup}', success='gs'), True)]
    callee_does = ['nested-in', 'nested-in-twice', 'set', 'del', 'clearall', 'nested-bare-other-key', 'nothing', 'nested-fails-swallowed']
    shapes = ['bare', 'mapping', 'mapping-other-in', 'foreach', 'while', 'retry', 'swallow']
    for instr in ('call', 'switch'):
        for (clabel, cfg, has_gs), does, shape, again in itertools.product(cfgs, callee_does, shapes, ('second-step', 'none', 'in-called')):
            if shape in ('foreach', 'while') and again == 'none':
                pass
            out.append((instr, clabel, cfg, has_gs, does, shape, again))
    rng.shuffle(out)
    out = cover_first(out, lambda c: (c[0], c[4], c[5]), lambda c: (c[0], c[1], c[6]), lambda c: (c[4], c[6]), lambda c: (c[1], c[5]))
    for instr, clabel, cfg, has_gs, does, shape, again in out[:n]:
        key = instr
        mod = 'pypyr.steps.' + instr
        conf = cp(cfg) if instr == 'call' else [D(case='{no}', call='nogroup'), D(case=True, call=cp(cfg))]
        inner_conf = 'h' if instr == 'call' else [D(case=True, call='h')]
        other_conf = 'h2' if instr == 'call' else [D(case=True, call='h2')]
        nested = {'name': mod, 'in': [[key, inner_conf]]}
        g = [probe('G', keys=[key])]
        gtags = ['G']
        if does == 'nested-in':
            g.append(nested)
            gtags += ['H']
        elif does == 'nested-in-twice':
            g += [cp(nested), {'name': mod, 'in': [[key, other_conf]]}]
            gtags += ['H', 'H2']
        elif does == 'set':
            g.append(probe('S', set={'d': [[key, other_conf]]}))
            gtags += ['S']
        elif does == 'del':
            g.append(probe('S', **{'del': [key]}))
            gtags += ['S']
        elif does == 'clearall':
            g.append(probe('S', clearAll=True))
            gtags += ['S']
        elif does == 'nested-bare-other-key':
            # the called group overwrites the key and uses it bare itself
            g += [probe('S', set={'d': [[key, other_conf]]}), mod]
            gtags += ['S', 'H2']
        elif does == 'nested-fails-swallowed':
            nf = {'name': mod, 'in': [[key, 'hfail' if instr == 'call' else [D(case=True, call='hfail')]]], 'swallow': True}
            g.append(nf)
            gtags += ['HF']
        g.append(probe('G2'))
        gtags.append('G2')
        if has_gs:
            gtags.append('GS')
        if shape == 'bare':
            st, iters = mod, 1
        else:
            st, iters = {'name': mod}, 1
            if shape == 'mapping-other-in':
                st['in'] = [['unrelated', 1]]
            elif shape == 'foreach':
                st['foreach'] = ['p', 'q']
                iters = 2
            elif shape == 'while':
                st['while'] = {'max': 2}
                iters = 2
            elif shape == 'retry':
                st['retry'] = {'max': 2}
            elif shape == 'swallow':
                st['swallow'] = True
        uses = iters * (2 if again == 'second-step' else 1)
        ctx = {key: conf, 'gname': 'g', 'gtup': T('g'), 'no': False, 'k': 'v'}
        after = probe('Z', keys=[key])
        steps = [probe('A'), st] + ([cp(st)] if again == 'second-step' else []) + [after]
        groups_t = [['g', g], ['gs', [probe('GS')]], ['h', [probe('H')]], ['h2', [probe('H2')]],
                    ['hfail', [probe('HF', failRest='ValueError')]], ['on_failure', [probe('OF')]]]
        if again == 'in-called':
            groups = [['steps', [probe('A0'), {'name': 'pypyr.steps.call', 'in': [['call', 'outer']]} if instr != 'call' else
                                 {'name': 'pypyr.steps.switch', 'in': [['switch', [D(case=True, call='outer')]]]}, probe('Z0')]],
                      ['outer', steps]] + groups_t
            tags = ['A0', 'A'] + gtags * uses + ['Z', 'Z0']
        else:
            groups = [['steps', steps]] + groups_t
            tags = ['A'] + gtags * uses + ['Z']
        exp = {'tags': tags, 'outcome': 'ok', 'nerr': 1 * uses if does == 'nested-fails-swallowed' else 0}
        if does == 'clearall':
            # everything else is gone, the caller's own configuration is back; `gname` / `gtup` / `no` went with the rest,
            # so only configurations that need no other key can be used again
            if clabel in ('fmt', 'map-tuple') or instr == 'switch' or again == 'in-called':
                continue
            exp = {'tags': tags, 'outcome': 'ok', 'nerr': 0}
        exp['first_keys_of'] = ('Z', {key: conf})
        prog = prog_of(groups, ctx=ctx)
        prog['budget_s'] = 5
        yield prog, exp, {'family': 'c02-config-in-context-twice', 'instruction': instr, 'config': clabel, 'called_group': does,
                          'caller': shape, 'again': again}


def c02_jump_config_in_context_family(rng, n):
    """jump with its configuration kept in the context: each bare jump step reads the key where it stands - a
    group that was jumped to may set the next target and jump on by the same key."""
    out = []
    for form in ('fmt', 'str', 'map', 'map-tuple', 'list'):
        for shape in ('bare', 'mapping', 'foreach', 'retry'):
            first = {'fmt': '{nxt}', 'str': 't1', 'map': D(groups=['t1']), 'map-tuple': D(groups='{ntup}'), 'list': ['t1']}[form]
            second = {'fmt': '{nxt}', 'str': 't2', 'map': D(groups=['t2'], success='ts'), 'map-tuple': D(groups='{ntup}'),
                      'list': ['t2', 't3']}[form]
            st = 'pypyr.steps.jump' if shape == 'bare' else {'name': 'pypyr.steps.jump'}
            if shape == 'foreach':
                st['foreach'] = ['p', 'q']
            elif shape == 'retry':
                st['retry'] = {'max': 3}
            if form == 'map-tuple':
                second = D(groups='{ntup2}')
            sets = {'jump': second, 'nxt': 't2'}
            groups = [['steps', [probe('A'), cp(st), probe('B')]],
                      ['t1', [probe('T1', set={'d': [[k, v] for k, v in sets.items()]}), cp(st), probe('N1')]],
                      ['t2', [probe('T2')]], ['t3', [probe('T3')]], ['ts', [probe('TS')]], ['on_success', [probe('OS')]]]
            tail = {'fmt': ['T2'], 'str': ['T2'], 'map': ['T2', 'TS'], 'map-tuple': ['T2', 'T3'], 'list': ['T2', 'T3']}[form]
            prog = prog_of(groups, ctx={'jump': first, 'nxt': 't1', 'ntup': T('t1'), 'ntup2': T('t2', 't3'), 'k': 'v'})
            prog['budget_s'] = 5
            out.append((prog, {'tags': ['A', 'T1'] + tail + ['OS'], 'outcome': 'ok', 'nerr': 0},
                        {'family': 'c02-jump-config-in-context', 'config': form, 'caller': shape}))
    rng.shuffle(out)
    out = cover_first(out, lambda c: c[2]['config'], lambda c: c[2]['caller'])
    yield from out[:n]
