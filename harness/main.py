"""Entry point: python -m harness.main Cxx [--tier quick|thorough] [--replay file]."""
import argparse
import importlib
import os
import sys
import traceback

from . import common


def main():
    ap = argparse.ArgumentParser()
    ap.add_argument('prop')
    ap.add_argument('--tier', default=os.environ.get('VERIF_TIER', 'quick'), choices=['quick', 'thorough'])
    ap.add_argument('--replay')
    a = ap.parse_args()
    seed = int(os.environ.get('VERIF_SEED', '20260930'))
    pid = a.prop.upper()
    try:
        module = importlib.import_module(f'harness.props.{pid.lower()}')
        rc = common.run_check(pid, module, a.tier, seed, a.replay)
    except common.Infra as e:
        print(f'INFRASTRUCTURE FAILURE (no verdict): {e}', file=sys.stderr)
        sys.exit(2)
    except Exception:
        traceback.print_exc()
        print('INFRASTRUCTURE FAILURE (no verdict): harness crashed', file=sys.stderr)
        sys.exit(2)
    sys.exit(rc)


if __name__ == '__main__':
    main()
