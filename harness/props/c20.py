"""C20 — configuration precedence and merge.

Model: lean/PypyrModel/Config.lean (`initSt`), theorems: lean/Props/C20.lean.
Implementation: `pypyr.config.config.init()` in a FRESH SUBPROCESS per configuration
(harness/impl_c20.py + impl_c20_child.py) with a scratch cwd, scratch $HOME and a scrubbed
environment; observed: error type/kind, every writable prop after the call (also after a
failing call), skip_init, config_loaded_paths, the handle_path call sequence.

Besides the one-call configurations there are HISTORIES (`history_cases`): one process imports pypyr (the
module singleton is built), then the environment is changed, further `Config()` objects are built, `init()` is
called - on the singleton and on the new objects, once or several times - with the environment changed in
between. Model: `config.session` (`Op`, `runOps`, `initOn`). Every step is observed (settings, loaded paths,
handle_path calls, files opened below the scratch root through an audit hook, os.environ as the child saw it).
Monitor: every `init()` is judged against the environment AT THE MOMENT IT RUNS and the settings the object had
just before the call; a fresh `Config()` against the documented defaults.

Two judgements per case:
  * correspondence: model observation == implementation observation (res.mismatch);
  * monitor (`judge`): written from the property text alone, no Lean model involved — who must
    win per scalar, key-wise union per dict, ConfigError for unknown key / non-mapping /
    missing $PYPYR_CONFIG_GLOBAL, defaults under $PYPYR_SKIP_INIT (res.violation).
"""
from __future__ import annotations

import json

from .. import common
from .. import impl_c20
from ..common import canon

LEAN_MODULES = ['Props.C20']
TRUSTED = ['harness/props/c20.py (layout/assignment generators, yaml+toml renderers, monitor)',
           'harness/impl_c20.py + impl_c20_child.py (scratch tree, subprocess, script of env changes / Config() / init() '
           'steps, handle_path recorder, audit hook recording opened files); the harness\'s book-keeping of the '
           'environment per step is cross-checked against os.environ as seen by the child',
           'harness/extract_c20.py (ast -> Generated/ConfigProps.lean)',
           'stream rawyaml: a yaml text loaded ALONE in a pristine process (impl_c20.load_alone: fresh interpreter of the tree under test, '
           'fresh Config().load_yaml) is "what that file states"',
           'ruamel.yaml / tomllib parse the rendered files to the payload the case declares '
           '(validated by the correspondence itself)']
ASSUMPTIONS = ['TextOnly (lean/PypyrModel/Config.lean): the mapping of a config file is a function of its text alone - assumed by the theorems '
               'of Props/C20.lean section 15, TESTED by the stream rawyaml (every file also loaded alone in a pristine process) and tied '
               'statically (parser_per_load_agrees: load_yaml builds its parser inside the call)',
               'pathlib joins paths the posix way: the macOS and Windows branches of pypyr.platform are tied on this posix host '
               'with sys.platform / os.pathsep patched in the child (ntpath is not modelled)',
               'an environment with $ANDROID_DATA=/data and $ANDROID_ROOT=/system declares the platform to be Android (that is how '
               'pypyr decides it): the Android branch (jnius / sys.path scan for the app folder; OSError out of init() when there is none) '
               'is outside the judged domain - the monitor gives no verdict on such cases (counted), only model == implementation is '
               'checked on them (without jnius)',
               'relative values of $XDG_CONFIG_HOME / entries of $XDG_CONFIG_DIRS (cfg/user: read against the working directory, the code '
               'joins pypyr/config.yaml onto the value as it is) are OUTSIDE the judged domain: the property text leaves the locations to '
               'pypyr.platform, and the docs (docs/adr/0004-config-files.md: "follow the XDG Base dir spec") point to a spec under which a '
               'relative value is invalid and to be ignored - neither "such a file is a config file found" nor "it must be ignored" can be '
               'read off the property. Such environments are generated (with a decoy in ~/.config), the monitor gives no verdict on them '
               '(counted: relative-xdg:outside-the-judged-domain) and model == implementation is checked: the model mirrors the code as it '
               'is (relative values are honoured, ~/.config is not consulted when $XDG_CONFIG_HOME is non-blank)',
               'config files decode identically under every default_encoding value in play: '
               'load_yaml opens later files with the *current* default_encoding, which the model does not follow',
               'environment values are ASCII; directory names are clean paths (no trailing/double slash)',
               'a dict prop (vars/shortcuts) value is a mapping, a list whose elements are [str, value] pairs or values '
               'dict.update refuses, a string, None, a bool or a number; the exception CLASS a parser raises for a file that does '
               'not parse is declared by the case and checked against the implementation',
               'the process runs as root: a file without read permission cannot be produced (PermissionError is an OSError like '
               'the ones that are produced: a directory, a path through a regular file, a symlink loop)']

S = impl_c20.ROOT

SCALARS = ['json_ascii', 'json_indent', 'pipelines_subdir', 'log_config', 'log_date_format', 'log_notify_format',
           'log_detail_format', 'default_backoff', 'default_cmd_encoding', 'default_encoding', 'default_loader',
           'default_group', 'default_success_group', 'default_failure_group', 'no_cache']
DICTS = ['shortcuts', 'vars']
# the documented defaults (docs: "config file" page) - the monitor's notion of "the defaults"
DEFAULTS = {'json_ascii': False, 'json_indent': 2, 'pipelines_subdir': 'pipelines', 'log_config': None,
            'log_date_format': '%Y-%m-%d %H:%M:%S', 'log_notify_format': '%(message)s',
            'log_detail_format': '%(asctime)s %(levelname)s:%(name)s:%(funcName)s: %(message)s',
            'default_backoff': 'fixed', 'default_cmd_encoding': None, 'default_encoding': None,
            'default_loader': 'pypyr.loaders.file', 'default_group': 'steps',
            'default_success_group': 'on_success', 'default_failure_group': 'on_failure', 'no_cache': False,
            'shortcuts': {}, 'vars': {}}
TRUTHY = ('true', '1', '1.0')


# --------------------------------------------------------------------------
# values, payloads, renderers
# --------------------------------------------------------------------------

def enc(v):
    if v is None or isinstance(v, (bool, int, str)):
        return v
    if isinstance(v, list):
        return [enc(x) for x in v]
    if isinstance(v, dict):
        return {'d': [[enc(k), enc(x)] for k, x in v.items()]}
    raise ValueError(v)


def key_str(k):
    return k if isinstance(k, str) else f'<non-str {k!r}>'


def payload_wire(obj):
    """The payload a loader hands to handle_path, as the model sees it."""
    if obj is None:
        return {'kind': 'none'}
    if isinstance(obj, dict):
        return {'kind': 'map', 'kvs': [[key_str(k), enc(v)] for k, v in obj.items()]}
    return {'kind': 'nonmap', 'truthy': bool(obj)}


YAML_WORDS = {'true', 'false', 'null', 'none', 'yes', 'no', 'on', 'off', 'y', 'n', 'nan', 'inf'}


def yaml_key(k):
    """a str key: plain when that is safe (ASCII name that YAML does not read as bool / null / number), else double-quoted;
    a non-str key (int, bool, None, float): its YAML literal"""
    plain = (isinstance(k, str) and k.isascii() and k.replace('_', '').isalnum() and not k[0].isdigit()
             and k.lower() not in YAML_WORDS)
    return k if plain else json.dumps(k)


def yaml_text(obj, style=0):
    """obj (None = empty document) -> yaml text. style 0: block mapping with JSON flow values,
    1: one JSON flow document, 2: block with a comment and document start marker."""
    if obj is None:
        return ['', '# nothing here\n', '---\n', 'null\n', '~\n'][style % 5]
    if not isinstance(obj, dict) or not obj:
        return json.dumps(obj) + '\n'
    if style % 3 == 1:      # one flow mapping (json.dumps would turn a non-str key into a string)
        return '{' + ', '.join(f'{yaml_key(k)}: {json.dumps(v)}' for k, v in obj.items()) + '}\n'
    head = '---\n# generated\n' if style % 3 == 2 else ''
    return head + ''.join(f'{yaml_key(k)}: {json.dumps(v)}\n' for k, v in obj.items())


def toml_text(table, mode='table'):
    """pyproject.toml whose [tool.pypyr] is `table` (mode 'table'), or a file without one."""
    import tomli_w
    doc = {'project': {'name': 'scratch', 'version': '0.0.1'}}
    if mode == 'notool':
        return tomli_w.dumps(doc)
    if mode == 'othertool':
        doc['tool'] = {'other': {'x': 1}}
        return tomli_w.dumps(doc)
    if mode == 'empty':
        return ''
    doc['tool'] = {'other': {'x': 1}, 'pypyr': table}
    return tomli_w.dumps(doc)


def rawfile(path, payload, text=None, hexbytes=None, fskind=None):
    """A case file whose content is given literally (syntax errors, undecodable bytes, a directory in its place)."""
    f = {'path': path, 'text': text if text is not None else '', 'payload': payload}
    if hexbytes is not None:
        f['hex'] = hexbytes
    if fskind is not None:
        f['fskind'] = fskind
    return f


def mkfile(path, obj, style=0, toml_mode='table'):
    """A case file entry: the path, the text written, the payload it denotes."""
    if path == 'pyproject.toml':
        if obj is None and toml_mode == 'table':
            toml_mode = ('notool', 'othertool', 'empty')[style % 3]
        text = toml_text(obj, toml_mode)
        payload = payload_wire(obj if toml_mode == 'table' else None)
    else:
        text = yaml_text(obj, style)
        payload = payload_wire(obj)
    return {'path': path, 'text': text, 'payload': payload}


# --------------------------------------------------------------------------
# layouts: where the generator puts files, and what the property says about their order
# --------------------------------------------------------------------------

def layout(commons=('c1', 'c2'), user='xh', glob=None, local=None, skip=None, extra=None, dirs_raw=None):
    """-> (env, spec). commons: dir names in LISTED order; user: dir name or None (=> ~/.config);
    glob: file name under @S or None; local: $PYPYR_CONFIG_LOCAL or None."""
    env = {'HOME': f'{S}/home'}
    if dirs_raw is not None:
        env['XDG_CONFIG_DIRS'] = dirs_raw
    elif commons is not None:
        env['XDG_CONFIG_DIRS'] = ':'.join(f'{S}/{c}' for c in commons)
    if user is not None:
        env['XDG_CONFIG_HOME'] = f'{S}/{user}'
    if glob is not None:
        env['PYPYR_CONFIG_GLOBAL'] = f'{S}/{glob}'
    if local is not None:
        env['PYPYR_CONFIG_LOCAL'] = local
    if skip is not None:
        env['PYPYR_SKIP_INIT'] = skip
    env.update(extra or {})
    common_files = [f'{S}/{c}/pypyr/config.yaml' for c in (commons or [])]
    user_file = f'{S}/{user}/pypyr/config.yaml' if user is not None else f'{S}/home/.config/pypyr/config.yaml'
    local_file = local if local else 'pypyr-config.yaml'
    # increasing precedence, as the property states it
    if glob is not None:
        order = [f'{S}/{glob}']
    else:
        order = list(reversed(common_files)) + [user_file]
    order += ['pyproject.toml', local_file]
    spec = {'android': env.get('ANDROID_DATA') == '/data' and env.get('ANDROID_ROOT') == '/system',
            'skip': skip is not None and skip.lower() in TRUTHY,
            'global': f'{S}/{glob}' if glob is not None else None,
            'order': order,
            'ignored': (common_files + [user_file]) if glob is not None else []}
    return env, spec


def spec_defaults(env):
    d = dict(DEFAULTS)
    d['default_cmd_encoding'] = env.get('PYPYR_CMD_ENCODING')
    d['default_encoding'] = env.get('PYPYR_ENCODING')
    d['no_cache'] = env.get('PYPYR_NO_CACHE', '0').lower() in TRUTHY
    return d


# --------------------------------------------------------------------------
# assignments of settings to files
# --------------------------------------------------------------------------

def tag_of(path):
    return path.replace(S + '/', '').replace('/pypyr/config.yaml', '').replace('/', '_')


def scalar_value(rng, prop, tag, idx, toml):
    if prop in ('json_ascii', 'no_cache'):
        return rng.random() < 0.5
    if prop == 'json_indent':
        return 10 + idx
    if prop == 'log_config':
        if not toml and rng.random() < 0.15:
            return None
        return {'version': 1, 'from_' + tag: idx, 'handlers': {'h_' + tag: {'level': 'INFO'}}}
    if prop == 'default_encoding':
        pool = ['utf-8', 'ascii', 'latin-1'] + ([] if toml else [None])
        return rng.choice(pool)
    return f'{prop}@{tag}'


def dict_value(rng, name, key, tag, idx):
    if name == 'shortcuts':
        return {'pipeline_name': f'p-{tag}', 'args': [key, tag, idx]}
    return rng.choice([f'{key}@{tag}', idx, [tag, idx], {'from': tag}, {tag: idx}, True])


def assign(rng, paths, res=None):
    """paths: existing files in increasing precedence. -> {path: mapping}: each scalar and each dict
    key is set by 0..3 of the files, with values that name the file."""
    out = {p: {} for p in paths}
    n_choices = [0, 1, 1, 2, 2, 3]
    for prop in SCALARS:
        n = min(rng.choice(n_choices), len(paths))
        chosen = rng.sample(paths, n)
        if res:
            res.count(f'scalar_set_by:{n}')
        for p in chosen:
            out[p][prop] = scalar_value(rng, prop, tag_of(p), paths.index(p), p == 'pyproject.toml')
    for name, keys in (('vars', ['a', 'b', 'c', 'd', 'e']), ('shortcuts', ['s1', 's2', 's3'])):
        for key in keys:
            n = min(rng.choice(n_choices), len(paths))
            if res:
                res.count(f'dictkey_set_by:{n}')
            for p in rng.sample(paths, n):
                out[p].setdefault(name, {})[key] = dict_value(rng, name, key, tag_of(p), paths.index(p))
        for p in paths:
            if name not in out[p] and rng.random() < 0.1:
                out[p][name] = {}
    for p in paths:   # shuffle key order inside each file
        items = list(out[p].items())
        rng.shuffle(items)
        out[p] = dict(items)
    return out


def build_case(tag, env, spec, contents, rng=None, dirs=None, toml_modes=None):
    """contents: {path: python payload object (None = empty file)}."""
    files = []
    for i, (p, obj) in enumerate(contents.items()):
        style = rng.randrange(6) if rng else i
        files.append(mkfile(p, obj, style, (toml_modes or {}).get(p, 'table')))
    case = {'tag': tag, 'env': env, 'files': files, 'spec': spec}
    if dirs:
        case['dirs'] = dirs
    return case


# --------------------------------------------------------------------------
# case streams
# --------------------------------------------------------------------------

LOCS = ['ca', 'cb', 'user', 'pyproject', 'local']


def subset_cases(rng, res, with_global):
    """All 2^5 subsets of {first-listed common, second-listed common, user, pyproject, local}
    existing, $PYPYR_CONFIG_GLOBAL unset / set and existing."""
    out = []
    for mask in range(32):
        env, spec = layout(commons=('c1', 'c2'), user='xh', glob='g.yaml' if with_global else None)
        where = {'ca': f'{S}/c1/pypyr/config.yaml', 'cb': f'{S}/c2/pypyr/config.yaml',
                 'user': f'{S}/xh/pypyr/config.yaml', 'pyproject': 'pyproject.toml', 'local': 'pypyr-config.yaml'}
        present = [where[l] for i, l in enumerate(LOCS) if mask >> i & 1]
        if with_global:
            present.append(f'{S}/g.yaml')
        # precedence order among the present ones (ignored files last: they get settings too)
        prec = [p for p in spec['order'] if p in present] + [p for p in spec['ignored'] if p in present]
        contents = assign(rng, prec, res)
        out.append(build_case(f"subset:{'global+' if with_global else ''}{mask:05b}", env, spec, contents, rng))
    return out


BAD = [('list-empty', []), ('list', [1, 2]), ('int-zero', 0), ('int', 5), ('str-empty', ''), ('str', 'text'),
       ('bool-false', False), ('bool-true', True),
       ('unknown-key', {'no_such_prop': 1}),
       ('unknown-with-valid', {'json_indent': 77, 'vars': {'leak': 1}, 'jsonIndent': 4, 'default_group': 'leak'}),
       ('unknown-case', {'Vars': {'a': 1}}),
       ('nonstr-key', {1: 'x', 'json_indent': 78})]
BENIGN = [('empty-file', None), ('empty-map', {})]
WHERE = {'common': f'{S}/c1/pypyr/config.yaml', 'common-low': f'{S}/c2/pypyr/config.yaml',
         'user': f'{S}/xh/pypyr/config.yaml', 'global': f'{S}/g.yaml',
         'pyproject': 'pyproject.toml', 'local': 'pypyr-config.yaml'}


def malformed_cases(rng, res, quick):
    out = []
    locs = ['common', 'common-low', 'user', 'global', 'pyproject', 'local']
    k = 0
    for name, obj in BAD + BENIGN:
        for li, loc in enumerate(locs):
            k += 1
            if quick and (k + li) % 3 != 0 and not (name in ('list-empty', 'int-zero', 'str-empty') and loc in ('local', 'pyproject')):
                continue
            if loc == 'pyproject' and name == 'nonstr-key':
                continue            # toml keys are strings
            glob = 'g.yaml' if loc == 'global' else None
            env, spec = layout(commons=('c1', 'c2'), user='xh', glob=glob)
            target = WHERE[loc]
            others = [p for p in spec['order'] if p != target]
            good = assign(rng, rng.sample(others, min(len(others), rng.choice([1, 2, 3]))))
            contents = {p: good[p] for p in spec['order'] if p in good}
            contents[target] = obj
            out.append(build_case(f'malformed:{name}@{loc}', env, spec, contents, rng))
    # unknown key low, valid settings in a higher-precedence file (never reached)
    env, spec = layout()
    out.append(build_case('malformed:unknown-low-valid-high', env, spec,
                          {f'{S}/c2/pypyr/config.yaml': {'bogus': 1, 'json_indent': 5},
                           'pypyr-config.yaml': {'json_indent': 6, 'vars': {'a': 1}}}))
    # valid low, unknown high: the low ones are already applied when the error comes
    env, spec = layout()
    out.append(build_case('malformed:valid-low-unknown-high', env, spec,
                          {f'{S}/c1/pypyr/config.yaml': {'json_indent': 5, 'vars': {'a': 1}},
                           'pypyr-config.yaml': {'json_indent': 6, 'bogus': 1, 'vars': {'b': 2}}}))
    # pyproject without [tool.pypyr] in its various shapes
    for mode in ('notool', 'othertool', 'empty'):
        env, spec = layout()
        out.append(build_case(f'benign:pyproject-{mode}', env, spec,
                              {'pyproject.toml': None, 'pypyr-config.yaml': {'json_indent': 3}},
                              toml_modes={'pyproject.toml': mode}))
    # every style of an empty yaml document
    for style in range(5):
        env, spec = layout()
        c = build_case(f'benign:empty-yaml-{style}', env, spec, {f'{S}/xh/pypyr/config.yaml': {'json_indent': 3}})
        c['files'].append(mkfile('pypyr-config.yaml', None, style))
        out.append(c)
    # dict prop that is not a mapping: TypeError, outside the property text (correspondence only)
    for v in (None, 5, False):
        env, spec = layout()
        out.append(build_case(f'dictprop-not-mapping:{v!r}', env, spec,
                              {f'{S}/c1/pypyr/config.yaml': {'json_indent': 5, 'vars': {'a': 1}},
                               'pypyr-config.yaml': {'json_indent': 6, 'vars': v}}))
    return out


def env_cases(rng, res, quick):
    out = []
    everywhere = [f'{S}/c1/pypyr/config.yaml', f'{S}/c2/pypyr/config.yaml', f'{S}/xh/pypyr/config.yaml',
                  'pyproject.toml', 'pypyr-config.yaml']

    def full(tag, env, spec, extra_files=None, dirs=None, only=None):
        present = [p for p in spec['order']] + [p for p in spec['ignored']]
        present = list(dict.fromkeys(p for p in present if not p.startswith('/etc') and (only is None or p in only)))
        contents = assign(rng, present, res)
        contents.update(extra_files or {})
        out.append(build_case(tag, env, spec, contents, rng, dirs=dirs))

    # $PYPYR_SKIP_INIT spellings, files everywhere (one of them malformed: must not matter when skipping)
    for v in ['1', 'true', 'TRUE', 'True', '1.0', '0', 'false', '', 'yes', '2', 'tRuE']:
        env, spec = layout(skip=v)
        bad = {'pypyr-config.yaml': []} if spec['skip'] else {}
        full(f'env:skip={v!r}', env, spec, bad)
    env, spec = layout(skip='1', glob='missing.yaml')
    full('env:skip+global-missing', env, spec, only=everywhere)
    # $PYPYR_CONFIG_GLOBAL: missing (must raise), a directory, empty string (= unset), empty file
    for mask in ([0b11111, 0b00000] if quick else [0b11111, 0b00000, 0b10101, 0b01010]):
        env, spec = layout(glob='missing.yaml')
        only = [p for i, p in enumerate(everywhere) if mask >> i & 1]
        full(f'env:global-missing:{mask:05b}', env, spec, only=only)
    env, spec = layout(glob='gdir')
    full('env:global-is-directory', env, spec, dirs=[f'{S}/gdir'], only=everywhere)
    env, spec = layout(extra={'PYPYR_CONFIG_GLOBAL': ''})
    full('env:global-empty-string', env, spec)
    env, spec = layout(glob='g.yaml')
    full('env:global-empty-file', env, spec, {f'{S}/g.yaml': None})
    # $XDG_CONFIG_DIRS shapes
    for n in (1, 3):
        env, spec = layout(commons=tuple(f'c{i}' for i in range(1, n + 1)))
        full(f'env:dirs-{n}', env, spec)
    env, spec = layout(commons=('c1', 'c2', 'c3'))
    env['XDG_CONFIG_DIRS'] = f'{S}/c1::{S}/c2: :{S}/c3:'
    full('env:dirs-blank-entries', env, spec)
    env, spec = layout(commons=('c1', 'c2', 'c1'))
    full('env:dirs-duplicate', env, spec)
    env, spec = layout(commons=('c1', 'xh'), user='xh')
    full('env:dirs-include-user-dir', env, spec)
    import os
    if not os.path.exists('/etc/xdg/pypyr/config.yaml'):
        for raw in (None, '', '  '):
            env, spec = layout(commons=None, dirs_raw=raw)
            spec['order'] = ['/etc/xdg/pypyr/config.yaml'] + spec['order']
            full(f'env:dirs-default:{raw!r}', env, spec)
    # $XDG_CONFIG_HOME unset / blank -> ~/.config
    for raw in (None, '', ' '):
        env, spec = layout(user=None)
        if raw is not None:
            env['XDG_CONFIG_HOME'] = raw
        full(f'env:home-default:{raw!r}', env, spec)
    # $PYPYR_CONFIG_LOCAL
    env, spec = layout(local='alt.yaml')
    full('env:local-custom', env, spec, {'pypyr-config.yaml': {'json_indent': 99, 'bogus': 1}})   # not looked at
    env, spec = layout(local='sub/alt.yaml')
    full('env:local-subdir', env, spec)
    env, spec = layout(local='nope.yaml')
    full('env:local-missing', env, spec, only=everywhere)
    env, spec = layout(extra={'PYPYR_CONFIG_LOCAL': ''})
    spec['order'] = spec['order'][:-1] + ['.']
    full('env:local-empty-string', env, spec, {'pypyr-config.yaml': {'json_indent': 99}}, only=everywhere[:4])
    # env-derived defaults, overridden by files or not
    for extra in ({'PYPYR_NO_CACHE': '1'}, {'PYPYR_NO_CACHE': 'TRUE'}, {'PYPYR_NO_CACHE': 'x'},
                  {'PYPYR_ENCODING': 'utf-8', 'PYPYR_CMD_ENCODING': 'latin-1'},
                  {'PYPYR_ENCODING': 'ascii', 'PYPYR_NO_CACHE': '1.0', 'PYPYR_SKIP_INIT': '1'}):
        env, spec = layout(extra=extra, skip=extra.get('PYPYR_SKIP_INIT'))
        full(f'env:defaults:{sorted(extra.items())}', env, spec)
        env, spec = layout(extra=extra, skip=extra.get('PYPYR_SKIP_INIT'))
        out.append(build_case(f'env:defaults-nofiles:{sorted(extra.items())}', env, spec, {}))
    return out


def relative_xdg_cases(rng, res, quick):
    """$XDG_CONFIG_HOME / entries of $XDG_CONFIG_DIRS given RELATIVE to the working directory (cfg/user, cfg/site): the code joins
    `pypyr/config.yaml` onto the value as it is, so open() reads them against the cwd. Whether a relative value "is" a config
    location is not settled by the property text + docs (docs/adr/0004: "follow the XDG Base Dir spec", which says relative
    values are invalid and to be ignored): spec['relative_xdg'] - no verdict from the monitor, model == implementation only.
    A decoy sits in the DEFAULT user location (~/.config), which is not in play when $XDG_CONFIG_HOME is non-blank."""
    out = []
    decoy = f'{S}/home/.config/pypyr/config.yaml'
    shapes = [
        (['cfg/site', f'{S}/c2'], 'cfg/user'), ([f'{S}/c1', 'cfg/site'], 'cfg/user'), (['cfg/site'], f'{S}/xh'),
        ([f'{S}/c1', f'{S}/c2'], 'cfg/user'), (['cfg/a', 'cfg/b', f'{S}/c3'], None), (['site'], 'user'), (['cfg/site', 'cfg/site2'], 'cfg/user'),
        (['../rel-up'], '../rel-home'),
    ]
    if quick:
        shapes = shapes[:4] + rng.sample(shapes[4:], 2)
    for commons, user in shapes:
        env = {'HOME': f'{S}/home', 'XDG_CONFIG_DIRS': ':'.join(commons)}
        if user is not None:
            env['XDG_CONFIG_HOME'] = user
        common_files = [f'{c}/pypyr/config.yaml' for c in commons]
        user_file = f'{user}/pypyr/config.yaml' if user is not None else decoy
        spec = {'android': False, 'skip': False, 'global': None, 'relative_xdg': True,
                'order': list(reversed(common_files)) + [user_file, 'pyproject.toml', 'pypyr-config.yaml'], 'ignored': []}
        for mask in ((0, 1) if quick else (0, 1, 2)):
            present = [p for i, p in enumerate(spec['order']) if mask == 0 or (i + mask) % 2 == 0 or rng.random() < 0.5]
            extra = [decoy] if user is not None else []
            contents = assign(rng, present + extra, res)
            out.append(build_case(f'relxdg:{"+".join(commons)}|{user}:{mask}', env, dict(spec), contents, rng))
    return out


YAML_SYNTAX = [('unclosed-flow', 'json_indent: [1, 2\n', 'ParserError'), ('nested-colon', 'json_indent: b: c\n', 'ScannerError'),
               ('tab-indent', 'vars:\n\t- 1\n', 'ScannerError'), ('dup-key', 'json_indent: 1\njson_indent: 2\n', 'DuplicateKeyError'),
               ('two-docs', 'json_indent: 1\n---\njson_indent: 2\n', 'ComposerError'), ('at-sign', 'json_indent: @x\n', 'ScannerError'),
               ('nul-char', 'json_indent: 1\x00\n', 'ReaderError'), ('unclosed-quote', 'default_group: "x\n', 'ScannerError'),
               ('unknown-alias', 'vars: *nope\n', 'ComposerError'), ('bad-indent', 'json_indent: 1\n  no_cache: true\n', 'ScannerError'),
               ('unclosed-brace', '{json_indent: 1\n', 'ParserError'), ('bad-directive', '%YAML 9.9\n---\njson_indent: 1\n', 'ParserError')]
TOML_SYNTAX = [('no-value', 'tool = \n', 'TOMLDecodeError'), ('dup-key', '[tool.pypyr]\njson_indent = 1\njson_indent = 2\n', 'TOMLDecodeError'),
               ('unclosed-table', '[tool.pypyr\njson_indent = 1\n', 'TOMLDecodeError'), ('yaml-in-toml', 'tool:\n  pypyr: 1\n', 'TOMLDecodeError')]
UNDECODABLE = '6a736f6e5f696e64656e743a2031202320fffe0a'       # 'json_indent: 1 # \xff\xfe\n'


def syntax_cases(rng, res, quick):
    """files that do not PARSE (not merely of the wrong shape), files that cannot be opened although something is there"""
    out = []
    yaml_locs = ['common', 'common-low', 'user', 'global', 'local']
    k = 0
    for name, text, exc in YAML_SYNTAX + [('undecodable', None, 'UnicodeDecodeError')]:
        for loc in yaml_locs:
            k += 1
            if quick and k % 3 != 0:
                continue
            glob = 'g.yaml' if loc == 'global' else None
            env, spec = layout(commons=('c1', 'c2'), user='xh', glob=glob)
            target = WHERE[loc]
            others = [p for p in spec['order'] if p != target]
            good = assign(rng, rng.sample(others, min(len(others), rng.choice([1, 2, 3]))))
            for m in good.values():       # the bytes must be undecodable under EVERY encoding in play: load_yaml opens a
                m.pop('default_encoding', None)      # file with the default_encoding the lower files have set by then
            case = build_case(f'syntax:{name}@{loc}', env, spec, {p: good[p] for p in spec['order'] if p in good}, rng)
            case['files'].append(rawfile(target, {'kind': 'parse', 'exc': exc}, text=text,
                                         hexbytes=UNDECODABLE if text is None else None))
            out.append(case)
    for name, text, exc in TOML_SYNTAX + [('undecodable', None, 'UnicodeDecodeError')]:
        env, spec = layout()
        good = assign(rng, [f'{S}/c1/pypyr/config.yaml', 'pypyr-config.yaml'])
        case = build_case(f'syntax:toml-{name}', env, spec, good, rng)
        case['files'].append(rawfile('pyproject.toml', {'kind': 'parse', 'exc': exc}, text=text,
                                     hexbytes='746f6f6c203d2022fffe220a' if text is None else None))
        out.append(case)
    # a lower file is rejected with a ConfigError BEFORE the file that does not parse is reached - and the other way round
    env, spec = layout()
    case = build_case('syntax:nonmapping-low-syntax-high', env, spec, {f'{S}/c2/pypyr/config.yaml': [1, 2]})
    case['files'].append(rawfile('pypyr-config.yaml', {'kind': 'parse', 'exc': 'ScannerError'}, text='a: b: c\n'))
    out.append(case)
    env, spec = layout()
    case = build_case('syntax:syntax-low-nonmapping-high', env, spec, {'pypyr-config.yaml': [1, 2]})
    case['files'].append(rawfile(f'{S}/c2/pypyr/config.yaml', {'kind': 'parse', 'exc': 'ScannerError'}, text='a: b: c\n'))
    out.append(case)
    # pyproject.toml whose top-level `tool` is not a table
    for name, text, payload in (('tool-int', 'tool = 1\n', {'kind': 'toolnottable'}), ('tool-str', 'tool = "x"\n', {'kind': 'toolnottable'}),
                                ('tool-list', 'tool = [1]\n', {'kind': 'toolnottable'}), ('tool-zero', 'tool = 0\n', {'kind': 'none'}),
                                ('tool-empty-str', 'tool = ""\n', {'kind': 'none'}), ('tool-false', 'tool = false\n', {'kind': 'none'}),
                                ('pypyr-int', '[tool]\npypyr = 5\n', {'kind': 'nonmap', 'truthy': True}),
                                ('pypyr-empty-list', '[tool]\npypyr = []\n', {'kind': 'nonmap', 'truthy': False}),
                                ('pypyr-str', '[tool]\npypyr = "x"\n', {'kind': 'nonmap', 'truthy': True})):
        env, spec = layout()
        good = assign(rng, [f'{S}/xh/pypyr/config.yaml', 'pypyr-config.yaml'])
        case = build_case(f'syntax:pyproject-{name}', env, spec, good, rng)
        case['files'].append(rawfile('pyproject.toml', payload, text=text))
        out.append(case)
    # something is there, but open() raises an OSError: like an absent file ($PYPYR_CONFIG_GLOBAL: "could not open")
    for fskind in ('dir', 'loop', 'under-file'):
        for loc in ('common', 'user', 'global', 'pyproject', 'local'):
            if fskind == 'under-file' and loc in ('pyproject', 'local', 'global'):
                continue
            glob = 'g.yaml' if loc == 'global' else None
            env, spec = layout(commons=('c1', 'c2'), user='xh', glob=glob)
            target = WHERE[loc]
            others = [p for p in spec['order'] if p != target]
            good = assign(rng, others)
            case = build_case(f'unreadable:{fskind}@{loc}', env, spec, {p: good[p] for p in spec['order'] if p in good}, rng)
            case['files'].append(rawfile(target, {'kind': 'unreadable', 'what': fskind}, fskind=fskind))
            out.append(case)
    return out


def dictprop_cases(rng, res, quick):
    """values of vars / shortcuts that are not mappings; both dict props in one file with one of them refused,
    under several $PYTHONHASHSEED values (the iteration order of `keys & dict_props`)"""
    out = []
    low = {'json_indent': 5, 'vars': {'a': 1, 'z': 0}, 'shortcuts': {'s0': {'pipeline_name': 'p0'}}}
    vals = [('pairs', [['a', 2], ['b', 3]]), ('pairs-empty', []), ('pairs-short', [['a', 2], ['b']]), ('pairs-long', [['a', 2], ['b', 1, 2]]),
            ('pairs-then-int', [['a', 2], 5]), ('pairs-then-none', [['a', 2], None]), ('str', 'ab'), ('str-one', 'x'), ('str-empty', ''),
            ('none', None), ('int', 5), ('false', False), ('true', True)]
    for prop in DICTS:
        for name, v in vals:
            if quick and prop == 'shortcuts' and name not in ('pairs', 'str', 'none', 'pairs-short'):
                continue
            env, spec = layout()
            out.append(build_case(f'dictprop:{prop}={name}', env, spec,
                                  {f'{S}/c1/pypyr/config.yaml': low, 'pypyr-config.yaml': {'json_indent': 6, prop: v, 'default_group': 'g'}}))
    # both dict props in the file, one refused: which state is left depends on the hash order of the two names
    seeds = [0, 1, 2, 3] if quick else list(range(12))
    for bad_prop, good_prop in (('vars', 'shortcuts'), ('shortcuts', 'vars')):
        for name, v in (('int', 5), ('str', 'ab'), ('pairs-short', [['a', 2], ['b']])):
            for seed in seeds + ['random']:
                good_val = {'s9': {'pipeline_name': 'p9'}} if good_prop == 'shortcuts' else {'v9': 9}
                env, spec = layout()
                case = build_case(f'dictprop:both:{bad_prop}={name}:seed={seed}', env, spec,
                                  {f'{S}/c1/pypyr/config.yaml': low,
                                   'pypyr-config.yaml': {'json_indent': 6, bad_prop: v, good_prop: good_val}})
                if seed != 'random':
                    case['hashseed'] = seed
                out.append(case)
    for seed in seeds[:3]:     # both refused: which one is named depends on the order
        env, spec = layout()
        case = build_case(f'dictprop:both-bad:seed={seed}', env, spec, {'pypyr-config.yaml': {'vars': 5, 'shortcuts': 'ab', 'json_indent': 9}})
        case['hashseed'] = seed
        out.append(case)
    return out


def platform_cases(rng, res, quick):
    """get_platform_dir_finder: Windows (; and $ALLUSERSPROFILE), macOS; the $ANDROID_* test comes first on every OS - an
    environment that passes it is outside the judged domain: model == implementation only"""
    out = []
    everywhere = [f'{S}/c1/pypyr/config.yaml', f'{S}/c2/pypyr/config.yaml', f'{S}/xh/pypyr/config.yaml', 'pyproject.toml', 'pypyr-config.yaml']
    android = {'ANDROID_DATA': '/data', 'ANDROID_ROOT': '/system'}

    def full(tag, env, spec, platform='posix', only=None, **kw):
        present = [p for p in dict.fromkeys(spec['order'] + spec['ignored']) if (only is None or p in only) and not p.startswith(('/etc', '/Library', '/data'))]
        case = build_case(tag, env, spec, assign(rng, present, res), rng)
        case['platform'] = platform
        case.update(kw)
        out.append(case)
    # 1. the two variables set as on an Android device, on every OS: no app folder -> OSError escapes init()
    for platform in ('posix', 'macos', 'windows'):
        env, spec = layout(extra=android)
        full(f'platform:android-env@{platform}', env, spec, platform)
    env, spec = layout(extra=android)
    out.append(dict(build_case('platform:android-env-nofiles', env, spec, {}), platform='posix'))
    # ... not reached with $PYPYR_CONFIG_GLOBAL or $PYPYR_SKIP_INIT
    env, spec = layout(extra=android, glob='g.yaml')
    full('platform:android-env+global', env, spec)
    env, spec = layout(extra=android, skip='1')
    full('platform:android-env+skip', env, spec)
    # ... only THESE values select it
    for extra in ({'ANDROID_DATA': '/data'}, {'ANDROID_ROOT': '/system'}, {'ANDROID_DATA': '/data/', 'ANDROID_ROOT': '/system'},
                  {'ANDROID_DATA': '/system', 'ANDROID_ROOT': '/data'}, {'ANDROID_DATA': '', 'ANDROID_ROOT': ''}):
        env, spec = layout(extra=extra)
        full(f'platform:android-env-other:{sorted(extra.items())}', env, spec)
    # ... with an app folder on sys.path the finder names ONE file, as common and as user file
    for sp in (['/data/data/org.test.app/files'], ['/x', '/data/user/0/org.test.app/files/lib', '/data/data/second/files']):
        adir = sp[-2 if len(sp) > 1 else 0].split('/files')[0]
        env, spec = layout(extra=android)
        spec = dict(spec, order=[f'{adir}/shared_prefs/pypyr/config.yaml'] * 2 + spec['order'][-2:],
                    ignored=[p for p in spec['order'][:-2]])
        full(f'platform:android-with-app-folder:{len(sp)}', env, spec, only=everywhere, android_dir=adir, syspath_extra=sp)
    # 2. Windows: ';' separates $XDG_CONFIG_DIRS, ':' does not; the default common directory is $ALLUSERSPROFILE
    env, spec = layout(commons=('c1', 'c2'))
    env['XDG_CONFIG_DIRS'] = f'{S}/c1;{S}/c2'
    full('platform:windows-dirs', env, spec, 'windows')
    env, spec = layout(commons=('c1', 'c2', 'c3'))
    env['XDG_CONFIG_DIRS'] = f'{S}/c1;;{S}/c2; ;{S}/c3;'
    full('platform:windows-dirs-blank-entries', env, spec, 'windows')
    env, spec = layout(commons=('c1',))
    env['XDG_CONFIG_DIRS'] = f'{S}/c1;{S}/c2'          # on posix this is ONE odd directory name
    spec['order'] = [f'{S}/c1;{S}/c2/pypyr/config.yaml'] + spec['order'][1:]
    full('platform:posix-semicolon-is-no-separator', env, spec, 'posix', only=everywhere)
    for raw in (None, ''):
        env, spec = layout(commons=None, dirs_raw=raw, extra={'ALLUSERSPROFILE': f'{S}/all'})
        spec['order'] = [f'{S}/all/pypyr/config.yaml'] + spec['order']
        full(f'platform:windows-allusersprofile:{raw!r}', env, spec, 'windows')
        env, spec = layout(commons=None, dirs_raw=raw, extra={'ALLUSERSPROFILE': f'{S}/all'})
        spec['order'] = ['/Library/Application Support/pypyr/config.yaml'] + spec['order']
        spec['ignored'] = [f'{S}/all/pypyr/config.yaml']
        full(f'platform:macos-default:{raw!r}', env, spec, 'macos')
    env, spec = layout(commons=None)
    spec['order'] = ['C:/ProgramData/pypyr/config.yaml'] + spec['order']     # a RELATIVE path on this host
    full('platform:windows-default', env, spec, 'windows')
    env, spec = layout(commons=('c1', 'c2'))
    full('platform:macos-dirs', env, spec, 'macos')
    return out


# --------------------------------------------------------------------------
# unknown settings: which NAMES a file may not use
# --------------------------------------------------------------------------

# names the Config object is documented / known to carry besides its settings (the pool below adds, at run time, every
# attribute the object and class of the tree under test actually have)
STATIC_ATTRS = ['skip_init', 'cwd', 'platform', 'is_windows', 'is_macos', 'is_posix', 'platform_paths', 'pyproject_toml',
                'config_loaded_paths', 'init', 'update', 'load_yaml', 'load_pyproject_toml', 'handle_path', '_skip_init',
                '_config_loaded_paths', '_platform_paths', '_pyproject_toml', '_cwd', 'all_writable_props', 'dict_props',
                'scalar_props', '__class__', '__dict__', '__init__', '__doc__', '__module__', '__slots__', '__weakref__']
_ATTR_POOL = None


def attr_pool():
    """The name of EVERY attribute of the Config object and class of the tree under test (instance attributes, properties,
    methods, private and dunder names, the module singleton's too), computed at run time, plus STATIC_ATTRS - minus the
    documented writable set (DEFAULTS: the monitor's own list, not the implementation's). None of them is a setting."""
    global _ATTR_POOL
    if _ATTR_POOL is None:
        names = set(STATIC_ATTRS)
        try:
            import pypyr.config as pc
            for klass in pc.Config.__mro__:
                names |= set(vars(klass))
            names |= set(dir(pc.Config))
            for obj in (pc.Config(), pc.config):
                names |= set(dir(obj)) | set(getattr(obj, '__dict__', {}))
        except Exception:       # noqa: a tree that cannot even build a Config(): the static names remain
            pass
        _ATTR_POOL = sorted(n for n in names if isinstance(n, str) and n not in DEFAULTS)
    return _ATTR_POOL


NONSTR_KEYS = [1, 0, True, False, None, 1.5, -3]        # YAML has them; TOML keys are strings


def variant_keys(rng):
    """[(kind, key)]: names that are NOT settings but look like one - case, surrounding whitespace, prefix / suffix / affix of
    a writable name - and arbitrary names."""
    out = []
    names = list(DEFAULTS)
    for w in rng.sample(names, 5) + ['vars', 'json_indent']:
        out += [('case', w.upper()), ('case', w.capitalize()), ('case', w.title().replace('_', '')),
                ('case', w[0].upper() + w[1:-1] + w[-1].upper())]
    for w in rng.sample(names, 4) + ['vars', 'shortcuts']:
        out += [('whitespace', ' ' + w), ('whitespace', w + ' '), ('whitespace', w + '\t'), ('whitespace', '\n' + w)]
    for w in rng.sample(names, 5) + ['vars', 'no_cache']:
        out += [('affix', w[:-1]), ('affix', w + 's'), ('affix', w + '_'), ('affix', '_' + w), ('affix', w[1:]),
                ('affix', 'self.' + w), ('affix', w.replace('_', '-')), ('affix', w.replace('_', ''))]
    out += [('odd', ''), ('odd', ' '), ('odd', 'Config'), ('odd', 'self'), ('odd', 'input'), ('odd', 'keys'), ('odd', 'config'),
            ('odd', 'None'), ('odd', 'true'), ('odd', '1')]
    alpha = 'abcdefghijklmnopqrstuvwxyz_'
    for _ in range(8):
        out.append(('random', ''.join(rng.choice(alpha) for _ in range(rng.randint(1, 14)))))
    seen, res_ = set(), []
    for kind, k in out:
        if k not in DEFAULTS and k not in seen:
            seen.add(k)
            res_.append((kind, k))
    return res_


def unknown_value(rng, i):
    return [1, True, 'x', {'a': 1}, [1], 'linux', 0, ''][i % 8]


def unknown_key_case(rng, kind, key, loc, shape, i):
    """One file at `loc` with the key `key` (not a setting). shape 0: the key alone, no other file; 1: the key alone, valid
    settings in lower / higher files; 2: the key among valid settings of the same file + valid lower / higher files."""
    glob = 'g.yaml' if loc == 'global' else None
    env, spec = layout(commons=('c1', 'c2'), user='xh', glob=glob)
    target = WHERE[loc]
    others = [p for p in spec['order'] if p != target]
    contents = {}
    if shape:
        good = assign(rng, rng.sample(others, min(len(others), rng.choice([1, 2, 3]))))
        contents = {p: good[p] for p in spec['order'] if p in good}
    val = unknown_value(rng, i)
    if shape == 2:
        valid = [('json_indent', 77), ('vars', {'leak': 1}), ('default_group', 'leak'), ('shortcuts', {'leak': {'pipeline_name': 'leak'}})]
        pos = i % (len(valid) + 1)
        items = valid[:pos] + [(key, val)] + valid[pos:]
        contents[target] = dict(items)
    else:
        contents[target] = {key: val}
    case = build_case(f'unknownkey:{kind}:{key_str(key)!r}@{loc}:{shape}', env, spec, contents, rng)
    case['unknown_key'] = {'kind': kind, 'key': key_str(key), 'loc': loc, 'shape': shape}
    return case


def unknown_key_cases(rng, res, quick):
    """Every attribute name of the Config object / class, the look-alike names and the non-str keys as a top-level key of a
    config file. quick: each name once, the location and the shape rotating; thorough: every name at every location."""
    locs = ['common', 'common-low', 'user', 'global', 'pyproject', 'local']
    pool = [('attribute', k) for k in attr_pool()] + variant_keys(rng) + [('non-str', k) for k in NONSTR_KEYS]
    out = []
    off = rng.randrange(6)
    for i, (kind, key) in enumerate(pool):
        here = [locs[(i + off) % 6]] if quick else locs
        for li, loc in enumerate(here):
            if kind == 'non-str' and loc == 'pyproject':
                if not quick:
                    continue
                loc = 'local'
            res.count(f'unknown_key_kind:{kind}')
            res.count(f'unknown_key_loc:{loc}')
            out.append(unknown_key_case(rng, kind, key, loc, (i // 6 + li + off) % 3, i + li))
    return out


def update_tie_cases(rng):
    """In-process: `Config().update({name: 1})` for every name of the pools AND every documented setting: raises the
    ConfigError iff the name is not a documented setting (judged against DEFAULTS and against the model's `updateOrd`)."""
    keys = [repr(k) for k in attr_pool()] + [repr(k) for _kind, k in variant_keys(rng)] + [repr(k) for k in NONSTR_KEYS]
    keys += [repr(k) for k in DEFAULTS] + [repr('jsön_indent'), repr(b'vars'), repr(('vars',)), repr(2 ** 70), repr(float('inf')).replace('inf', '1e999')]
    out = []
    for i, r in enumerate(dict.fromkeys(keys)):
        out.append({'tag': f'updatetie:{r}', 'update_tie': r, 'with_valid': i % 2 == 1, 'env': {}, 'files': [],
                    'spec': {'skip': False, 'global': None, 'order': [], 'ignored': []}})
    return out


def random_case(rng, res, i):
    n_common = rng.choice([1, 2, 2, 3, 3])
    commons = tuple(rng.sample(['c1', 'c2', 'c3', 'c4'], n_common))
    glob = 'g.yaml' if rng.random() < 0.25 else None
    user = rng.choice(['xh', 'xh', None])
    local = rng.choice([None, None, None, 'alt.yaml'])
    skip = rng.choice([None] * 8 + ['1', '0', 'true'])
    extra = {}
    if rng.random() < 0.15:
        extra['PYPYR_NO_CACHE'] = rng.choice(['1', '0', 'true'])
    if rng.random() < 0.1:
        extra['PYPYR_CMD_ENCODING'] = 'latin-1'
    env, spec = layout(commons=commons, user=user, glob=glob, local=local, skip=skip, extra=extra)
    cand = list(dict.fromkeys(spec['order'] + spec['ignored']))
    present = [p for p in cand if rng.random() < 0.6]
    if glob and rng.random() < 0.85 and spec['global'] not in present:
        present.insert(0, spec['global'])
    contents = assign(rng, present, res)
    if present and rng.random() < 0.25:
        target = rng.choice(present)
        name, obj = rng.choice(BAD + BENIGN)
        if rng.random() < 0.5:      # an unknown setting drawn from the pools: attribute names, look-alikes, non-str keys
            pool = [k for k in attr_pool()] + [k for _kind, k in variant_keys(rng)] + NONSTR_KEYS
            key = rng.choice(pool)
            name, obj = ('nonstr-key' if not isinstance(key, str) else 'unknown-pool'), {key: unknown_value(rng, rng.randrange(8))}
        if not (target == 'pyproject.toml' and name == 'nonstr-key'):
            if isinstance(obj, dict) and obj and rng.random() < 0.5:
                obj = {**contents[target], **obj}
            contents[target] = obj
    return build_case(f'random:{i}', env, spec, contents, rng)


# --------------------------------------------------------------------------
# histories: import, change the environment, Config(), init(), change it again, init() again ...
# --------------------------------------------------------------------------

def history_case(rng, res, tag, start, steps):
    """start: (env, spec) the process starts (= pypyr is imported, the singleton built) with;
    steps: ('env', (env, spec)) | ('new', k) | ('init', k). One file set for the whole history: every file any
    of the environments names gets an assignment whose values name the file."""
    layouts = [start] + [x for kind, x in steps if kind == 'env']
    present = []
    for _env, spec in layouts:
        for p in spec['order'] + spec['ignored']:
            if p not in present and not p.startswith('/etc') and p != '.':
                present.append(p)
    missing = {sp['global'] for _e, sp in layouts if sp.get('global_missing')}
    present = [p for p in present if p not in missing]
    contents = assign(rng, present, res)
    case = build_case(tag, start[0], start[1], contents, rng)
    script = []
    for kind, x in steps:
        if kind == 'env':
            script.append({'op': 'env', 'env': x[0], 'spec': x[1]})
        else:
            script.append({'op': kind, 'obj': x})
    case['script'] = script
    return case


def L(**kw):
    missing = kw.pop('global_missing', False)
    env, spec = layout(**kw)
    if missing:
        spec['global_missing'] = True
    return env, spec


def history_cases(rng, res, quick):
    out = []

    def add(tag, start, steps):
        out.append(history_case(rng, res, 'history:' + tag, start, steps))
    plain = lambda: L()
    # 1. $PYPYR_SKIP_INIT set AFTER import (singleton) / after construction (a new object), several spellings
    for v in ('1', 'true', 'TRUE', '1.0'):
        add(f'skip-set-after-import:{v}', plain(), [('env', L(skip=v)), ('init', 0)])
    add('skip-set-after-new', plain(), [('new', 1), ('env', L(skip='1')), ('init', 1)])
    add('skip-set-before-new-kept', plain(), [('env', L(skip='true')), ('new', 1), ('init', 1), ('init', 0)])
    # 2. ... and removed / made falsy after import: everything is looked up
    for v in ('1', 'TRUE'):
        add(f'skip-unset-after-import:{v}', L(skip=v), [('env', plain()), ('init', 0)])
    add('skip-falsy-after-import', L(skip='1'), [('env', L(skip='0')), ('init', 0)])
    add('skip-unset-after-new', L(skip='1'), [('new', 1), ('env', plain()), ('init', 1), ('init', 0)])
    add('skip-only-while-new', plain(), [('env', L(skip='1')), ('new', 1), ('env', plain()), ('init', 1)])
    # 3. the same object initialised twice: skip then not, not then skip, twice plain
    add('init-skip-then-plain', plain(), [('env', L(skip='1')), ('init', 0), ('env', plain()), ('init', 0)])
    add('init-plain-then-skip', plain(), [('init', 0), ('env', L(skip='1')), ('init', 0)])
    add('init-twice', plain(), [('init', 0), ('init', 0)])
    add('init-twice-new', plain(), [('new', 1), ('init', 1), ('env', L(commons=('c3',), user='xh2')), ('init', 1)])
    add('init-twice-dirs-changed', plain(), [('init', 0), ('env', L(commons=('c3', 'c1'), user='xh2')), ('init', 0)])
    add('init-two-objects-dirs-changed', plain(), [('new', 1), ('new', 2), ('init', 1), ('env', L(commons=('c2',), user=None)), ('init', 2)])
    add('init-global-then-dirs', L(glob='g.yaml'), [('init', 0), ('env', L(commons=('c2', 'c3'))), ('new', 1), ('init', 1), ('init', 0)])
    add('init-local-then-default', L(local='alt.yaml'), [('new', 1), ('init', 1), ('env', plain()), ('init', 1)])
    # 4. $PYPYR_CONFIG_GLOBAL set / removed / pointed elsewhere / at a missing file after import
    add('global-set-after-import', plain(), [('env', L(glob='g.yaml')), ('init', 0)])
    add('global-set-after-new', plain(), [('new', 1), ('env', L(glob='g.yaml')), ('init', 1), ('env', plain()), ('init', 0)])
    add('global-unset-after-import', L(glob='g.yaml'), [('env', plain()), ('init', 0)])
    add('global-changed-after-import', L(glob='g.yaml'), [('env', L(glob='g2.yaml')), ('init', 0)])
    add('global-missing-after-import', plain(), [('env', L(glob='missing.yaml', global_missing=True)), ('init', 0)])
    add('global-missing-then-unset', L(glob='missing.yaml', global_missing=True), [('env', plain()), ('init', 0)])
    # 5. $PYPYR_CONFIG_LOCAL, $XDG_CONFIG_DIRS, $XDG_CONFIG_HOME changed after import
    add('local-set-after-import', plain(), [('env', L(local='alt.yaml')), ('init', 0)])
    add('local-unset-after-import', L(local='alt.yaml'), [('env', plain()), ('init', 0)])
    add('dirs-changed-after-import', L(commons=('c1', 'c2')), [('env', L(commons=('c3', 'c1'))), ('init', 0)])
    add('dirs-reordered-after-import', L(commons=('c1', 'c2')), [('env', L(commons=('c2', 'c1'))), ('new', 1), ('init', 1), ('init', 0)])
    add('home-changed-after-import', L(user='xh'), [('env', L(user='xh2')), ('init', 0)])
    add('home-unset-after-import', L(user='xh'), [('env', L(user=None)), ('init', 0)])
    # 6. the env-derived defaults belong to the construction: $PYPYR_NO_CACHE / ENCODING changed around it
    add('nocache-set-after-import', plain(), [('env', L(extra={'PYPYR_NO_CACHE': '1'})), ('new', 1), ('init', 1), ('init', 0)])
    add('nocache-unset-after-import', L(extra={'PYPYR_NO_CACHE': 'true', 'PYPYR_ENCODING': 'ascii'}),
        [('env', plain()), ('new', 1), ('init', 0), ('init', 1)])
    add('encoding-set-between-new-and-init', plain(),
        [('new', 1), ('env', L(extra={'PYPYR_CMD_ENCODING': 'latin-1', 'PYPYR_NO_CACHE': '1'})), ('init', 1), ('new', 2), ('init', 2)])
    # 7. several objects, environments interleaved
    add('interleaved', plain(), [('new', 1), ('new', 2), ('env', L(glob='g.yaml')), ('init', 1), ('env', L(skip='1')), ('init', 2),
                                 ('env', L(local='alt.yaml', commons=('c2',))), ('init', 0), ('init', 2)])
    # random histories
    pool = [lambda: L(), lambda: L(skip='1'), lambda: L(skip='true'), lambda: L(skip='0'), lambda: L(glob='g.yaml'),
            lambda: L(glob='g2.yaml'), lambda: L(local='alt.yaml'), lambda: L(commons=('c2', 'c3')),
            lambda: L(commons=('c1',), user='xh2'), lambda: L(user=None), lambda: L(extra={'PYPYR_NO_CACHE': '1'}),
            lambda: L(skip='1', glob='missing.yaml', global_missing=True),
            lambda: L(extra={'PYPYR_ENCODING': 'utf-8'}, skip='TRUE')]
    for i in range(20 if quick else 400):
        start = rng.choice(pool)()
        steps, objs = [], [0]
        for _ in range(rng.randint(2, 7)):
            r = rng.random()
            if r < 0.4:
                steps.append(('env', rng.choice(pool)()))
            elif r < 0.55 and len(objs) < 3:
                objs.append(len(objs))
                steps.append(('new', objs[-1]))
            else:
                steps.append(('init', rng.choice(objs)))
        if not any(k == 'init' for k, _ in steps):
            steps.append(('init', 0))
        add(f'random:{i}', start, steps)
    return out


# --------------------------------------------------------------------------
# raw yaml texts: `%YAML` directives and plain scalars whose reading depends on the yaml version
# --------------------------------------------------------------------------
# The payload of such a file is NOT declared by the generator: it is what the tree under test makes of the text when the
# file is loaded ALONE in a pristine process (impl_c20.load_alone: fresh interpreter, fresh Config(), load_yaml) - "the
# value that file states". `resolve_alone` fills it in; model and monitor then work on these payloads as on any other.

VDEP = ['on', 'off', 'yes', 'no', 'y', 'n', 'Yes', 'NO', 'On', 'OFF', 'True', 'false', '0777', '0o17', '0o777', '1:30', '190:20:30',
        '1_000', '0b101', '007', '0x1F', '12', '-0', '~', 'null', 'Null', "'on'", '"0777"', "'1:30'", 'plain text', 'on off', 'x']
RAW_SCALARS = ['default_group', 'default_success_group', 'default_failure_group', 'json_indent', 'pipelines_subdir', 'log_date_format',
               'log_notify_format', 'log_detail_format', 'default_backoff', 'json_ascii', 'no_cache', 'default_loader']
DIRECTIVE = {None: '', '1.1': '%YAML 1.1\n---\n', '1.2': '%YAML 1.2\n---\n'}
YAML_LOCS = {'c2': f'{S}/c2/pypyr/config.yaml', 'c1': f'{S}/c1/pypyr/config.yaml', 'user': f'{S}/xh/pypyr/config.yaml',
             'global': f'{S}/g.yaml', 'local': 'pypyr-config.yaml'}


def raw_text(directive, scalars=None, vars_=None, shortcuts=None, comment=False):
    """scalars: {prop: plain}; vars_: {key: plain | [plain, ...] | {k: plain}}; shortcuts: {name: {arg: plain}} -> yaml text"""
    out = DIRECTIVE[directive]
    if comment:
        out += '# generated\n'
    for k, v in (scalars or {}).items():
        out += f'{k}: {v}\n'
    if vars_:
        out += 'vars:\n'
        for k, v in vars_.items():
            if isinstance(v, list):
                out += f'  {k}: [{", ".join(v)}]\n'
            elif isinstance(v, dict):
                out += f'  {k}:\n' + ''.join(f'    {kk}: {vv}\n' for kk, vv in v.items())
            else:
                out += f'  {k}: {v}\n'
    if shortcuts:
        out += 'shortcuts:\n'
        for name, args in shortcuts.items():
            out += f'  {name}:\n    pipeline_name: p-{name}\n    args:\n' + ''.join(f'      {a}: {v}\n' for a, v in args.items())
    return out


def rawfile_alone(path, text):
    return {'path': path, 'text': text, 'payload': None, 'alone': True}


def raw_case(tag, env, spec, texts, toml=None, script=None):
    """texts: {path: yaml text}; toml: a [tool.pypyr] table (rendered the usual way) or None"""
    files = [rawfile_alone(p, t) for p, t in texts.items()]
    if toml is not None:
        files.append(mkfile('pyproject.toml', toml))
    case = {'tag': tag, 'env': env, 'files': files, 'spec': spec, 'rawyaml': True}
    if script is not None:
        case['script'] = [{'op': 'env', 'env': x[0], 'spec': x[1]} if kind == 'env' else {'op': kind, 'obj': x} for kind, x in script]
    return case


FULL_BODY = dict(scalars={'default_group': 'on', 'default_success_group': 'yes', 'json_indent': '0777', 'pipelines_subdir': '1:30'},
                 vars_={'answer': 'no', 'mode': '0777', 'duration': '1:30', 'big': '1_000', 'oct': '0o17', 'lst': ['off', 'y', '007'],
                        'sub': {'flag': 'On', 'bits': '0b101'}},
                 shortcuts={'go': {'flag': 'off', 'mode': '0777', 'when': '1:30'}})
QUIET_BODY = dict(scalars={'log_date_format': "'%H:%M'"})


def rawyaml_cases(rng, res, quick):
    """Directive / version-dependent scalars in lower- and higher-precedence files of one init()."""
    out = []

    def lay(locs):
        return layout(commons=('c1', 'c2'), user='xh', glob='g.yaml' if 'global' in locs else None)
    pairs = [('c2', 'c1'), ('c2', 'user'), ('c1', 'user'), ('c2', 'local'), ('c1', 'local'), ('user', 'local'), ('global', 'local')]
    # 1. the directive in a LOWER file that sets nothing version-dependent; scalars / vars / shortcuts in a HIGHER file
    for ver in ('1.1', '1.2'):
        for lo, hi in pairs:
            env, spec = lay((lo, hi))
            out.append(raw_case(f'rawyaml:directive-{ver}-low:{lo}<{hi}', env, spec,
                                {YAML_LOCS[lo]: raw_text(ver, **QUIET_BODY), YAML_LOCS[hi]: raw_text(None, **FULL_BODY)},
                                toml={'vars': {'t': 'on'}, 'default_failure_group': 'off'} if (lo, hi) in (('c1', 'local'), ('user', 'local')) else None))
    # 2. the directive in the HIGHEST file only: it must not leak back (one init: it cannot; kept for the histories below)
    for lo, hi in pairs[2:]:
        env, spec = lay((lo, hi))
        out.append(raw_case(f'rawyaml:directive-high-only:{lo}<{hi}', env, spec,
                            {YAML_LOCS[lo]: raw_text(None, **FULL_BODY), YAML_LOCS[hi]: raw_text('1.1', scalars={'default_backoff': 'on', 'no_cache': 'yes'})}))
    # 3. two / three files with DIFFERENT directives, all of them with version-dependent scalars, some keys set twice
    for vers, locs in [(('1.1', '1.2'), ('c2', 'local')), (('1.2', '1.1'), ('c1', 'user')), (('1.1', None), ('user', 'local')),
                       (('1.1', '1.1'), ('c2', 'c1')), ((None, '1.1', None), ('c2', 'user', 'local')), (('1.1', None, '1.2'), ('c1', 'user', 'local')),
                       (('1.2', '1.1'), ('global', 'local')), (('1.1', None), ('global', 'local')), (('1.1', None, None, None), ('c2', 'c1', 'user', 'local'))]:
        env, spec = lay(locs)
        texts = {}
        for j, (loc, ver) in enumerate(zip(locs, vers)):
            texts[YAML_LOCS[loc]] = raw_text(ver, scalars={'default_group': ['on', 'off', 'yes', 'no'][j], f'default_{"success" if j % 2 else "failure"}_group': '0777',
                                                           'json_indent': ['1:30', '0o17', '1_000', '007'][j]},
                                             vars_={'shared': ['no', 'yes', 'off', 'on'][j], f'only{j}': '0777', 'lst': ['y', 'n', str(j)]},
                                             shortcuts={'go': {'flag': ['off', 'on', 'no', 'yes'][j]}, f'sc{j}': {'mode': '0777'}})
        out.append(raw_case(f'rawyaml:mixed-directives:{"/".join(str(v) for v in vers)}@{"<".join(locs)}', env, spec, texts))
    # 4. a file that is nothing but a directive (empty document) below a file with version-dependent scalars
    for lo, hi in (('c1', 'local'), ('user', 'local'), ('global', 'local')):
        env, spec = lay((lo, hi))
        out.append(raw_case(f'rawyaml:directive-only-file:{lo}<{hi}', env, spec,
                            {YAML_LOCS[lo]: '%YAML 1.1\n---\n', YAML_LOCS[hi]: raw_text(None, **FULL_BODY)}))
    # 5. the same in ONE process over several init() calls: on the same object (the parser state of the first pass is there when
    #    the second starts: the directive of the highest file meets the lowest file), on two objects, with the environment changed
    hist = [('init-twice', L(), [('init', 0), ('init', 0)], ('c2', 'local'), 'high'),
            ('init-twice-user', L(), [('init', 0), ('init', 0)], ('user', 'local'), 'high'),
            ('new-init-twice', L(), [('new', 1), ('init', 1), ('init', 1)], ('c1', 'user'), 'high'),
            ('two-objects', L(), [('new', 1), ('init', 1), ('new', 2), ('init', 2)], ('c2', 'local'), 'high'),
            ('singleton-then-new', L(), [('init', 0), ('new', 1), ('init', 1)], ('user', 'local'), 'high'),
            ('two-objects-low', L(), [('new', 1), ('init', 1), ('init', 0)], ('c1', 'local'), 'low'),
            ('global-then-dirs', L(glob='g.yaml'), [('init', 0), ('env', L()), ('init', 0), ('new', 1), ('init', 1)], ('global', 'c1', 'local'), 'global'),
            ('dirs-then-global', L(), [('new', 1), ('init', 1), ('env', L(glob='g.yaml')), ('init', 1)], ('global', 'c2', 'local'), 'high')]
    for name, start, steps, locs, where in hist:
        texts = {}
        for j, loc in enumerate(locs):
            directive = '1.1' if (where == 'high' and j == len(locs) - 1) or (where in ('low', 'global') and j == 0) else None
            if directive:
                texts[YAML_LOCS[loc]] = raw_text(directive, scalars={'default_backoff': 'on', 'no_cache': 'yes'}, vars_={f'd{j}': 'off'})
            else:
                texts[YAML_LOCS[loc]] = raw_text(None, scalars={'default_group': 'on', 'json_indent': ['0777', '1:30', '0o17'][j % 3]},
                                                 vars_={'answer': 'no', f'mode{j}': '0777', 'lst': ['off', 'y']}, shortcuts={'go': {'flag': 'off', f'm{j}': '1:30'}})
        out.append(raw_case(f'rawyaml:history:{name}', start[0], start[1], texts, script=steps))
    # 6. random: 2-5 yaml files, each with a random directive and random plain scalars; sometimes a history of inits
    for i in range(24 if quick else 400):
        glob = rng.random() < 0.2
        pool = ['global', 'local'] if glob else ['c2', 'c1', 'user', 'local']
        locs = [l for l in pool if rng.random() < 0.75]
        if len(locs) < 2:
            locs = pool[-2:]
        env, spec = layout(commons=('c1', 'c2'), user='xh', glob='g.yaml' if glob else None)
        texts = {}
        for loc in locs:
            ver = rng.choice([None, None, '1.1', '1.1', '1.2'])
            sc = {k: rng.choice(VDEP) for k in rng.sample(RAW_SCALARS, rng.randint(0, 4))}
            noflow = lambda v: ':' not in v and ' ' not in v and v not in ('~',)
            vs = {}
            for k in rng.sample(['a', 'b', 'c', 'd', 'mode', 'flag'], rng.randint(0, 4)):
                r = rng.random()
                vs[k] = (rng.choice(VDEP) if r < 0.6 else [v for v in rng.sample(VDEP, 3) if noflow(v)] if r < 0.8
                         else {kk: rng.choice(VDEP) for kk in rng.sample(['p', 'q', 'r'], 2)})
            sh = {n: {a: rng.choice(VDEP) for a in rng.sample(['flag', 'mode', 'when'], rng.randint(1, 2))}
                  for n in rng.sample(['go', 's1', 's2'], rng.randint(0, 2))}
            texts[YAML_LOCS[loc]] = raw_text(ver, sc, vs, sh, comment=rng.random() < 0.3)
        toml = {'vars': {'t': 'on', 'a': '0777'}, 'default_group': 'yes'} if rng.random() < 0.3 else None
        script = None
        if rng.random() < 0.4:
            script, objs = [], [0]
            for _ in range(rng.randint(2, 4)):
                if rng.random() < 0.3 and len(objs) < 3:
                    objs.append(len(objs))
                    script.append(('new', objs[-1]))
                else:
                    script.append(('init', rng.choice(objs)))
            if sum(1 for k, _ in script if k == 'init') < 2:
                script.append(('init', rng.choice(objs)))
        out.append(raw_case(f'rawyaml:random:{i}', env, spec, texts, toml=toml, script=script))
    return out


ALONE_CACHE = {}
ALONE_NOTE = ('(what each yaml file states = what the tree under test makes of its text when the file is loaded ALONE in a pristine '
              'process) ')


def resolve_alone(cases, repo, res=None):
    """Fill in the payload of every file marked `alone`: the text loaded ALONE in a pristine process by the tree under test."""
    texts = list(dict.fromkeys(f['text'] for c in cases for f in c['files'] if f.get('alone') and (repo, f['text']) not in ALONE_CACHE))
    for t, pl in zip(texts, impl_c20.load_alone_many(texts, repo)):
        if pl.get('kind') == 'crash':
            raise common.Infra(f"C20: loading a config text alone failed: {pl} (text {t!r})")
        ALONE_CACHE[(repo, t)] = pl
    if res is not None and texts:
        res.count('alone-loads', len(texts))
    for c in cases:
        for f in c['files']:
            if f.get('alone'):
                f['payload'] = ALONE_CACHE[(repo, f['text'])]


def all_cases(env, res):
    rng = env.rng
    cases = subset_cases(rng, res, False) + subset_cases(rng, res, True)
    cases += malformed_cases(rng, res, env.quick)
    cases += unknown_key_cases(rng, res, env.quick)
    cases += env_cases(rng, res, env.quick)
    cases += relative_xdg_cases(rng, res, env.quick)
    cases += syntax_cases(rng, res, env.quick) + dictprop_cases(rng, res, env.quick) + platform_cases(rng, res, env.quick)
    cases += rawyaml_cases(rng, res, env.quick)
    hist = history_cases(rng, res, env.quick)
    n_random = env.n(40, max(0, 3000 - len(cases) - 64))
    if not env.quick:   # a second, differently assigned pass over the subsets
        cases += subset_cases(rng, res, False) + subset_cases(rng, res, True)
    cases += [random_case(rng, res, i) for i in range(n_random)]
    return cases + hist


# --------------------------------------------------------------------------
# the two sides
# --------------------------------------------------------------------------

def model_request(case):
    env = case['env']
    return ('config.init', {
        'env': {'vars': [[k, v] for k, v in env.items() if k != 'HOME'], 'home': env.get('HOME', f'{S}/home'),
                'platform': case.get('platform', 'posix'), 'androidDir': case.get('android_dir')},
        'files': [[f['path'], f['payload']] for f in case['files']]})


def env_vars(env):
    return [[k, v] for k, v in env.items() if k != 'HOME']


def history_envs(case):
    """[(op, obj, env at that moment)] for the import and every new / init step: the harness's own book-keeping
    of the environment (cross-checked against what the child saw in os.environ at each step)."""
    cur = case['env']
    out = [('new', 0, cur, case['spec'])]
    spec = case['spec']
    for op in case['script']:
        if op['op'] == 'env':
            cur, spec = {**op['env'], 'HOME': case['env'].get('HOME', f'{S}/home')}, op['spec']
        else:
            out.append((op['op'], op['obj'], cur, spec))
    return out


def history_request(case):
    return ('config.session', {
        'home': case['env'].get('HOME', f'{S}/home'), 'platform': 'posix',
        'files': [[f['path'], f['payload']] for f in case['files']],
        'ops': [{'op': op, 'obj': obj, 'vars': env_vars(env)} for op, obj, env, _spec in history_envs(case)]})


def sort_dicts(w):
    """Key order inside a mapping is not an observable of the property (and the toml writer
    reorders sub-tables): sort every dict by canonical key text, recursively."""
    if isinstance(w, list):
        return [sort_dicts(x) for x in w]
    if isinstance(w, dict) and 'd' in w:
        return {'d': sorted(([sort_dicts(k), sort_dicts(v)] for k, v in w['d']), key=lambda kv: canon(kv[0]))}
    return w


def norm_model(m):
    props = {k: sort_dicts(v) for k, v in m['state']['scalars']}
    for name, d in m['state']['dicts']:
        props[name] = sort_dicts({'d': d})
    err = m['err']
    if err is not None:
        e = {'type': err['name'], 'kind': err['kind'] if err['kind'] != 'dictUpdate' else 'other'}
        if 'path' in err and err['kind'] != 'parse':     # a parser's message does not name the file reliably
            e['path'] = err['path']
        if 'keys' in err:
            e['keys'] = sorted(err['keys'])
        err = e
    n_calls = len(m['consulted'])
    return {'err': err, 'props': props, 'skip_init': m['state']['skip_init'], 'loaded': m['state']['loaded'],
            'calls': [[p, must] for (p, _ld, must) in m['order'][:n_calls]]}


def norm_impl(o):
    if 'crash' in o:
        return o
    err = o['err']
    if err is not None:
        e = {'type': err['type'], 'kind': err['kind']}
        if 'path' in err:
            e['path'] = err['path']
        if err.get('keys') is not None:
            e['keys'] = err['keys']
        err = e
    out = {'err': err, 'props': {k: sort_dicts(v) for k, v in o['props'].items()}, 'skip_init': o['skip_init'],
           'loaded': o['loaded']}
    if o.get('calls') is not None:
        out['calls'] = o['calls']
    return out


# --------------------------------------------------------------------------
# monitor: the property text, judged on the implementation's observation alone
# --------------------------------------------------------------------------

def dec(w):
    if isinstance(w, list):
        return [dec(x) for x in w]
    if isinstance(w, dict):
        if 'd' in w:
            return {(dec(k) if not isinstance(k, (list, dict)) else canon(k)): dec(v) for k, v in w['d']}
        return w
    return w


def judge(case, obs):
    """The one-step history: `init()` on the singleton in the environment the process started with."""
    if 'crash' in obs:
        return None
    return judge_init(case['spec'], case['files'], spec_defaults(case['env']), obs, 'default')


def under_root(p):
    """The file a path handed to open() denotes, in the vocabulary of the case ('@S/...' or cwd-relative)."""
    if p.startswith(S + '/cwd/'):
        return p[len(S + '/cwd/'):]
    return p


def judge_init(spec, case_files, base, obs, base_name):
    """One `init()` call, judged from the property text. spec: what the environment *at the moment of the
    call* prescribes (skip / global / order / ignored); base: the settings of the object before the call
    (the defaults, for a fresh object); obs: what the object shows afterwards.
    -> None (holds / no opinion) or (detail, signature)."""
    if spec.get('relative_xdg'):
        # a relative $XDG_CONFIG_HOME / $XDG_CONFIG_DIRS entry: whether it names a config location at all is not settled by the
        # property text + docs (see ASSUMPTIONS): no verdict, model == implementation is still checked
        return None
    if spec.get('android'):
        # $ANDROID_DATA=/data and $ANDROID_ROOT=/system are how pypyr decides it runs ON Android: such an environment
        # declares the platform to be Android, which is outside the judged domain (model == implementation is still checked)
        return None
    files = {f['path']: f['payload'] for f in case_files}
    defaults = base
    got = {k: dec(v) for k, v in obs['props'].items()}
    err = obs['err']
    opened = [under_root(p) for p in (obs.get('opened') or [])]
    if spec['skip']:
        if err is not None:
            return (f"$PYPYR_SKIP_INIT set but init raised {err['type']}", {'clause': 'skip_init_skips_all', 'how': 'raised'})
        for k, v in defaults.items():
            if got.get(k) != v:
                return (f'$PYPYR_SKIP_INIT set but {k} = {got.get(k)!r} ({base_name} {v!r}): a file was looked up',
                        {'clause': 'skip_init_skips_all', 'how': 'file-applied'})
        if opened or obs.get('calls'):
            return (f"$PYPYR_SKIP_INIT set but init looked files up: opened {opened}, handle_path calls {obs.get('calls')}",
                    {'clause': 'skip_init_skips_all', 'how': 'file-looked-up'})
        return None
    # nothing outside the prescribed locations is looked at ($PYPYR_CONFIG_GLOBAL replaces common + user)
    stray = [p for p in opened if p in spec['ignored'] and p not in spec['order']]
    if stray:
        return (f'init opened {stray}, which $PYPYR_CONFIG_GLOBAL replaces', {'clause': 'global_replaces_common_and_user', 'kind': 'opened'})
    order = list(spec['order'])
    # a file that is there but cannot be opened (a directory in its place, ...) is a file that is not there
    unopenable = {p for p, pl in files.items() if pl['kind'] == 'unreadable'}
    files = {p: pl for p, pl in files.items() if p not in unopenable}
    # anything that must be rejected with a config error: the first such file in look-up order decides
    must_reject = None
    if spec['global'] and spec['global'] not in files:
        must_reject = ('global_must_exist', '$PYPYR_CONFIG_GLOBAL names a file that ' +
                       ('cannot be opened' if spec['global'] in unopenable else 'does not exist'))
    for p in order:
        pl = files.get(p)
        if pl is None or must_reject:
            continue
        if pl['kind'] in ('parse', 'toolnottable'):
            return None            # a file that does not parse: the property text says nothing about it
        if pl['kind'] == 'nonmap':
            must_reject = ('non_mapping_rejected', f"{p} is a {'truthy' if pl['truthy'] else 'falsy'} non-mapping file")
        elif pl['kind'] == 'map' and any(k not in DEFAULTS for k, _ in pl['kvs']):
            unk = [k for k, _ in pl['kvs'] if k not in DEFAULTS]
            must_reject = ('unknown_rejected', f'{p} has the top-level key(s) {unk}, not in the documented list of settings')
        elif pl['kind'] == 'map' and any(k in DICTS and not (isinstance(v, dict) and 'd' in v) for k, v in pl['kvs']):
            return None            # dict prop that is not a mapping: the property text is silent
    if must_reject:
        clause, why = must_reject
        sig = {'clause': clause}
        if clause == 'non_mapping_rejected':
            sig['truthy'] = next(files[p]['truthy'] for p in order if files.get(p, {}).get('kind') == 'nonmap')
        if err is None:
            return (f'{why}, but init() raised nothing', {**sig, 'how': 'accepted'})
        if err['type'] != 'ConfigError':
            return (f"{why}, but init() raised {err['type']} instead of a config error", {**sig, 'how': 'wrong-error'})
        if clause == 'unknown_rejected':
            # "rejected": nothing the rejected file sets may show on the object (unless a lower file / the base says the same)
            bad = next(p for p in order if files.get(p, {}).get('kind') == 'map' and any(k not in DEFAULTS for k, _ in files[p]['kvs']))
            lower = [dict(files[p]['kvs']) for p in order[:order.index(bad)] if files.get(p, {}).get('kind') == 'map']
            for k, v in files[bad]['kvs']:
                if k in SCALARS and got.get(k) == dec(v) and defaults.get(k) != dec(v) and not any(dec(m.get(k)) == dec(v) for m in lower if k in m):
                    return (f'{why} and init() raised the config error, but {k} = {got.get(k)!r} of that same file is applied',
                            {**sig, 'how': 'partially-applied', 'kind': 'scalar'})
                if k in DICTS and isinstance(dec(v), dict):
                    for kk, vv in dec(v).items():
                        g = got.get(k) or {}
                        if kk in g and g[kk] == vv and (defaults.get(k) or {}).get(kk) != vv and \
                                not any(isinstance(dec(m.get(k)), dict) and dec(m[k]).get(kk) == vv for m in lower if k in m):
                            return (f'{why} and init() raised the config error, but {k}[{kk!r}] of that same file is applied',
                                    {**sig, 'how': 'partially-applied', 'kind': 'dict'})
        return None
    if err is not None:
        return (f"every file is a mapping of known settings, but init() raised {err['type']}: {err.get('kind')}",
                {'clause': 'valid_files_accepted', 'error': err['type']})
    # effective configuration = defaults overlaid by the files in increasing precedence
    maps = [(p, dict((k, v) for k, v in files[p]['kvs'])) for p in order
            if p in files and files[p]['kind'] == 'map']
    for k in SCALARS:
        want, src = defaults[k], base_name
        for p, m in maps:
            if k in m:
                want, src = dec(m[k]), p
        if got.get(k) != want:
            setters = [p for p, m in maps if k in m]
            who = next((p for p, m in maps if k in m and dec(m[k]) == got.get(k)), None)
            if who is None:
                ign = [p for p in spec['ignored'] if p in files and files[p]['kind'] == 'map'
                       and any(kk == k and dec(vv) == got.get(k) for kk, vv in files[p]['kvs'])]
                if ign:
                    return (f'{k} = {got.get(k)!r} comes from {ign[0]}, which $PYPYR_CONFIG_GLOBAL replaces',
                            {'clause': 'global_replaces_common_and_user', 'kind': 'scalar'})
            if who is None and got.get(k) != defaults.get(k):
                # no consulted file sets it: whose value is it? a file that should not have been looked at
                other = [f for f, pl in files.items() if pl['kind'] == 'map' and f not in dict(maps)
                         and any(kk == k and dec(vv) == got.get(k) for kk, vv in pl['kvs'])]
                if other:
                    return (f'{k} = {got.get(k)!r} comes from {other[0]}, which the environment at the moment of init() '
                            f'does not name (look-ups prescribed: {spec["order"]})',
                            {'clause': 'init_obeys_environment_at_call_time', 'kind': 'scalar'})
            return (f'{k} = {got.get(k)!r}; highest-precedence setter is {src} with {want!r} (setters low->high: {setters}; '
                    f'value seen is from {who})', {'clause': 'scalar_highest_wins', 'winner': kind_of(who, spec), 'should': kind_of(src, spec)})
    for name in DICTS:
        want = dict(defaults.get(name) or {})
        srcs = {}
        for p, m in maps:
            if name in m:
                for kk, vv in dec(m[name]).items():
                    want[kk] = vv
                    srcs[kk] = p
        g = got.get(name)
        if g != want:
            extra = sorted(set(g or {}) - set(want), key=str)
            missing = sorted(set(want) - set(g or {}), key=str)
            if extra:
                return (f'{name} has keys {extra} that no consulted file sets (ignored files: {spec["ignored"]})',
                        {'clause': 'global_replaces_common_and_user' if spec['ignored'] else 'dict_union_precedence',
                         'kind': 'dict', 'how': 'extra-keys'})
            if missing:
                return (f'{name} lacks keys {missing} set by {[srcs.get(k, base_name) for k in missing]}: not a key-wise union',
                        {'clause': 'dict_union_precedence', 'how': 'missing-keys'})
            bad = next(k for k in want if g[k] != want[k])
            return (f'{name}[{bad!r}] = {g[bad]!r}; highest-precedence source of that key is {srcs.get(bad, base_name)} with {want[bad]!r}',
                    {'clause': 'dict_union_precedence', 'how': 'wrong-winner'})
    return None


def kind_of(path, spec):
    if path is None or path in ('default', 'previous'):
        return str(path)
    if path == 'pyproject.toml':
        return 'pyproject'
    if path == spec.get('global'):
        return 'global'
    if path == spec['order'][-1]:
        return 'local'
    if path.endswith('/pypyr/config.yaml'):
        i = spec['order'].index(path) if path in spec['order'] else -1
        n_yaml = len(spec['order']) - 2
        return 'user' if i == n_yaml - 1 else 'common'
    return 'other'


# --------------------------------------------------------------------------
# run / replay
# --------------------------------------------------------------------------

def is_nontrivial(case):
    return bool(case['files']) or bool(case['spec'].get('global')) or bool(case.get('script'))


def evaluate_update_tie(env, res, cases):
    """`Config().update({key: 1})` in this process, for every name of the pools and every documented setting: the monitor
    (DEFAULTS) and the model (`config.apply` on the defaults = `handle_path` with that mapping) against the implementation."""
    import ast
    obs = []
    for case in cases:
        key = ast.literal_eval(case['update_tie'])
        inp = {'json_indent': 77, key: 1, 'default_group': 'leak'} if case['with_valid'] and key not in ('json_indent', 'default_group') else {key: 1}
        o = {'raised': None, 'msg': None, 'leaked': []}
        try:
            import pypyr.config as pc
            import pypyr.errors
            c = pc.Config()
            try:
                c.update(inp)
            except pypyr.errors.ConfigError as e:
                o['raised'], o['msg'] = 'ConfigError', str(e)[:200]
            except BaseException as e:     # noqa: whatever it is, it is an observation
                o['raised'], o['msg'] = type(e).__name__, str(e)[:200]
            if len(inp) > 1:
                o['leaked'] = [k for k, v in (('json_indent', 77), ('default_group', 'leak')) if getattr(c, k, None) == v]
        except BaseException as e:         # noqa
            o['raised'], o['msg'] = 'crash:' + type(e).__name__, str(e)[:200]
        obs.append((key, inp, o))
    models = env.driver.ask_many([('config.apply', {'env': {'vars': [], 'home': f'{S}/home', 'platform': 'posix'}, 'path': 'f',
                                                   'payload': payload_wire(inp)}) for _k, inp, _o in obs])
    for case, (key, inp, o), mo in zip(cases, obs, models):
        res.count('stream:updatetie')
        res.case(case, nontrivial=True)
        setting = isinstance(key, str) and key in DEFAULTS
        res.count('updatetie:' + ('setting' if setting else 'not-a-setting:' + (o['raised'] or 'accepted')))
        if not setting:
            if o['raised'] is None:
                res.violation(case, f'Config().update({inp!r}): {key!r} is not in the documented list of settings, but nothing was raised',
                              signature={'clause': 'unknown_rejected', 'how': 'accepted', 'via': 'Config.update'}, impl=o)
            elif o['raised'] != 'ConfigError':
                res.violation(case, f"Config().update({inp!r}): {key!r} is not a setting, but {o['raised']} was raised instead of a config error",
                              signature={'clause': 'unknown_rejected', 'how': 'wrong-error', 'via': 'Config.update'}, impl=o)
            elif o['leaked']:
                res.violation(case, f"Config().update({inp!r}) raised the config error for {key!r}, but {o['leaked']} of the same mapping were applied",
                              signature={'clause': 'unknown_rejected', 'how': 'partially-applied', 'via': 'Config.update'}, impl=o)
        elif o['raised'] == 'ConfigError':
            res.violation(case, f"Config().update({inp!r}): {key!r} is a documented setting, but a config error was raised: {o['msg']}",
                          signature={'clause': 'valid_files_accepted', 'error': 'ConfigError', 'via': 'Config.update'}, impl=o)
        if isinstance(mo, common.Reject):
            res.mismatch(case, {'reject': str(mo)}, o, 'the generator produced a case outside the modelled domain')
            continue
        m_err = mo['err']['name'] if mo['err'] else None
        if m_err != o['raised']:
            res.mismatch(case, {'raised': m_err, 'kind': mo['err'] and mo['err']['kind']}, o, 'Config.update: model and implementation raise differently')


def evaluate(env, res, cases):
    ties = [c for c in cases if c.get('update_tie') is not None]
    cases = [c for c in cases if c.get('update_tie') is None]
    if cases:
        evaluate_files(env, res, cases)
    if ties:        # after the file cases: a finding is reported on a config FILE first
        evaluate_update_tie(env, res, ties)


def evaluate_files(env, res, cases):
    repo = str(common.REPO)
    resolve_alone(cases, repo, res)
    impl = impl_c20.run_many(cases, repo)
    models = env.driver.ask_many([history_request(c) if c.get('script') is not None else model_request(c) for c in cases])
    for case, io, mo in zip(cases, impl, models):
        res.count('stream:' + case['tag'].split(':')[0])
        if isinstance(mo, common.Reject):
            res.count('rejected-by-model')
            res.mismatch(case, {'reject': str(mo)}, io if 'steps' not in io else [norm_impl(x) for x in io['steps']],
                         'the generator produced a case outside the modelled domain')
            continue
        stuck = [f['path'] for f in case['files'] if f.get('alone') and (f.get('payload') or {}).get('kind') == 'hang']
        if stuck:
            res.case(case, nontrivial=True)
            res.violation(case, f'load_yaml of {stuck[0]} ALONE in a pristine process had not returned after 40 s (killed)',
                          signature={'clause': 'load-alone-never-returned'}, impl=None)
            continue
        if 'hang' in io:
            res.case(case, nontrivial=True)
            res.violation(case, f"the process that imports pypyr.config and calls init() had not finished after "
                          f"{io['hang']['after_s']} s (killed)", signature={'clause': 'init-never-returned'}, impl=io)
            res.mismatch(case, 'returns', io)
            continue
        if 'crash' in io:
            if io['crash'].get('in_tree_under_test'):
                # an exception the harness does not classify, out of the tree under test: the correspondence is broken
                res.case(case, nontrivial=True)
                res.mismatch(case, 'an observation', io, 'the child died inside the tree under test')
                continue
            raise common.Infra(f"C20 child process failed on {case['tag']}: {io['crash']}")
        res.case(case, nontrivial=is_nontrivial(case))
        if case.get('script') is not None:
            evaluate_history(res, case, io['steps'], mo)
            continue
        m, i = norm_model(mo), norm_impl(io['steps'][-1])
        if 'calls' not in i:
            m.pop('calls')
            res.count('calls-not-observable')
        if mo.get('alt') is not None and canon(m) != canon(i):
            # `keys & dict_props` is a set: the other iteration order (another $PYTHONHASHSEED) is as good
            m2 = norm_model({**mo, 'state': mo['alt']['state'], 'err': mo['alt']['err']})
            if 'calls' not in i:
                m2.pop('calls')
            if canon(m2) == canon(i):
                m = m2
                res.count('hash-order:vars-before-shortcuts')
        elif mo.get('alt') is not None and canon(mo['alt']['state']) != canon(mo['state']):
            res.count('hash-order:shortcuts-before-vars')
        res.count('outcome:' + (i['err']['type'] + '/' + i['err']['kind'] if i['err'] else
                                ('skipped' if i['skip_init'] else 'ok')))
        res.count(f"files_present:{len(case['files'])}")
        res.count(f"files_loaded:{len(i['loaded'])}")
        if case['spec'].get('android'):
            res.count('android-env:outside-the-judged-domain')
        if case['spec'].get('relative_xdg'):
            res.count('relative-xdg:outside-the-judged-domain')
        verdict = judge(case, {**i, 'opened': io['steps'][-1].get('opened')})
        if verdict is not None:
            detail, sig = verdict
            if case.get('rawyaml'):
                detail, sig = ALONE_NOTE + detail, {**sig, 'payloads': 'each-file-loaded-alone'}
            res.violation(case, detail, signature=sig, impl=i)
        if canon(m) != canon(i):
            if verdict is None:
                diff = [k for k in m if canon(m[k]) != canon(i.get(k))]
                if 'props' in diff:
                    diff += [f'props.{k}' for k in m['props'] if canon(m['props'][k]) != canon(i['props'].get(k))]
                res.mismatch(case, m, i, 'differs in: ' + ', '.join(diff))


def evaluate_history(res, case, steps, mo):
    """A history: every step is compared with the model's step and every init() is judged, from the property
    text, against the environment of the moment it ran and the settings the object had just before."""
    plan = history_envs(case)
    res.count(f'history_steps:{len(plan)}')
    if len(steps) != len(plan) or len(mo) != len(plan):
        res.mismatch(case, f'{len(plan)} steps', f'{len(steps)} observed / {len(mo)} modelled')
        return
    last = {}           # obj -> settings after its latest step (python values)
    first_bad = None
    for n, ((op, obj, envn, spec), so, ms) in enumerate(zip(plan, steps, mo)):
        seen = {k: v for k, v in so['env_seen'].items()}
        want_env = {k: v for k, v in envn.items() if k != 'HOME'}
        if seen != want_env:
            raise common.Infra(f"C20 {case['tag']} step {n}: child saw environment {seen}, harness meant {want_env}")
        i = norm_impl(so)
        if op == 'new':
            res.count('history:new' if n else 'history:import')
            m = norm_model(ms)
            m.pop('calls')
            i.pop('calls', None)
            got = {k: dec(v) for k, v in i['props'].items()}
            verdict = None
            if i['err'] is None and got != spec_defaults(envn) and first_bad is None:
                k = next(k for k in spec_defaults(envn) if got.get(k) != spec_defaults(envn)[k])
                verdict = (f'step {n}: a fresh Config() has {k} = {got.get(k)!r}, default {spec_defaults(envn)[k]!r}',
                           {'clause': 'defaults', 'step': 'new'})
        else:
            m = norm_model(ms)
            if 'calls' not in i:
                m.pop('calls')
            kind = ('skip' if spec['skip'] else 'look') + ('-again' if obj in last and last[obj][1] else '')
            res.count('history:init:' + kind)
            res.count('history:init:' + ('singleton' if obj == 0 else 'new-object'))
            base, inited = last.get(obj, (None, False))
            verdict = None
            if base is not None and first_bad is None:
                verdict = judge_init(spec, case['files'], base, {**i, 'opened': so.get('opened')},
                                     'previous' if inited else 'default')
                if verdict is not None:
                    d, sig = verdict
                    hist = [f"{o}({k})" + ('' if o == 'new' else f"[skip={sp['skip']}, global={sp['global']}]")
                            for (o, k, _e, sp) in plan[:n + 1]]
                    if case.get('rawyaml'):
                        d, sig = ALONE_NOTE + d, {**sig, 'payloads': 'each-file-loaded-alone'}
                    verdict = (f"step {n} ({op} on object {obj} after {' -> '.join(hist)}): {d}",
                               {**sig, 'step': 'init-' + ('singleton' if obj == 0 else 'new-object'),
                                'env_changed_since_import': envn != case['env']})
        if i['err'] is None or op == 'init':
            last[obj] = ({k: dec(v) for k, v in i['props'].items()}, op == 'init')
        if verdict is not None and first_bad is None:
            first_bad = n
            res.violation(case, verdict[0], signature=verdict[1], impl={'step': n, **i})
        if canon(m) != canon(i) and first_bad is None:
            first_bad = n
            diff = [k for k in m if canon(m[k]) != canon(i.get(k))]
            res.mismatch(case, {'step': n, **m}, {'step': n, **i}, f'step {n} ({op} {obj}) differs in: ' + ', '.join(diff))


def run(env, res):
    res.rule = ('fresh subprocess per configuration. Directed: all 2^5 subsets of {common#1, common#2, user, '
                'pyproject[tool.pypyr], local} existing x $PYPYR_CONFIG_GLOBAL unset / set+existing, each with a '
                'generated assignment (every scalar and vars/shortcuts key set by 0-3 of the files, file-naming values); '
                'malformed/benign payloads ([] [1,2] 0 5 "" "text" false true, unknown key alone / with valid keys / '
                'wrong case / non-str key, empty file, {}) at every location; UNKNOWN-SETTING NAMES: the name of every attribute of the '
                'Config object and class of the tree under test (dir() of an instance, of the singleton, the class __dict__s along the '
                'mro: properties, methods, private and dunder names; minus the documented writable set), look-alikes of settings (case, '
                'surrounding whitespace, prefix / suffix / affix), odd and random names, non-str keys (1 0 true false null 1.5 -3; '
                'YAML only) as a top-level key - alone, alone with valid lower / higher files, among valid settings of the same file - quick: '
                'every name once, location and shape rotating, thorough: every name at every location (common, lowest common, user, '
                '$PYPYR_CONFIG_GLOBAL, [tool.pypyr], local); in-process tie Config().update({name: 1}) raises the config error iff the '
                'name is not a documented setting, for all those names and all 17 settings; files that do not PARSE (12 kinds of YAML syntax error, '
                'duplicate key, two documents, undecodable bytes; 4 kinds of TOML error; tool = 1 / "x" / [1] / 0 / "") at every location; '
                'something unopenable in place of a file (directory, symlink loop, path through a regular file) at every location; '
                'vars / shortcuts given a list of pairs, short / long pairs, a string, None, a number - alone and together with the other '
                'dict prop under $PYTHONHASHSEED 0..11 and random (both iteration orders of the set are accepted); '
                '$ANDROID_DATA / $ANDROID_ROOT set as on a device (posix, macOS, Windows; with global / skip; other values; with an app '
                'folder on sys.path), Windows (; separator, $ALLUSERSPROFILE, C:/ProgramData) and macOS defaults with sys.platform patched; '
                'env spellings of PYPYR_SKIP_INIT, '
                'PYPYR_CONFIG_GLOBAL (missing, directory, empty), XDG_CONFIG_DIRS (1-3 dirs, blank entries, duplicates, '
                'default), XDG_CONFIG_HOME (unset/blank), PYPYR_CONFIG_LOCAL, PYPYR_NO_CACHE/ENCODING/CMD_ENCODING; then '
                'random layouts. Histories in ONE process: import (singleton built), then changes of PYPYR_SKIP_INIT '
                '(set / unset / falsy, several spellings), PYPYR_CONFIG_GLOBAL (set, unset, changed, missing), '
                'PYPYR_CONFIG_LOCAL, XDG_CONFIG_DIRS / HOME, PYPYR_NO_CACHE / ENCODING after the import, between Config() '
                'and init(), and between two init() calls on the same object or on different objects; then random '
                'histories of 2-7 steps over 1-3 objects. RAW YAML TEXTS (stream rawyaml): files written literally with a %YAML 1.1 / 1.2 '
                'directive (or none) and plain scalars whose reading depends on the yaml version (on off yes no y n 0777 0o17 1:30 1_000 '
                '0b101 ~ ...) as scalar settings, vars values (plain, flow list, nested mapping) and shortcut args: directive in a lower '
                'file only (7 location pairs x 1.1 / 1.2, incl. $PYPYR_CONFIG_GLOBAL and a directive-only empty document), in the highest '
                'file only, different directives in 2-4 files with keys set several times, [tool.pypyr] in between; the same over '
                'init() histories in one process (same object twice, two objects, singleton then new object, environment changed in '
                'between); 24 / 400 random ones. The payload of every such file is what the tree under test makes of the text loaded ALONE '
                'in a pristine process (fresh interpreter, fresh Config().load_yaml); model and monitor compute the effective config from those. '
                'Non-trivial = at least one config file exists, '
                '$PYPYR_CONFIG_GLOBAL is set, or the case is a history.')
    cases = all_cases(env, res)
    cases = cases + update_tie_cases(env.rng)
    evaluate(env, res, cases)


def replay(env, res, payload):
    case = payload.get('case')
    if case is None and payload.get('first_diverging_case'):
        case = payload['first_diverging_case'].get('case')
    if case is None:
        case = payload
    evaluate(env, res, [case])


def extract(env):
    from .. import extract_c20
    extract_c20.generate(common.REPO, common.LEAN / 'Generated' / 'ConfigProps.lean')
