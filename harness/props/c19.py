"""C19 — pipeline and custom-module resolution order.

Correspondence: real directory layouts on disk, every run in a FRESH subprocess whose working
directory is the scenario's cwd (pypyr fixes config.cwd at import). Two kinds of scenario:

* paths — `pypyr.loaders.file.get_pipeline_path(name, parent)` for every subset of the candidate
  locations holding a file of that name x name form (plain, dir/name, absolute, a built-in's name)
  x parent (none, '', a directory, the cwd itself, a missing directory, cwd/pipelines; Path or str);
* run — `pipelinerunner.run` of a root pipeline that pypes a child that pypes a grandchild, with
  and without loader / resolveFromParent / parent overrides and custom loaders. Every candidate
  file starts with a custom step module that lives NEXT TO it and records which file ran, so the
  trail shows both which file was chosen and that its sibling module was importable.

* seq — a SEQUENCE of look-ups in ONE process with warm caches (lean `Resolve.runSess`): name forms
  plain, dir/name, absolute, with '+', with '..'; parents none, dir, dir/sub, the cwd; through new
  and re-used `Pipeline` objects (the parent changes from call to call), `Pipeline.run`,
  `pipelinerunner.run` and a real pype step in a pipeline living in the parent directory; with
  file-system changes, `clear_all()` and `no_cache` in between, and `py_dir` directories that do not
  exist yet. Every look-up made when the caches were cleared since the file system last changed is
  compared with what the same look-up yields in a cold process (the property text restated in
  `seq_spec`); every look-up, clean or stale, is compared with the model, sys.path included.

run scenarios also cover: chains of 3-6 hops (directed and random: the parent of hop i is the directory hop i-1
was FOUND in), several root pipelines one after the other in one process, symlinked pipeline files and directories
(the children's parent and the sys.path entry are the TARGET's directory), `..` in child names and parents, py_dir
(runner argument / pype pyDir; Path and str), and the SAME step-module name next to several pipeline files, in the
cwd under py_dir=cwd and in an interpreter sys.path entry — the trail shows WHICH module file served each pipeline.

* names — pipeline NAMES as arbitrary strings: `.yaml` is APPENDED to whatever was asked for (`build.v2` -> `build.v2.yaml`,
  `p.yaml` -> `p.yaml.yaml`, `a/` -> `a/.yaml`); dots, spaces, non-ascii, `..` / `.` / empty segments, trailing slash; plain, nested,
  absolute; through get_pipeline_path, pipelinerunner.run, the command line and pype children; with DECOY pipelines named after the
  truncated stems / the bare name / .yml / another case in the same and earlier search places. Every file records its own path when
  run. The monitor asks the OS (in the subprocess) whether `dir + '/' + name + '.yaml'` exists for the search places of the property
  text and expects the first; the model side is lean `Resolve.getPipelinePathNR` (driver op resolve.name).

Both sides are compared on: the chosen file / the trail (module directory | pipeline file), the error text (searched
places), the directories appended to sys.path. Independent monitors restate the property text in Python.
A subprocess that does not return is an observation (judged by the monitors), not a crash.
"""
from __future__ import annotations

import itertools
import json
import os
import shutil
import subprocess
import sys
import tempfile
from concurrent.futures import ThreadPoolExecutor
from pathlib import Path

from .. import common

LEAN_MODULES = ['Props.C19']
TRUSTED = ['harness/props/c19.py (layout builder, path canonicaliser R/B, monitors)',
           'harness/impl_c19_runner.py (subprocess runner)', 'pathlib / os file-system semantics']
ASSUMPTIONS = [
    'paths / run scenarios: any tree with symlinked files and directories (absolute targets, no loops) and `..` in names, parents '
    'and py_dir; the cwd and the built-in directory themselves are real paths (config.cwd = Path.cwd()); names have no `.` or empty '
    'segments; py_dir is absolute (a relative py_dir goes to sys.path as the relative string it is); a relative `parent` is modelled '
    '(paths scenarios, also after os.chdir: it is read against the OS cwd of the moment, not config.cwd)',
    'seq scenarios (warm caches): normalised symlink-free directories (the pipeline-cache key keeps the component list where the code '
    'keeps str(parent)); `..` only in names',
    'names scenarios: ANY name string the file system can hold (no NUL, components <= 255 bytes) except two leading slashes (pathlib keeps '
    'them); no `{` (a formatting expression in a pype step) and no leading `-` (an option on the command line); symlink-free tree',
    'the built-in location can only hold the names pypyr ships (donothing, echo, …): /repo is read-only, so '
    '"built-in exists" cases use the name donothing and nested names never exist there',
    'only the truthiness of resolveFromParent is used (a string "False" is truthy, as in get_arguments)',
    'sys.path / sys.modules are not edited by anyone else between loads; step module FILES exist before the process starts (the import '
    'system caches directory listings); the import model is top-level modules only (m.py), first sys.path hit, sys.modules first',
]

RUNNER = Path(__file__).resolve().parent.parent / 'impl_c19_runner.py'
FILE_LOADER = 'pypyr.loaders.file'
CWD = '/R/w'
BUILTIN_NAMES = ['donothing']


# ---------------------------------------------------------------------------------------------
# scratch trees
# ---------------------------------------------------------------------------------------------

def conc(root, s):
    """abstract '/R/…' -> concrete path string"""
    if isinstance(s, str) and (s == '/R' or s.startswith('/R/')):
        return str(root) + s[2:]
    return s


def yaml_scalar(v):
    return json.dumps(v)


def pype_keys(hop):
    """the keys of the pype step that invokes this hop (besides `name`)"""
    keys = dict(hop['pype'])
    if hop.get('pyDir') is not None:
        keys['pyDir'] = hop['pyDir']
    return keys


def pype_yaml(root, hop, indent):
    lines = [f'{indent}name: {yaml_scalar(conc(root, hop["name"]))}']
    for k, v in pype_keys(hop).items():
        lines.append(f'{indent}{k}: {yaml_scalar(conc(root, v))}')
    return '\n'.join(lines)


def stem_of(name):
    return name.rsplit('/', 1)[-1]


SHARED = 'vshared'


def mod_text(dirrel):
    return f"import vtrail\n\ndef run_step(context):\n    vtrail.T.append({dirrel!r} + '|' + context['vfile'])\n"


def build_run_tree(root, case):
    """Write the layout of a run scenario under `root`: every pipeline file starts with a step whose module lives
    NEXT TO it (named after the directory — or, with case['shared'], `vshared` in EVERY directory) and records
    '<directory of the module file>|<pipeline file>'; symlinks of case['links'] are made last."""
    runs = runs_of(case)
    lib = root / 'lib'
    lib.mkdir()
    (lib / 'vtrail.py').write_text('T = []\n')
    (lib / 'vcustomstep.py').write_text(
        "import vtrail\n\ndef run_step(context):\n    vtrail.T.append(context['vfile'])\n")
    for m in case.get('libmods', []):
        (lib / f'{m}.py').write_text(mod_text('lib'))
    table = {}
    for run in runs:
        hops = run['hops']
        for i, h in enumerate(hops[:-1]):
            nxt = hops[i + 1]
            table[conc(root, h['name'])] = {'name': conc(root, nxt['name']),
                                            **{k: conc(root, v) for k, v in pype_keys(nxt).items()}}
    (lib / 'vchain.json').write_text(json.dumps(table))
    for lname, nc in (('vloader', False), ('vloader_nc', True)):
        (lib / f'{lname}.py').write_text(f'''import json, pathlib
from pypyr.pipedef import PipelineDefinition, PipelineInfo
TABLE = json.loads((pathlib.Path(__file__).parent / 'vchain.json').read_text())

def get_pipeline_definition(pipeline_name, parent):
    steps = [{{'name': 'vcustomstep', 'in': {{'vfile': f'custom:{lname}:{{pipeline_name}}:{{parent}}'}}}}]
    nxt = TABLE.get(pipeline_name)
    if nxt:
        steps.append({{'name': 'pypyr.steps.pype', 'in': {{'pype': nxt}}}})
    pipe = {{'steps': steps}}
    if {nc!r}:
        return PipelineDefinition(pipe, PipelineInfo(pipeline_name, '{lname}', parent,
                                                     is_parent_cascading=False, is_loader_cascading=False))
    return pipe
''')
    for d in ('w', 'w/pipelines', 'e', 'e2'):
        (root / d).mkdir(parents=True, exist_ok=True)
    for d in case.get('mkdirs', []):
        (root / d).mkdir(parents=True, exist_ok=True)
    for rel in case['files']:
        f = root / rel
        f.parent.mkdir(parents=True, exist_ok=True)
        dirrel = str(Path(rel).parent) if '/' in rel else ''
        dirid = dirrel.replace('/', '_') or 'root'
        modname = SHARED if case.get('shared') else f'vmod_{dirid}'
        mod = f.parent / f'{modname}.py'
        if not mod.exists():
            mod.write_text(mod_text(dirrel))
        stem = f.stem
        at = next(((run, i) for run in runs for i, h in enumerate(run['hops']) if stem_of(h['name']) == stem), None)
        body = f"steps:\n  - name: {modname}\n    in:\n      vfile: {yaml_scalar(rel)}\n"
        if at is not None and at[1] + 1 < len(at[0]['hops']):
            body += "  - name: pypyr.steps.pype\n    in:\n      pype:\n" + pype_yaml(root, at[0]['hops'][at[1] + 1], '        ') + '\n'
        f.write_text(body)
    for dirrel, names in (case.get('modules') or {}).items():
        (root / dirrel).mkdir(parents=True, exist_ok=True)
        for m in names:
            mf = root / dirrel / f'{m}.py'
            if not mf.exists():
                mf.write_text(mod_text(dirrel))
    for link, target in case.get('links', []):
        lp = root / link
        lp.parent.mkdir(parents=True, exist_ok=True)
        os.symlink(root / target, lp)


def run_subprocess(root, scenario, repo, timeout=120, extra_env=None):
    scenario = dict(scenario, repo=str(repo), lib=str(root / 'lib'))
    sf = root / 'scenario.json'
    sf.write_text(json.dumps(scenario))
    cwd = root / 'w'
    cwd.mkdir(exist_ok=True)
    env = {k: v for k, v in os.environ.items() if not k.startswith('PYTHON') and not k.startswith('PYPYR')}
    env.update(extra_env or {})
    try:
        p = subprocess.run([sys.executable, '-I', str(RUNNER), str(sf)], cwd=str(cwd), env=env,
                           stdout=subprocess.PIPE, stderr=subprocess.PIPE, text=True, timeout=timeout)
    except subprocess.TimeoutExpired:
        # the implementation did not return: an observation, judged by the monitors — not an infrastructure failure
        return {'timeout': True}
    lines = [ln for ln in p.stdout.splitlines() if ln.startswith('{')]
    if p.returncode != 0 or not lines:
        raise common.Infra(f'C19 runner failed (rc={p.returncode}): {p.stderr[-1500:]}')
    return json.loads(lines[-1])


class Canon:
    """concrete strings -> abstract: scratch root -> /R, built-in pipelines dir -> /B"""

    def __init__(self, root, builtin):
        self.root, self.builtin = str(root), str(builtin)

    def __call__(self, s):
        if s is None:
            return None
        return s.replace(self.builtin, '/B').replace(self.root, '/R')


def fs_of(root, canon, extra_builtin=True):
    """the REAL files and directories below root (symlinks are not followed and not listed)"""
    files, dirs = [], ['/B']
    for dp, dn, fn in os.walk(root):
        dn[:] = [d for d in dn if not os.path.islink(os.path.join(dp, d))]
        dirs.append(canon(dp))
        for f in fn:
            if f.endswith('.yaml') and not os.path.islink(os.path.join(dp, f)):
                files.append(canon(os.path.join(dp, f)))
    files += [f'/B/{n}.yaml' for n in BUILTIN_NAMES]
    return sorted(files), sorted(dirs)


def mods_of(root, canon):
    """[[dir, [top-level module names]]] below root"""
    out = []
    for dp, dn, fn in os.walk(root):
        dn[:] = [d for d in dn if not os.path.islink(os.path.join(dp, d))]
        ms = sorted(f[:-3] for f in fn if f.endswith('.py'))
        if ms:
            out.append([canon(dp), ms])
    return sorted(out)


# ---------------------------------------------------------------------------------------------
# the property text restated (monitor side; does not use the model)
# ---------------------------------------------------------------------------------------------

class AbsFs:
    """The abstract tree the monitors reason about: REAL files and directories plus symlinks (link -> absolute
    target). `walk` answers like the OS (None = the OS fails), `resolve` like Path.resolve() (non-strict)."""

    def __init__(self, files, dirs, links=None):
        self.files, self.dirs, self.links = set(files), set(dirs) | {'/'}, dict(links or {})

    def _go(self, path, strict):
        todo = [s for s in path.split('/') if s]
        acc, fuel = [], 400
        while todo:
            fuel -= 1
            if fuel < 0:
                return None
            seg = todo.pop(0)
            if seg == '..':
                if strict and acc and ('/' + '/'.join(acc)) not in self.dirs:
                    return None
                acc = acc[:-1]
                continue
            cur = '/' + '/'.join(acc + [seg])
            if cur in self.links:
                todo = [s for s in self.links[cur].split('/') if s] + todo
                acc = []
            else:
                acc.append(seg)
        return '/' + '/'.join(acc)

    def walk(self, path):
        return self._go(path, True)

    def resolve(self, path):
        return self._go(path, False)

    def is_file(self, path):
        q = self.walk(path)
        return q if q is not None and q in self.files else None

    def is_dir(self, path):
        q = self.walk(path)
        return q is not None and q in self.dirs


def as_fs(files, dirs_existing, links=None):
    return files if isinstance(files, AbsFs) else AbsFs(files, dirs_existing, links)


def spec_search(name, parent, fs):
    """-> (candidate files in order, searched dirs or None for absolute names)"""
    if name.startswith('/'):
        return [name + '.yaml'], None
    searched = []
    if parent:
        rp = fs.resolve(parent)          # "the directory of the calling parent pipeline": the real one
        if rp in fs.dirs and rp != CWD:
            searched.append(rp)
    searched += [CWD, CWD + '/pipelines', '/B']
    return [f'{d}/{name}.yaml' for d in searched], searched


def spec_resolve(name, parent, files, dirs_existing=None, links=None):
    fs = as_fs(files, dirs_existing, links)
    cands, searched = spec_search(name, parent, fs)
    for c in cands:
        q = fs.is_file(c)
        if q:
            return {'ok': q}, searched
    return {'err': 'PipelineNotFoundError'}, searched


def judge_not_found(msg, name, searched):
    """the error must list the places searched"""
    if searched is None:
        return (name + '.yaml') in msg
    lines = msg.split('\n')
    at = 0
    for d in searched:        # the searched places, in search order, each on a line of its own
        if d not in lines[at:]:
            return False
        at = lines.index(d, at) + 1
    return True


def spec_child(pype, caller):
    """loader and parent a pype child gets. caller = {loader, parent, cascL, cascP}"""
    loader = pype['loader'] if 'loader' in pype else (caller['loader'] if caller['cascL'] else None)
    if 'parent' in pype:
        return loader, (pype['parent'] or None)
    rfp = bool(pype['resolveFromParent']) if 'resolveFromParent' in pype else caller['cascP']
    return loader, (caller['parent'] if rfp and loader == caller['loader'] else None)


def runs_of(case):
    """A run scenario is a list of root pipelines run one after the other in ONE process (usually one)."""
    if 'runs' in case:
        return case['runs']
    return [{'hops': case['hops'], 'rootLoader': case.get('rootLoader')}]


def eff_runs(case):
    """… with what the command line adds: `--dir` defaults to the cwd (pypyr/cli.py: default=config.cwd)"""
    out = []
    for r in runs_of(case):
        if r.get('via') == 'cli' and r['hops'][0].get('pyDir') is None:
            r = dict(r, hops=[dict(r['hops'][0], pyDir=CWD)] + list(r['hops'][1:]))
        out.append(r)
    return out


def spec_chain(run, fs, added):
    """Expected pipelines / error / sys.path additions of ONE root run, from the property text.
    `added` (sys.path additions so far in this process) is extended in place."""
    trail = []
    caller = None
    for i, hop in enumerate(run['hops']):
        if caller is None:
            loader, parent = run.get('rootLoader'), None
        else:
            loader, parent = spec_child(hop['pype'], caller)
        pd = hop.get('pyDir')
        if pd and fs.is_dir(pd) and pd not in added:
            added.append(pd)
        eff = loader or FILE_LOADER
        if eff == FILE_LOADER:
            r, searched = spec_resolve(hop['name'], parent, fs)
            if 'err' in r:
                return {'trail': trail, 'err': 'PipelineNotFoundError', 'searched': searched, 'name': hop['name']}
            f = r['ok']
            d = f.rsplit('/', 1)[0]
            if d not in added:
                added.append(d)
            if d == '/B':
                break
            trail.append(f'{d[3:]}|{f[3:]}')      # the module NEXT TO the file ran, for that file
            caller = {'loader': FILE_LOADER, 'parent': d, 'cascL': True, 'cascP': True}
        else:
            trail.append(f'custom:{eff}:{hop["name"]}:{parent}')
            casc = eff != 'vloader_nc'
            caller = {'loader': eff, 'parent': parent, 'cascL': casc, 'cascP': casc}
    return {'trail': trail, 'err': None}


def files_of_trail(trail):
    """which pipelines ran, whatever module file served their step"""
    return [t if t.startswith('custom:') else t.split('|', 1)[1] for t in (trail or [])]


# ---------------------------------------------------------------------------------------------
# paths scenarios
# ---------------------------------------------------------------------------------------------

def path_cases():
    names = ['vp', 'sub/vp', '/R/e/vp', 'donothing', '/R/e/sub/vp']
    parents = [None, '', '/R/e', '/R/w', '/R/missing', '/R/w/pipelines', '/R/e/sub']
    out = []
    for name in names:
        for parent in parents:
            if name.startswith('/'):
                locs = [name + '.yaml', f'{CWD}/{stem_of(name)}.yaml', f'{CWD}/pipelines/{stem_of(name)}.yaml']
            else:
                locs = [f'{d}/{name}.yaml' for d in ([parent] if parent and parent not in (CWD, '/R/missing') else []) +
                        [CWD, CWD + '/pipelines']]
            for k in range(len(locs) + 1):
                for sub in itertools.combinations(locs, k):
                    for form in (('path', 'str') if parent else ('str',)):
                        out.append({'kind': 'paths', 'name': name, 'parent': parent, 'parent_form': form,
                                    'files': [s[3:] for s in sub]})
    return out + path_cases_links()


def path_cases_links():
    """symlinked directories / files and `..` in names and parents, through get_pipeline_path"""
    out = []
    link_sets = {
        'dir': [['ld', 't']],                       # /R/ld -> /R/t (a directory)
        'dir-sub': [['ld', 't/sub']],               # /R/ld -> /R/t/sub: ld/.. is /R/t
        'to-cwd': [['lw', 'w']],                    # a parent that IS the cwd under another name
        'file': [['e/vp.yaml', 't/vp.yaml']],       # the candidate in the parent is a symlink to a file elsewhere
        'cwd-pipelines-file': [['w/pipelines/vp.yaml', 't/sub/vp.yaml']],
        'none': [],
    }
    combos = [
        ('dir', 'vp', '/R/ld', ['t/vp.yaml', 'w/vp.yaml']), ('dir', 'sub/vp', '/R/ld', ['t/sub/vp.yaml']),
        ('dir', '/R/ld/vp', None, ['t/vp.yaml']), ('dir', '/R/ld/sub/vp', '/R/e', ['t/sub/vp.yaml']),
        ('dir-sub', '../vp', '/R/ld', ['t/vp.yaml', 'vp.yaml']), ('dir-sub', '/R/ld/../vp', None, ['t/vp.yaml', 'vp.yaml']),
        ('dir-sub', 'vp', '/R/ld', ['t/sub/vp.yaml', 'w/vp.yaml']),
        ('to-cwd', 'vp', '/R/lw', ['w/vp.yaml', 'w/pipelines/vp.yaml']), ('to-cwd', 'sub/vp', '/R/lw', ['w/pipelines/sub/vp.yaml']),
        ('file', 'vp', '/R/e', ['t/vp.yaml', 'w/vp.yaml']), ('file', '/R/e/vp', None, ['t/vp.yaml']),
        ('cwd-pipelines-file', 'vp', None, ['t/sub/vp.yaml']), ('cwd-pipelines-file', 'vp', '/R/e', ['t/sub/vp.yaml', 'e/vp.yaml']),
        ('none', '../e/vp', '/R/e2', ['e/vp.yaml', 'vp.yaml']), ('none', 'sub/../vp', '/R/e', ['e/vp.yaml', 'w/vp.yaml']),
        ('none', 'vp', '/R/e/sub/..', ['e/vp.yaml', 'w/vp.yaml']), ('none', 'vp', '/R/missing/../e', ['e/vp.yaml', 'w/vp.yaml']),
        ('none', '../w/vp', '/R/e', ['w/vp.yaml']), ('none', '../shared/vp', '/R/e/sub', ['e/shared/vp.yaml', 'shared/vp.yaml']),
    ]
    # relative parents, before and after the process changed directory (config.cwd stays /R/w)
    for chdir in (None, 'e', 'e2'):
        for name, parent, locs in (('vp', 'sub', ['w/sub/vp.yaml', 'e/sub/vp.yaml', 'w/vp.yaml']),
                                   ('vp', '../e', ['e/vp.yaml', 'w/vp.yaml', 'w/pipelines/vp.yaml']),
                                   ('sub/vp', '.', ['w/sub/vp.yaml', 'e/sub/vp.yaml', 'e2/sub/vp.yaml'])):
            if parent == '.':
                continue           # '.' segments are outside the driver's domain
            for k in range(len(locs) + 1):
                for sub in itertools.combinations(locs, k):
                    for form in ('path', 'str'):
                        out.append({'kind': 'paths', 'name': name, 'parent': parent, 'parent_form': form,
                                    'files': list(sub), 'chdir': chdir})
    for lk, name, parent, locs in combos:
        for k in range(len(locs) + 1):
            for sub in itertools.combinations(locs, k):
                for form in (('path', 'str') if parent else ('str',)):
                    out.append({'kind': 'paths', 'name': name, 'parent': parent, 'parent_form': form,
                                'files': list(sub), 'links': link_sets[lk]})
    return out


# what the entry <location>/<name>.yaml can be besides absent / a regular file. A location "has" the pipeline only when
# the entry is a regular file once symlinks are followed; everything else is passed over like an absent entry.
NONFILE_KINDS = ['dir', 'linkDir', 'dangling', 'fifo']
ENTRY_KINDS = ['file', 'linkFile'] + NONFILE_KINDS


def kind_layout(entries, fifo_ok=True):
    """entries [[rel path, kind]] -> the concrete layout: real files, symlinks, directories, fifos"""
    lay = {'files': [], 'links': [], 'mkdirs': [], 'fifos': []}
    for n, (loc, k) in enumerate(entries):
        if k == 'file':
            lay['files'].append(loc)
        elif k == 'dir':
            lay['mkdirs'].append(loc)
        elif k == 'linkFile':
            lay['files'].append(f'kt/real{n}.yaml')
            lay['links'].append([loc, f'kt/real{n}.yaml'])
        elif k == 'linkDir':
            lay['mkdirs'].append(f'kt/adir{n}')
            lay['links'].append([loc, f'kt/adir{n}'])
        elif k == 'dangling':
            lay['links'].append([loc, f'kt/gone{n}'])
        elif k == 'fifo':
            assert fifo_ok
            lay['fifos'].append(loc)
        elif k != 'absent':
            raise ValueError(k)
    return lay


def kind_path_case(name, parent, entries, form='str'):
    return {'kind': 'paths', 'name': name, 'parent': parent, 'parent_form': form, 'entries': [list(e) for e in entries],
            **kind_layout(entries)}


def kind_locs(name, parent):
    if name.startswith('/'):
        return [name[3:] + '.yaml']
    return [f'{d}/{name}.yaml' for d in ([parent[3:]] if parent and parent != CWD else []) + ['w', 'w/pipelines']]


def path_cases_kinds(rng, n_random):
    """every kind of non-file entry (and a symlink to a file) at each search location, with a real file at a later location
    and with no file anywhere; root look-ups (no parent) and what a pype child's look-up is (parent = the caller's directory);
    plain and nested names; the built-in name (the built-ins directory always holds the file); absolute names."""
    out = []
    for name in ('vp', 'sub/vp', 'donothing'):
        for parent in (None, '/R/e', '/R/e/sub'):
            locs = kind_locs(name, parent)
            for i, at in enumerate(locs):
                for k in ['linkFile'] + NONFILE_KINDS:
                    for later in list(locs[i + 1:]) + [None]:
                        out.append(kind_path_case(name, parent, [[at, k]] + ([[later, 'file']] if later else []),
                                                  form='path' if parent and (i + len(k)) % 2 else 'str'))
            # every earlier location holds a non-file, the last one the file
            for k in NONFILE_KINDS:
                out.append(kind_path_case(name, parent, [[l, k] for l in locs[:-1]] + [[locs[-1], 'file']]))
                out.append(kind_path_case(name, parent, [[l, k] for l in locs]))
    for name in ('/R/e/vp', '/R/e/sub/vp'):
        for k in ['linkFile'] + NONFILE_KINDS:
            for parent in (None, '/R/e2'):
                out.append(kind_path_case(name, parent, [[kind_locs(name, None)[0], k]]))
                out.append(kind_path_case(name, parent, [[kind_locs(name, None)[0], k], [f'w/{stem_of(name)}.yaml', 'file'],
                                                         [f'e2/{stem_of(name)}.yaml', 'file']]))
    for _ in range(n_random):
        name = rng.choice(['vp', 'vp', 'sub/vp', 'a/b/vp', 'donothing', '/R/e/vp'])
        parent = rng.choice([None, '/R/e', '/R/e/sub', '/R/e2', '/R/w', '/R/missing'])
        locs = kind_locs(name, parent if parent != '/R/missing' else None)
        if parent == '/R/missing':
            locs = [f'missing/{name}.yaml'][:0] + locs
        entries = []
        for l in locs + ([f'w/{stem_of(name)}.yaml'] if name.startswith('/') else []):
            k = rng.choice(['absent', 'absent', 'file'] + ENTRY_KINDS)
            if k != 'absent':
                entries.append([l, k])
        out.append(kind_path_case(name, parent, entries, form=rng.choice(['str', 'path']) if parent else 'str'))
    return out


def run_path_chunk(chunk, repo):
    root = Path(tempfile.mkdtemp(prefix='c19p')).resolve()
    try:
        for d in ('w/pipelines', 'e/sub', 'e2', 'lib', 't/sub'):
            (root / d).mkdir(parents=True)
        (root / 'kt').mkdir()
        for c in chunk:       # every directory any case of the chunk needs exists from the start: one directory set
            for f in c['files'] + [e[0] for e in c.get('entries', [])]:
                (root / f).parent.mkdir(parents=True, exist_ok=True)
        sc = {'kind': 'paths', 'root': str(root),
              'cases': [{'files': c['files'], 'name': conc(root, c['name']), 'parent': conc(root, c['parent']),
                         'parent_form': c['parent_form'], 'links': c.get('links', []), 'chdir': c.get('chdir'),
                         'mkdirs': c.get('mkdirs', []), 'fifos': c.get('fifos', [])} for c in chunk]}
        out = run_subprocess(root, sc, repo)
        if out.get('timeout'):
            # some case of the chunk hangs: run them one by one, the hanging ones become observations
            probe = run_subprocess(root, dict(sc, cases=[]), repo)
            if probe.get('timeout'):
                raise common.Infra('C19 runner does not even start within the time limit')
            out = dict(probe, results=[])
            for one in sc['cases']:
                o1 = run_subprocess(root, dict(sc, cases=[one]), repo, timeout=30)
                out['results'].append({'err': 'timeout', 'msg': 'get_pipeline_path did not return within 30 s'}
                                      if o1.get('timeout') else o1['results'][0])
        canon = Canon(root, out['builtin'])
        base_dirs = ['/B'] + sorted({canon(dp) for dp, _, _ in os.walk(root)})
        res = []
        for c, r in zip(chunk, out['results']):
            files = sorted({'/R/' + f for f in c['files']} | {f'/B/{n}.yaml' for n in BUILTIN_NAMES})
            dirs = sorted(set(base_dirs) | {('/R/' + f).rsplit('/', 1)[0] for f in c['files']} |
                          {'/R/' + d for d in c.get('mkdirs', [])})
            impl = {'ok': canon(r['ok'])} if 'ok' in r else {'err': r['err'], 'msg': canon(r['msg'])}
            res.append((c, files, dirs, impl))
        if canon(out['config_cwd']) != CWD:
            raise common.Infra(f'runner cwd is {out["config_cwd"]}')
        return res, out['pypyr_file']
    finally:
        shutil.rmtree(root, ignore_errors=True)


def judge_path_case(env, res, c, files, dirs, impl):
    res.case(c)
    res.count('paths:' + ('abs' if c['name'].startswith('/') else 'nested' if '/' in c['name'] else
                           'builtin-name' if c['name'] in BUILTIN_NAMES else 'plain'))
    res.count('paths:' + ('found' if 'ok' in impl else 'not-found'))
    links = [['/R/' + a, '/R/' + b] for a, b in c.get('links', [])]
    if links:
        res.count('paths:with-symlinks')
    if '..' in c['name'] or (c['parent'] and '..' in c['parent']):
        res.count('paths:with-dotdot')
    for _, k in c.get('entries', []):
        res.count('paths:entry-kind:' + k)
    os_cwd = '/R/' + c['chdir'] if c.get('chdir') else CWD
    if c['parent'] and not c['parent'].startswith('/'):
        res.count('paths:relative-parent' + ('-after-chdir' if c.get('chdir') else ''))
    model = env.driver.ask('resolve.path', name=c['name'], parent=c['parent'], cwd=CWD, builtin='/B',
                           files=files, dirs=dirs, links=links, osCwd=os_cwd)
    # a relative parent is a path of the process: it means what it means to the OS at that moment
    parent_abs = c['parent'] if not c['parent'] or c['parent'].startswith('/') else f'{os_cwd}/{c["parent"]}'
    want, searched = spec_resolve(c['name'], parent_abs, files, dirs, dict(links))
    sig = {'clause': 'resolve_first_existing', 'form': 'abs' if c['name'].startswith('/') else 'rel'}
    if any(k not in ('file', 'absent') for _, k in c.get('entries', [])):
        # which kinds of entry (not a regular file) sit at the candidate locations of this case
        sig['entries'] = sorted({k for _, k in c['entries'] if k not in ('file', 'absent')})
    if 'ok' in want:
        if impl.get('ok') != want['ok']:
            res.violation(c, f'{c["name"]} (parent {c["parent"]}) must resolve to {want["ok"]}, got {impl}',
                          signature=sig, impl=impl)
    else:
        if impl.get('err') != 'PipelineNotFoundError':
            res.violation(c, f'{c["name"]} exists nowhere in the search order, yet got {impl}',
                          signature=dict(sig, clause='resolve_absolute_only' if searched is None else 'resolve_first_existing'),
                          impl=impl)
        elif not judge_not_found(impl['msg'], c['name'], searched):
            res.violation(c, f'not-found error does not list the searched places {searched}: {impl["msg"]!r}',
                          signature=dict(sig, clause='not_found_lists_searched'), impl=impl)
    m = {'ok': model['ok']} if 'ok' in model else {'err': 'PipelineNotFoundError', 'msg': model['err']}
    if m != impl:
        res.mismatch(c, m, impl)
    if 'entries' in c:
        # the model over the KIND MAP (Resolve.getPipelinePathK): location -> what the entry there is
        mk = env.driver.ask('resolve.kinds', name=c['name'], parent=c['parent'], cwd=CWD, builtin='/B', dirs=dirs, links=links,
                            kinds=[['/R/' + l, k] for l, k in c['entries']] + [[f'/B/{n}.yaml', 'file'] for n in BUILTIN_NAMES])
        mk = {'ok': mk['ok']} if 'ok' in mk else {'err': 'PipelineNotFoundError', 'msg': mk['err']}
        if mk != impl:
            res.mismatch(c, mk, impl, 'kind-map model (getPipelinePathK)')


# ---------------------------------------------------------------------------------------------
# run scenarios
# ---------------------------------------------------------------------------------------------

PYPE_OPTIONS = [
    {}, {'resolveFromParent': False}, {'resolveFromParent': True}, {'parent': '/R/e2'}, {'parent': None},
    {'loader': FILE_LOADER}, {'loader': None}, {'loader': 'vloader'}, {'loader': 'vloader_nc'},
    {'resolveFromParent': False, 'parent': '/R/e2'}, {'resolveFromParent': 0}, {'resolveFromParent': 'False'},
    {'loader': 'vloader', 'parent': '/R/e2'},
]
ROOTS = [('/R/e/vp0', 'e/vp0.yaml'), ('vp0', 'w/vp0.yaml'), ('vp0', 'w/pipelines/vp0.yaml'),
         ('sub/vp0', 'w/sub/vp0.yaml'), ('/R/w/vp0', 'w/vp0.yaml')]
CHILD_NAMES = ['vp1', 'sub/vp1', '/R/e2/vp1', 'donothing']


def child_locations(name, caller_dir, pype):
    """directories that could matter for a relative child name (a superset is fine)"""
    dirs = [caller_dir, 'w', 'w/pipelines', 'e2']
    out = []
    for d in dirs:
        if d not in out:
            out.append(d)
    return out


def depth0_cases():
    out = []
    for name in ['vp0', 'sub/vp0', '/R/e/vp0', 'donothing']:
        locs = ['e/vp0.yaml'] if name.startswith('/') else []
        locs += [f'w/{name if not name.startswith("/") else "vp0"}.yaml',
                 f'w/pipelines/{name if not name.startswith("/") else "vp0"}.yaml']
        for k in range(len(locs) + 1):
            for sub in itertools.combinations(locs, k):
                out.append({'kind': 'run', 'hops': [{'name': name, 'pype': {}}], 'files': list(sub), 'rootLoader': None})
    out.append({'kind': 'run', 'hops': [{'name': 'vp0', 'pype': {}}], 'files': [], 'rootLoader': 'vloader'})
    return out


def depth1_cases():
    out = []
    for (rname, rfile) in ROOTS:
        rdir = str(Path(rfile).parent)
        for cname in CHILD_NAMES:
            for opt in PYPE_OPTIONS:
                if cname.startswith('/'):
                    locs = ['e2/vp1.yaml', 'w/vp1.yaml']
                else:
                    locs = [f'{d}/{cname}.yaml' for d in child_locations(cname, rdir, opt)]
                for k in range(len(locs) + 1):
                    for sub in itertools.combinations(locs, k):
                        files = sorted(set([rfile] + list(sub)))
                        out.append({'kind': 'run', 'hops': [{'name': rname, 'pype': {}}, {'name': cname, 'pype': opt}],
                                    'files': files, 'rootLoader': None})
    return out


def random_depth2(rng):
    rname, rfile = rng.choice(ROOTS)
    hops = [{'name': rname, 'pype': {}}]
    files = {rfile}
    if rng.random() < 0.15:
        hops[0]['name'] = 'vp0'
        root_loader = rng.choice(['vloader', 'vloader_nc'])
        files = set()
    else:
        root_loader = None
    for i in (1, 2):
        nm = rng.choice([f'vp{i}', f'vp{i}', f'sub/vp{i}', f'/R/e2/vp{i}', 'donothing' if i == 2 else f'vp{i}'])
        opt = dict(rng.choice(PYPE_OPTIONS))
        hops.append({'name': nm, 'pype': opt})
        if nm.startswith('/'):
            pool = [f'e2/vp{i}.yaml', f'w/vp{i}.yaml']
        else:
            pool = [f'{d}/{nm}.yaml' for d in ['e', 'w', 'w/pipelines', 'w/sub', 'e2', 'e/sub', 'w/pipelines/sub', 'e2/sub']]
        for f in pool:
            if rng.random() < 0.4:
                files.add(f)
    return {'kind': 'run', 'hops': hops, 'files': sorted(files), 'rootLoader': root_loader}


def hop(name, pype=None, pyDir=None):
    h = {'name': name, 'pype': dict(pype or {})}
    if pyDir is not None:
        h['pyDir'] = pyDir
    return h


def random_deep(rng, depth=None):
    """a chain of 3-6 pype hops: at every hop a name form, a steering option set and a random subset of the
    places the name could be in (the directories earlier hops can have loaded from included)"""
    depth = depth or rng.randint(3, 6)
    rname, rfile = rng.choice(ROOTS)
    hops = [hop(rname)]
    files = {rfile}
    root_loader = None
    if rng.random() < 0.1:
        hops[0]['name'], root_loader, files = 'vp0', rng.choice(['vloader', 'vloader_nc']), set()
    dirs_pool = ['e', 'w', 'w/pipelines', 'w/sub', 'e2', 'e/sub', 'w/pipelines/sub', 'e2/sub', 'e/shared']
    for i in range(1, depth + 1):
        nm = rng.choice([f'vp{i}', f'vp{i}', f'vp{i}', f'sub/vp{i}', f'/R/e2/vp{i}', f'../e/vp{i}', f'../shared/vp{i}',
                         'donothing' if i == depth else f'vp{i}'])
        opt = dict(rng.choice(PYPE_OPTIONS if rng.random() < 0.5 else [{}]))
        pd = rng.choice([None] * 6 + ['/R/e2', '/R/missing'])
        hops.append(hop(nm, opt, pd))
        if nm.startswith('/'):
            pool = [f'e2/vp{i}.yaml', f'w/vp{i}.yaml']
        else:
            pool = sorted({os.path.normpath(f'{d}/{nm}.yaml') for d in dirs_pool} - {f'../{x}' for x in ['']})
            pool = [f for f in pool if not f.startswith('..')]
        present = [f for f in pool if rng.random() < 0.3]
        if pool and not present and rng.random() < 0.8:      # most chains go on: a not-found ends them early
            present = [rng.choice(pool)]
        files.update(present)
    return {'kind': 'run', 'tag': 'deep', 'hops': hops, 'files': sorted(files), 'rootLoader': root_loader,
            'mkdirs': ['e/sub', 'w/sub', 'e2/sub', 'w/pipelines/sub', 'e/shared']}


def directed_deep():
    """depth 3 and 4, every hop in a different place: the parent of hop i is the directory hop i-1 was FOUND in"""
    out = []
    # e -> e/sub (nested name) -> back to the cwd (resolveFromParent off) -> cwd/pipelines via fall-through -> built-in
    out.append({'kind': 'run', 'tag': 'deep', 'rootLoader': None,
                'hops': [hop('/R/e/vp0'), hop('sub/vp1'), hop('vp2'), hop('vp3', {'resolveFromParent': False}), hop('vp4'), hop('donothing')],
                'files': ['e/vp0.yaml', 'e/sub/vp1.yaml', 'e/sub/vp2.yaml', 'e/vp2.yaml', 'w/vp2.yaml', 'e/sub/vp3.yaml', 'w/pipelines/vp3.yaml',
                          'w/pipelines/vp4.yaml', 'w/vp4.yaml']})
    # the same name at every level: each hop must take the copy next to ITS caller
    out.append({'kind': 'run', 'tag': 'deep', 'rootLoader': None,
                'hops': [hop('/R/e/vp0'), hop('sub/vp1'), hop('sub/vp2'), hop('vp3'), hop('vp4')],
                'files': ['e/vp0.yaml', 'e/sub/vp1.yaml', 'e/sub/sub/vp2.yaml', 'e/sub/vp2.yaml', 'w/sub/vp2.yaml',
                          'e/sub/sub/vp3.yaml', 'e/sub/vp3.yaml', 'e/vp3.yaml', 'w/vp3.yaml', 'e/vp4.yaml', 'w/vp4.yaml'],
                'mkdirs': ['e/sub/sub']})
    # not found at depth 3: the places searched start with the directory hop 2 was found in
    out.append({'kind': 'run', 'tag': 'deep', 'rootLoader': None,
                'hops': [hop('vp0'), hop('/R/e2/vp1'), hop('vp2'), hop('vp3'), hop('vp4')],
                'files': ['w/pipelines/vp0.yaml', 'e2/vp1.yaml', 'e2/vp2.yaml', 'w/pipelines/vp2.yaml', 'e/vp3.yaml']})
    # a custom loader in the middle: the file loader below it starts without a parent
    out.append({'kind': 'run', 'tag': 'deep', 'rootLoader': None,
                'hops': [hop('/R/e/vp0'), hop('vp1', {'loader': 'vloader'}), hop('vp2', {'loader': FILE_LOADER}), hop('vp3'), hop('vp4')],
                'files': ['e/vp0.yaml', 'e/vp2.yaml', 'w/vp2.yaml', 'e/vp3.yaml', 'w/vp3.yaml', 'w/pipelines/vp4.yaml']})
    # `pype: {name: ../shared/x}` from a sub-directory, then on from the shared directory
    out.append({'kind': 'run', 'tag': 'deep', 'rootLoader': None,
                'hops': [hop('/R/e/sub/vp0'), hop('../shared/vp1'), hop('vp2'), hop('../vp3')],
                'files': ['e/sub/vp0.yaml', 'e/shared/vp1.yaml', 'shared/vp1.yaml', 'e/shared/vp2.yaml', 'w/vp2.yaml', 'e/vp3.yaml', 'vp3.yaml']})
    return out


def symlink_cases():
    """pipeline files and directories reached through symlinks: `find_pipeline` returns path.resolve(), so the
    children's parent and the sys.path entry are the TARGET's directory"""
    out = []

    def add(hops, files, links, **kw):
        out.append({'kind': 'run', 'tag': 'symlink', 'rootLoader': None, 'hops': hops, 'files': files, 'links': links,
                    'mkdirs': ['t', 't/sub', 'e/sub'] + kw.pop('mkdirs', []), **kw})
    for child_locs in ([], ['e/vp1.yaml'], ['t/vp1.yaml'], ['e/vp1.yaml', 't/vp1.yaml'], ['e/vp1.yaml', 't/vp1.yaml', 'w/vp1.yaml'],
                       ['w/vp1.yaml']):
        # a symlinked pipeline FILE: /R/e/vp0.yaml -> /R/t/vp0.yaml
        add([hop('/R/e/vp0'), hop('vp1')], ['t/vp0.yaml'] + child_locs, [['e/vp0.yaml', 't/vp0.yaml']])
        # a symlinked DIRECTORY: /R/ld -> /R/t
        add([hop('/R/ld/vp0'), hop('vp1')], ['t/vp0.yaml'] + child_locs, [['ld', 't']])
        # found in the cwd through a symlink there: w/vp0.yaml -> t/vp0.yaml (plain name)
        add([hop('vp0'), hop('vp1')], ['t/vp0.yaml'] + child_locs, [['w/vp0.yaml', 't/vp0.yaml']])
        # cwd/pipelines itself is a symlink to /R/t
        add([hop('vp0'), hop('vp1')], ['t/vp0.yaml'] + child_locs, [['w/pipelines2', 't']])
    # an explicit parent that is a symlink; a parent that is the cwd under another name
    for child_locs in (['t/vp1.yaml', 'w/vp1.yaml'], ['w/vp1.yaml'], []):
        add([hop('/R/e/vp0'), hop('vp1', {'parent': '/R/ld'})], ['e/vp0.yaml'] + child_locs, [['ld', 't']])
        add([hop('/R/e/vp0'), hop('vp1', {'parent': '/R/lw'})], ['e/vp0.yaml', 'w/pipelines/vp1.yaml'] + child_locs, [['lw', 'w']])
    # `..` out of a symlinked directory is the TARGET's parent: /R/ld -> /R/t/sub, child '../vp1' is /R/t/vp1.yaml
    for child_locs in (['t/vp1.yaml'], ['vp1.yaml'], ['t/vp1.yaml', 'vp1.yaml'], []):
        add([hop('/R/ld/vp0'), hop('../vp1'), hop('vp2')], ['t/sub/vp0.yaml', 't/vp2.yaml', 'vp2.yaml', 'w/vp2.yaml'] + child_locs,
            [['ld', 't/sub']])
    # two levels of links; a chain that crosses from a linked directory into another
    add([hop('/R/l1/vp0'), hop('vp1'), hop('vp2')], ['t/sub/vp0.yaml', 't/sub/vp1.yaml', 'e/vp1.yaml', 't/sub/vp2.yaml'],
        [['l1', 'l2'], ['l2', 't/sub']])
    add([hop('/R/ld/vp0'), hop('/R/e/vp1'), hop('vp2')], ['t/vp0.yaml', 'e2/vp1.yaml', 'e2/vp2.yaml', 'e/vp2.yaml', 't/vp2.yaml'],
        [['ld', 't'], ['e/vp1.yaml', 'e2/vp1.yaml']])
    # py_dir through a symlink
    add([hop('/R/e/vp0', pyDir='/R/ld'), hop('vp1', pyDir='/R/e/sub/..')], ['e/vp0.yaml', 'e/vp1.yaml'], [['ld', 't']])
    return out


def kind_run_cases():
    """pipelinerunner.run end to end over entry kinds: a root pipeline / a pype child whose <name>.yaml at an EARLIER search
    location is a directory, a symlink to a directory, a dangling symlink or a symlink to a file - with the real file at a
    later location and with no file anywhere (fifos only through get_pipeline_path: nothing opens them there)."""
    out = []

    def add(hops, entries, files=()):
        lay = kind_layout(entries, fifo_ok=False)
        out.append({'kind': 'run', 'tag': 'entry-kinds', 'rootLoader': None, 'hops': hops, 'files': list(files) + lay['files'],
                    'links': lay['links'], 'mkdirs': ['kt', 'e/sub'] + lay['mkdirs'], 'entries': [list(e) for e in entries]})
    kinds = ['dir', 'linkDir', 'dangling', 'linkFile']
    for name in ('vp1', 'sub/vp1'):
        locs = [f'{d}/{name}.yaml' for d in ('e', 'w', 'w/pipelines')]
        for i, at in enumerate(locs):
            for k in kinds:
                for later in locs[i + 1:] + [None]:
                    add([hop('/R/e/vp0'), hop(name)], [[at, k]] + ([[later, 'file']] if later else []), files=['e/vp0.yaml'])
    for name in ('vp0', 'sub/vp0'):
        locs = [f'{d}/{name}.yaml' for d in ('w', 'w/pipelines')]
        for i, at in enumerate(locs):
            for k in kinds:
                for later in locs[i + 1:] + [None]:
                    add([hop(name)], [[at, k]] + ([[later, 'file']] if later else []))
    for k in kinds[:3]:
        add([hop('donothing')], [['w/donothing.yaml', k], ['w/pipelines/donothing.yaml', k]])
        add([hop('/R/e/vp0')], [['e/vp0.yaml', k], ['w/vp0.yaml', 'file']])
    return out


def pydir_cases():
    """`py_dir` (pipelinerunner.run(py_dir=), the CLI's --dir which defaults to the cwd; pype's pyDir)"""
    out = []
    for pd in (None, '/R/w', '/R/e2', '/R/missing', '/R/e'):
        for form in ('str', 'path'):
            if pd is None and form == 'path':
                continue
            for child_pd in (None, '/R/e2', '/R/w'):
                out.append({'kind': 'run', 'tag': 'pydir', 'runs': [{'hops': [hop('/R/e/vp0', pyDir=pd), hop('vp1', pyDir=child_pd)],
                                                                       'rootLoader': None, 'pyDirForm': form}],
                            'files': ['e/vp0.yaml', 'w/vp1.yaml']})
    # the command line: --dir at its default (the cwd goes on sys.path FIRST) and given
    for pd in (None, '/R/e2', '/R/missing'):
        out.append({'kind': 'run', 'tag': 'pydir', 'runs': [{'hops': [hop('/R/e/vp0', pyDir=pd), hop('vp1')], 'rootLoader': None, 'via': 'cli'}],
                    'files': ['e/vp0.yaml', 'w/vp1.yaml', 'e/vp1.yaml']})
    out.append({'kind': 'run', 'tag': 'pydir', 'runs': [{'hops': [hop('vp0'), hop('vp1')], 'rootLoader': None, 'via': 'cli'}],
                'files': ['w/pipelines/vp0.yaml', 'w/vp1.yaml']})
    out.append({'kind': 'run', 'tag': 'pydir', 'runs': [{'hops': [hop('vp0'), hop('nope')], 'rootLoader': None, 'via': 'cli'}],
                'files': ['w/vp0.yaml']})
    # py_dir with a custom root loader (add_sys_path runs ahead of any loader)
    out.append({'kind': 'run', 'tag': 'pydir', 'runs': [{'hops': [hop('vp0', pyDir='/R/e2'), hop('vp1', {'loader': FILE_LOADER})],
                                                           'rootLoader': 'vloader'}], 'files': ['w/vp1.yaml']})
    return out


def shared_cases():
    """the SAME module name next to several pipeline files (and in earlier sys.path entries): which file's code ran"""
    out = []

    def add(runs, files, **kw):
        out.append({'kind': 'run', 'tag': 'shared', 'shared': True, 'runs': runs, 'files': files, **kw})
    one = lambda *hops, pd=None: {'hops': [dict(hops[0], **({'pyDir': pd} if pd else {}))] + list(hops[1:]), 'rootLoader': None}
    # control: one pipeline, one directory - the module next to it
    add([one(hop('/R/e/vp0'))], ['e/vp0.yaml'])
    add([one(hop('vp0'))], ['w/pipelines/vp0.yaml'])
    # two root pipelines in different directories, one after the other in one process
    add([one(hop('/R/e/vr0')), one(hop('/R/e2/vs0'))], ['e/vr0.yaml', 'e2/vs0.yaml'])
    add([one(hop('/R/e2/vs0')), one(hop('/R/e/vr0')), one(hop('/R/e2/vs0'))], ['e/vr0.yaml', 'e2/vs0.yaml'])
    # a child in another directory than its caller (found in the cwd; by absolute name; with an explicit parent)
    add([one(hop('/R/e/vp0'), hop('vp1'))], ['e/vp0.yaml', 'w/vp1.yaml'])
    add([one(hop('/R/e/vp0'), hop('/R/e2/vp1'))], ['e/vp0.yaml', 'e2/vp1.yaml'])
    add([one(hop('/R/e/vp0'), hop('vp1', {'parent': '/R/e2'}), hop('vp2'))], ['e/vp0.yaml', 'e2/vp1.yaml', 'e2/vp2.yaml'])
    # a child next to its caller: the same directory, the same module - fine
    add([one(hop('/R/e/vp0'), hop('vp1'))], ['e/vp0.yaml', 'e/vp1.yaml', 'w/vp1.yaml'])
    # --dir at its default (the cwd) with a same-named module in the cwd; py_dir elsewhere
    add([one(hop('/R/e/vp0'), pd='/R/w')], ['e/vp0.yaml'], modules={'w': [SHARED]})
    add([one(hop('/R/e/vp0'), pd='/R/e2')], ['e/vp0.yaml'], modules={'e2': [SHARED]})
    add([one(hop('/R/e/vp0'), pd='/R/e2')], ['e/vp0.yaml'], modules={'e2': ['vother']})
    # the command line as it is used: `pypyr /R/e/vp0` from a cwd that has a same-named module
    add([dict(one(hop('/R/e/vp0')), via='cli')], ['e/vp0.yaml'], modules={'w': [SHARED]})
    add([dict(one(hop('/R/e/vp0')), via='cli')], ['e/vp0.yaml'])
    # the module name is taken by an entry that was on sys.path before pypyr started
    add([one(hop('/R/e/vp0'))], ['e/vp0.yaml'], libmods=[SHARED])
    return out


def run_run_case(case, repo):
    root = Path(tempfile.mkdtemp(prefix='c19r')).resolve()
    try:
        build_run_tree(root, case)
        runs = runs_of(case)
        sc = {'kind': 'run', 'runs': [{'name': conc(root, r['hops'][0]['name']), 'loader': r.get('rootLoader'),
                                       'py_dir': conc(root, r['hops'][0].get('pyDir')), 'via': r.get('via'),
                                       'py_dir_form': r.get('pyDirForm', 'str')} for r in runs]}
        out = run_subprocess(root, sc, repo)
        if out.get('timeout'):
            probe = run_subprocess(root, {'kind': 'paths', 'root': str(root), 'cases': []}, repo)
            if probe.get('timeout'):
                raise common.Infra('C19 runner does not even start within the time limit')
            out = dict(probe, runs=[{'trail': None, 'err': 'timeout', 'msg': 'the run did not return within 120 s'}],
                       sys_path_added=[], sys_path_dups=[])
        canon = Canon(root, out['builtin'])
        if canon(out['config_cwd']) != CWD:
            raise common.Infra(f'runner cwd is {out["config_cwd"]}')
        files, dirs = fs_of(root, canon)
        mods = mods_of(root, canon)
        # the trail is kept by lib/vtrail.py inside the subprocess, per root run
        impl = {'runs': [{'trail': [canon(t) for t in r['trail']] if r.get('trail') is not None else None,
                          'err': r['err'], 'msg': canon(r.get('msg'))} for r in out['runs']],
                'added': [canon(p) for p in out['sys_path_added']], 'dups': [canon(p) for p in out['sys_path_dups']]}
        return case, files, dirs, mods, impl
    finally:
        shutil.rmtree(root, ignore_errors=True)


def judge_run_case(env, res, case, files, dirs, mods, impl):
    res.case(case)
    runs = eff_runs(case)
    links = [['/R/' + a, '/R/' + b] for a, b in case.get('links', [])]
    fs = AbsFs(files, dirs, dict(links))
    if any(r.get('via') == 'cli' for r in runs):
        res.count('run:through-the-command-line')
    res.count(f'run:depth{max(len(r["hops"]) for r in runs) - 1}')
    if len(runs) > 1:
        res.count('run:several-roots-one-process')
    if links:
        res.count('run:with-symlinks')
    for _, k in case.get('entries', []):
        res.count('run:entry-kind:' + k)
    if case.get('shared'):
        res.count('run:same-module-name-in-several-dirs')
    for r in runs:
        if r['hops'][0].get('pyDir'):
            res.count('run:root-py_dir')
        for h in r['hops'][1:]:
            for k in pype_keys(h):
                res.count('pype:' + k)
            if not pype_keys(h):
                res.count('pype:defaults')
            if '..' in h['name']:
                res.count('run:child-name-with-dotdot')
    # ---- the model: Resolve.runChainR, every root run in the same process state -------------
    # which module a pipeline file's first step imports: the one written into it by build_run_tree
    def step_module(f):
        return SHARED if case.get('shared') else 'vmod_' + (f.rsplit('/', 1)[0][3:].replace('/', '_') or 'root')
    mruns = [{'rootLoader': r.get('rootLoader'),
              'hops': [{'name': h['name'], 'pype': h['pype'], 'pyDir': h.get('pyDir')} for h in r['hops']]} for r in runs]
    model = env.driver.ask('resolve.chains', runs=mruns, cwd=CWD, builtin='/B', files=files, dirs=dirs, links=links,
                           mods=mods, sysPath0=['/R/lib'], stepMods=[[f, [step_module(f)]] for f in files if f.startswith('/R/')],
                           custom=[['vloader', True, True], ['vloader_nc', False, False]])
    for out in model['runs']:
        res.count(f'run:pipelines-loaded:{len(out["loaded"])}')
    m = {'runs': [], 'added': model['sysPath']}
    for out in model['runs']:
        mtrail = []
        for ld in out['loaded']:
            if 'file' in ld:
                f = ld['file']
                if not f.startswith('/B/'):
                    imp = ld['imports'][0][1] if ld['imports'] else None
                    if imp is not None:
                        mtrail.append(f'{imp[3:]}|{f[3:]}')
            else:
                l, n, p = ld['custom']
                mtrail.append(f'custom:{l}:{n}:{p}')
        e = out['err']
        kind = None if e is None else ('PyModuleNotFoundError' if e.startswith('module not found') else 'PipelineNotFoundError')
        m['runs'].append({'trail': mtrail, 'err': kind, 'msg': e if kind == 'PipelineNotFoundError' else None})
    i = {'runs': [{'trail': r['trail'], 'err': r['err'], 'msg': r['msg'] if r['err'] == 'PipelineNotFoundError' else None}
                  for r in impl['runs']], 'added': impl['added']}
    # ---- monitors, from the property text ----------------------------------------------------
    added = []
    for k, (run, ir) in enumerate(zip(runs, impl['runs'])):
        want = spec_chain(run, fs, added)
        depth = len(run['hops']) - 1
        sig = {'clause': 'resolve_first_existing', 'depth': depth}
        res.count('run:' + ('not-found' if want['err'] else 'found'))
        ran, want_ran = files_of_trail(ir['trail']), files_of_trail(want['trail'])
        if ir['err'] and 'ModuleNotFound' in ir['err']:
            res.violation(case, f'a custom step module next to a loaded pipeline is not importable: {ir["msg"]}',
                          signature=dict(sig, clause='sys_path_has_pipeline_dir'), impl=impl)
            continue
        if want['err']:
            if ir['err'] != 'PipelineNotFoundError':
                res.violation(case, f'{want["name"]} exists nowhere in its search order {want["searched"]}, yet: {ir}',
                              signature=sig, impl=impl)
            elif ran != want_ran:
                res.violation(case, f'pipelines that ran: {ran}, by the resolution order: {want_ran}',
                              signature=dict(sig, clause='child_parent_default'), impl=impl)
            elif not judge_not_found(ir['msg'], want['name'], want['searched']):
                res.violation(case, f'not-found error does not list the searched places {want["searched"]}: {ir["msg"]!r}',
                              signature=dict(sig, clause='not_found_lists_searched'), impl=impl)
        else:
            if ir['err'] or ran != want_ran:
                res.violation(case, f'pipelines that ran: {ran} (error {ir["err"]}: {ir["msg"]}), '
                                    f'by the resolution order: {want_ran}',
                              signature=dict(sig, clause='child_parent_default' if depth > 0 else 'resolve_first_existing'),
                              impl=impl)
        # "custom step modules located next to any loaded pipeline file are importable BY THAT PIPELINE": the step of
        # the pipeline file f must have been served by the module file in f's own directory
        if ran == want_ran:
            for t in ir['trail'] or []:
                if t.startswith('custom:'):
                    continue
                moddir, f = t.split('|', 1)
                fdir = f.rsplit('/', 1)[0]
                if moddir != fdir:
                    earlier_run = any(x.split('|', 1)[0] == moddir for rr in impl['runs'][:k] for x in (rr['trail'] or [])
                                      if not x.startswith('custom:'))
                    earlier_hop = any(x.split('|', 1)[0] == moddir for x in (ir['trail'] or [])[:(ir['trail'] or []).index(t)]
                                      if not x.startswith('custom:'))
                    by = 'sys.modules' if (earlier_run or earlier_hop) else 'sys.path-earlier-entry'
                    res.violation(case, f'pipeline {f} ran, but its step module {SHARED} was served from /{moddir}, not from the '
                                        f'module next to it in /{fdir} (same module name in both; bound through {by})',
                                  signature={'clause': 'sibling_module_importable', 'cause': 'shadowed-by-same-name', 'by': by},
                                  impl=impl)
                    break
    if all((not r['err']) or r['err'] == 'PipelineNotFoundError' for r in impl['runs']):
        missing = [d for d in added if d not in impl['added']]
        if missing and all(files_of_trail(r['trail']) == files_of_trail(spec_chain(run, fs, [])['trail'])
                           for run, r in zip(runs, impl['runs'])):
            res.violation(case, f'directories of loaded pipeline files missing from sys.path: {missing}',
                          signature={'clause': 'sys_path_has_pipeline_dir', 'depth': len(runs[0]['hops']) - 1}, impl=impl)
    if impl['dups']:
        res.violation(case, f'sys.path holds {impl["dups"]} more than once',
                      signature={'clause': 'sys_path_once', 'depth': len(runs[0]['hops']) - 1}, impl=impl)
    if m != i:
        res.mismatch(case, m, i)



# ---------------------------------------------------------------------------------------------
# seq scenarios: SEQUENCES of look-ups in one process, caches warm
# ---------------------------------------------------------------------------------------------

SEQ_DIRS = ['L', 'L/sub', 'w', 'w/sub', 'w/pipelines', 'w/pipelines/sub', 'lib']
SEQ_LEAVES = ['L/vx.yaml', 'L/sub/vx.yaml', 'w/vx.yaml', 'w/sub/vx.yaml', 'w/pipelines/vx.yaml', 'w/pipelines/sub/vx.yaml',
              'L/a+b.yaml', 'w/a+b.yaml']
SEQ_NAMES = ['vx', 'sub/vx', '/R/L/vx', '/R/L/sub/vx', 'a+b', '../vx', 'sub/../vx', '/R/L/sub/../vx', '/R/w/vx']
SEQ_PARENTS = [None, '/R/L', '/R/L/sub', '/R/w']


def norm_walk(path, dirs):
    """follow '..' like the OS: the directory being left must exist; -> normalised path or None"""
    acc = []
    for seg in path.strip('/').split('/'):
        if seg == '..':
            if ('/' + '/'.join(acc) if acc else '/') not in dirs and acc:
                return None
            acc = acc[:-1]
        else:
            acc.append(seg)
    return '/' + '/'.join(acc)


def seq_spec(name, parent, files, dirs):
    """The property text for one look-up: -> ({'ok': file} | {'err': …}, searched dirs | None)"""
    def is_file(p):
        q = norm_walk(p, dirs)
        return q if q is not None and q in files else None
    if name.startswith('/'):
        q = is_file(name + '.yaml')
        return ({'ok': q} if q else {'err': 'PipelineNotFoundError'}), None
    searched = []
    if parent and parent in dirs and parent != CWD:
        searched.append(parent)
    searched += [CWD, CWD + '/pipelines', '/B']
    for d in searched:
        q = is_file(f'{d}/{name}.yaml')
        if q:
            return {'ok': q}, searched
    return {'err': 'PipelineNotFoundError'}, searched


def seq_request(name, parent, via, obj=0, form='str'):
    return {'op': 'req', 'name': name, 'parent': parent, 'via': via, 'obj': obj, 'parent_form': form}


def seq_vias(parent, rng=None):
    v = ['new', 'obj'] + (['pype'] if parent and parent != CWD else []) + (['runner', 'obj.run'] if parent is None else [])
    return v


def joined(name, parent):
    """the first candidate of the look-up, normalised as a string (what a path-joined cache key would be)"""
    if name.startswith('/') or not parent:
        return os.path.normpath(name)
    return os.path.normpath(os.path.join(parent, name))


def seq_cases_directed(rng, quick):
    out = []
    reqs = [(n, p) for n in SEQ_NAMES for p in SEQ_PARENTS]
    # A. requests whose first candidates coincide under path joining but whose (parent, name) differ: every ordered
    #    pair (and the triples of the two largest groups), on layouts with and without the shared first candidate
    #    (only layouts on which the two requests resolve DIFFERENTLY in a cold process can tell anything)
    groups = {}
    for n, p in reqs:
        raw = n if n.startswith('/') or not p else os.path.join(p, n)
        for j in {joined(n, p), raw}:
            groups.setdefault(j, set()).add((n, p))
    dirs = set(['/B', '/R'] + ['/R/' + d for d in SEQ_DIRS])
    subsets = [list(sub) for k in range(6) for sub in itertools.combinations(SEQ_LEAVES[:6], k)]
    layouts = [[], ['w/vx.yaml'], ['w/vx.yaml', 'w/sub/vx.yaml'], ['w/sub/vx.yaml', 'w/pipelines/vx.yaml'],
               ['w/vx.yaml', 'w/sub/vx.yaml', 'w/pipelines/vx.yaml', 'w/pipelines/sub/vx.yaml'],
               ['L/vx.yaml', 'w/vx.yaml', 'w/sub/vx.yaml'], ['L/sub/vx.yaml', 'w/vx.yaml'], list(SEQ_LEAVES)]
    k = 0
    seen = set()
    for j, grp in sorted(groups.items()):
        grp = sorted(grp, key=str)
        for a in grp:
            for b in grp:
                if a == b or (a, b) in seen:
                    continue
                seen.add((a, b))
                tell = [lay for lay in subsets
                        if seq_spec(a[0], a[1], {'/R/' + f for f in lay}, dirs)[0] != seq_spec(b[0], b[1], {'/R/' + f for f in lay}, dirs)[0]]
                if quick and tell:
                    tell = [rng.choice(tell)]
                elif len(tell) > 6:
                    tell = rng.sample(tell, 6)
                for lay in tell:
                    k += 1
                    va, vb = seq_vias(a[1]), seq_vias(b[1])
                    ops = [{'op': 'fs', 'files': lay}, seq_request(a[0], a[1], va[k % len(va)], 0),
                           seq_request(b[0], b[1], vb[(k // 2) % len(vb)], 1), seq_request(a[0], a[1], 'new', 2)]
                    out.append({'kind': 'seq', 'tag': 'joined', 'noCache': False, 'ops': ops})
    # B. ONE Pipeline object run again and again: the parent of THIS call and the files of THIS moment decide
    for name in ('vx', 'sub/vx', '../vx'):
        for lay in layouts:
            for parents in (['/R/L', '/R/L/sub', None], ['/R/L/sub', '/R/L'], [None, '/R/L', '/R/w'], ['/R/L', None, '/R/L']):
                ops = [{'op': 'fs', 'files': lay}] + [seq_request(name, p, 'obj', 7, 'path' if i % 2 else 'str')
                                                     for i, p in enumerate(parents)]
                out.append({'kind': 'seq', 'tag': 'reuse', 'noCache': False, 'ops': ops})
    for via in ('obj', 'obj.run', 'new', 'runner'):
        for first, later in ((['w/pipelines/vx.yaml'], ['w/pipelines/vx.yaml', 'w/vx.yaml']),
                             (['w/vx.yaml', 'w/pipelines/vx.yaml'], ['w/pipelines/vx.yaml']),
                             ([], ['w/vx.yaml']), (['w/vx.yaml'], [])):
            for mid in ([{'op': 'clear'}], [{'op': 'noCache', 'b': True}], []):
                r = seq_request('vx', None, via, 3)
                ops = [{'op': 'fs', 'files': first}, r, {'op': 'fs', 'files': later}] + mid + [r, r]
                out.append({'kind': 'seq', 'tag': 'fs-change', 'noCache': False, 'ops': ops})
        for mid in ([{'op': 'clear'}], []):
            r1, r2 = seq_request('vx', '/R/L', via if via in ('obj', 'new') else 'pype', 4), seq_request('vx', '/R/L/sub', 'obj', 4)
            ops = [{'op': 'fs', 'files': ['w/vx.yaml']}, r1, r2, {'op': 'fs', 'files': ['w/vx.yaml', 'L/vx.yaml']}] + mid + [r1, r2, r1]
            out.append({'kind': 'seq', 'tag': 'fs-change', 'noCache': False, 'ops': ops})
    # C. a directory that is probed (as py_dir) before it exists and later holds a pipeline with its step module
    for via in ('new', 'obj', 'runner'):
        for probe, form in ((True, 'path'), (True, 'str'), (False, 'path')):
            ops = [{'op': 'fs', 'files': ['w/vx.yaml']},
                   dict(seq_request('donothing', None, via, 5), py_dir='/R/late' if probe else '/R/L', py_dir_form=form),
                   {'op': 'fs', 'files': ['w/vx.yaml', 'late/vx.yaml']},
                   seq_request('/R/late/vx', None, 'new', 6), seq_request('vx', '/R/late', 'new', 6)]
            out.append({'kind': 'seq', 'tag': 'late-dir', 'noCache': False, 'ops': ops})
    return out


def seq_cases_pairs(rng, n_layouts, sample):
    """all ordered pairs (then the first again) over name forms x parents on a few layouts"""
    reqs = [(n, p) for n in SEQ_NAMES for p in SEQ_PARENTS]
    out = []
    lays = [['w/vx.yaml', 'w/sub/vx.yaml', 'w/a+b.yaml'], ['L/vx.yaml', 'w/pipelines/vx.yaml', 'w/pipelines/sub/vx.yaml', 'L/a+b.yaml'],
            ['L/sub/vx.yaml', 'w/sub/vx.yaml', 'w/pipelines/vx.yaml']][:n_layouts]
    k = 0
    for lay in lays:
        for a in reqs:
            for b in reqs:
                if a == b:
                    continue
                k += 1
                va, vb = seq_vias(a[1]), seq_vias(b[1])
                out.append({'kind': 'seq', 'tag': 'pairs', 'noCache': False,
                            'ops': [{'op': 'fs', 'files': lay}, seq_request(a[0], a[1], va[k % len(va)], 0),
                                    seq_request(b[0], b[1], vb[(k // 3) % len(vb)], 0), seq_request(a[0], a[1], 'obj', 0)]})
    if sample is not None and len(out) > sample:
        out = rng.sample(out, sample)
    return out


def seq_case_random(rng):
    ops = [{'op': 'fs', 'files': [f for f in SEQ_LEAVES if rng.random() < 0.45]}]
    for _ in range(rng.randint(3, 9)):
        x = rng.random()
        if x < 0.65:
            n, p = rng.choice(SEQ_NAMES), rng.choice(SEQ_PARENTS)
            ops.append(seq_request(n, p, rng.choice(seq_vias(p)), rng.randrange(2), rng.choice(['str', 'path'])))
        elif x < 0.8:
            ops.append({'op': 'fs', 'files': [f for f in SEQ_LEAVES if rng.random() < 0.45]})
        elif x < 0.93:
            ops.append({'op': 'clear'})
        else:
            ops.append({'op': 'noCache', 'b': rng.random() < 0.6})
    return {'kind': 'seq', 'tag': 'random', 'noCache': rng.random() < 0.1, 'ops': ops}


def run_seq_case(case, repo):
    root = Path(tempfile.mkdtemp(prefix='c19s')).resolve()
    try:
        for d in SEQ_DIRS:
            (root / d).mkdir(parents=True, exist_ok=True)
        lib = root / 'lib'
        (lib / 'vtrail.py').write_text('T = []\n')
        ops = []
        nwrap = 0
        for op in case['ops']:
            op = dict(op)
            if op['op'] == 'req':
                op['name'] = conc(root, op['name'])
                op['parent'] = conc(root, op['parent'])
                if op.get('py_dir'):
                    op['py_dir'] = conc(root, op['py_dir'])
                if op['via'] == 'pype':
                    # a real calling pipeline in the parent directory: its pype step gets that directory as parent
                    nwrap += 1
                    rel = f'{case["ops"][len(ops)]["parent"][3:]}/vwrap{nwrap}.yaml'
                    (root / rel).write_text("steps:\n  - name: pypyr.steps.pype\n    in:\n      pype:\n"
                                            f"        name: {yaml_scalar(op['name'])}\n")
                    op['wrapper'] = rel
            ops.append(op)
        out = run_subprocess(root, {'kind': 'seq', 'root': str(root), 'noCache': bool(case.get('noCache')), 'ops': ops}, repo)
        if out.get('timeout'):
            probe = run_subprocess(root, {'kind': 'paths', 'root': str(root), 'cases': []}, repo)
            if probe.get('timeout'):
                raise common.Infra('C19 runner does not even start within the time limit')
            out = dict(probe, results=[{'ran': [], 'err': 'timeout', 'msg': 'the sequence did not return within 120 s'}])
        canon = Canon(root, out['builtin'])
        if canon(out['config_cwd']) != CWD:
            raise common.Infra(f'runner cwd is {out["config_cwd"]}')
        dirs = sorted({'/B'} | {'/R/' + d for d in SEQ_DIRS} | {'/R'})
        impl = [{'ran': r['ran'], 'err': r['err'], 'msg': canon(r['msg']),
                 'added': [canon(p) for p in r.get('sys_path_added', [])], 'dups': [canon(p) for p in r.get('sys_path_dups', [])]}
                for r in out['results']]
        return case, dirs, impl
    finally:
        shutil.rmtree(root, ignore_errors=True)


def judge_seq_case(env, res, case, dirs, impl):
    res.case(case)
    res.count('seq:' + case.get('tag', '?'))
    builtin_files = [f'/B/{n}.yaml' for n in BUILTIN_NAMES]
    # the model: Resolve.runSess through the warm pipeline cache
    mops, files = [], None
    mdirs = list(dirs)
    for op in case['ops']:
        if op['op'] == 'fs':
            fl = sorted(['/R/' + f for f in op['files']] + builtin_files)
            mdirs = sorted(set(mdirs) | {f.rsplit('/', 1)[0] for f in fl})
            if files is None:
                files, dirs0 = fl, list(mdirs)
            else:
                mops.append(['fs', {'files': fl, 'dirs': mdirs}])
        elif op['op'] == 'req':
            if op.get('py_dir'):
                mops.append(['pyDir', op['py_dir']])
            mops.append(['req', op['obj'], op['name'], op['parent']])
        elif op['op'] == 'clear':
            mops.append(['clear'])
        else:
            mops.append(['noCache', bool(op['b'])])
    model = env.driver.ask('resolve.session', cwd=CWD, builtin='/B', files=files, dirs=dirs0,
                           noCache=bool(case.get('noCache')), ops=mops)['results']
    # the monitor: the property text, look-up by look-up
    cur, dirty, nc, k = None, False, bool(case.get('noCache')), 0
    probed_missing = set()     # directories handed to add_sys_path (as py_dir) while they did not exist
    for op in case['ops']:
        if op['op'] == 'fs':
            dirty = cur is not None
            cur = set('/R/' + f for f in op['files']) | set(builtin_files)
            dirs = sorted(set(dirs) | {f.rsplit('/', 1)[0] for f in cur})
        elif op['op'] == 'clear':
            dirty = False
        elif op['op'] == 'noCache':
            nc = bool(op['b'])
        else:
            if k >= len(impl):
                res.violation(case, f'look-up {k} never happened: the sequence stopped after {impl[-1] if impl else None}',
                              signature={'clause': 'resolve_first_existing', 'seq': case.get('tag')}, impl=impl)
                break
            obs, m = impl[k], model[k]
            k += 1
            name, parent = op['name'], op['parent']
            res.count('seq:via:' + op['via'])
            res.count('seq:name:' + ('abs' if name.startswith('/') else 'dotdot' if '..' in name else 'nested' if '/' in name else 'plain'))
            want, searched = seq_spec(name, parent, cur, set(dirs))
            clean = (not dirty) or nc
            res.count('seq:clean' if clean else 'seq:stale')
            if clean != m['clean']:
                raise common.Infra(f'resolve.session and the monitor disagree on clean at look-up {k - 1}')
            form = 'abs' if name.startswith('/') else 'rel'
            sig = {'clause': 'resolve_first_existing', 'form': form, 'seq': case.get('tag')}
            got = None
            if op.get('py_dir') and op['py_dir'] not in dirs:
                probed_missing.add(op['py_dir'])
            if obs['err'] and 'ModuleNotFound' in obs['err']:
                d = want.get('ok', '?').rsplit('/', 1)[0]
                sg = {'clause': 'sys_path_has_pipeline_dir', 'seq': case.get('tag')}
                if d in probed_missing:
                    sg.update(site='add_sys_path', cause='known_dirs_remembers_missing_dir')
                res.violation(case, f'look-up {k - 1}: {name} resolved to {want.get("ok")} but the step module next to it is not '
                                    f'importable ({obs["msg"].splitlines()[0]})' +
                                    (f'; {d} was handed to add_sys_path as py_dir before it existed' if d in probed_missing else ''),
                              signature=sg, impl=impl)
                continue
            if obs['err'] is None and not obs['ran'] and want.get('ok', '').startswith('/B/'):
                got = {'ok': want['ok']}          # pypyr's own built-in pipeline ran (it leaves no trail)
            elif obs['err'] is None and len(obs['ran']) == 1:
                got = {'ok': '/R/' + obs['ran'][0]}
            elif obs['err'] == 'PipelineNotFoundError' and not obs['ran']:
                got = {'err': 'PipelineNotFoundError', 'msg': obs['msg']}
            else:
                res.violation(case, f'look-up {k - 1} of {name} (parent {parent}, via {op["via"]}) ended unexpectedly: {obs}',
                              signature=dict(sig, clause='resolve_first_existing'), impl=impl)
                continue
            if clean:
                if 'ok' in want:
                    if got.get('ok') != want['ok']:
                        res.violation(case, f'look-up {k - 1}: {name} (parent {parent}, via {op["via"]}) must resolve to {want["ok"]} — '
                                            f'as it does in a cold process — but after the earlier look-ups it gave {got}',
                                      signature=sig, impl=impl)
                else:
                    if 'ok' in got:
                        res.violation(case, f'look-up {k - 1}: {name} (parent {parent}, via {op["via"]}) exists nowhere in its search '
                                            f'order {searched or "(absolute: that path only)"}, yet after the earlier look-ups {got["ok"]} ran',
                                      signature=dict(sig, clause='resolve_absolute_only' if searched is None else 'resolve_first_existing'),
                                      impl=impl)
                    elif not judge_not_found(got['msg'], name, searched):
                        res.violation(case, f'look-up {k - 1}: not-found error does not list the searched places {searched}: {got["msg"]!r}',
                                      signature=dict(sig, clause='not_found_lists_searched'), impl=impl)
            if obs.get('dups'):
                res.violation(case, f'look-up {k - 1}: sys.path holds {obs["dups"]} more than once',
                              signature=dict(sig, clause='sys_path_once'), impl=impl)
            mm = {'ok': m['ok']} if 'ok' in m else {'err': 'PipelineNotFoundError', 'msg': m['err']}
            # sys.path: the pype wrappers' directories are loads the model does not see
            wrap_dirs = {'/R/' + o2['parent'][3:] for o2 in case['ops'] if o2['op'] == 'req' and o2['via'] == 'pype'}
            ia = [p for p in obs.get('added', []) if p not in wrap_dirs or p in m['sysPath']]
            ma = [p for p in m['sysPath'] if p != '/B' or p in ia]
            if mm != got or (clean and sorted(ia) != sorted(ma)):
                res.mismatch(case, {'lookup': k - 1, **mm, 'sysPath': ma}, {'lookup': k - 1, **got, 'sysPath': ia})
                break


# ---------------------------------------------------------------------------------------------
# subdir scenarios: step 4 is the cwd's CONFIGURED pipelines sub-directory (config.pipelines_subdir)
# ---------------------------------------------------------------------------------------------

SUB_WHERE = {'local': 'w/pypyr-config.yaml', 'pyproject': 'w/pyproject.toml', 'user': 'xh/pypyr/config.yaml',
             'common': 'xd/pypyr/config.yaml', 'global': 'g.yaml'}


def config_text(where, sub):
    return f'[tool.pypyr]\npipelines_subdir = {json.dumps(sub)}\n' if where == 'pyproject' else f'pipelines_subdir: {json.dumps(sub)}\n'


def subdir_cases(rng, quick):
    """The configured sub-directory x where it is configured x how the process gets to its first pipeline load (the command
    line; import -> config.init() -> run; import -> assignment -> run; a change AFTER the first load; the loader module
    imported by the client before configuring) x every subset of {cwd, cwd/<sub>, cwd/pipelines} holding the file, for plain and
    nested names and for a pype child whose caller lives elsewhere."""
    out = []
    subs = ['pipes', 'a/b', 'pipelines']
    modes = ['cli', 'api-init', 'api-set']
    for sub in subs:
        for where in (['local', 'pyproject', 'user', 'common', 'global', 'local+pyproject'] if sub != 'pipelines' else ['local', None]):
            for mode in modes:
                if mode == 'api-set' and where not in ('local', None):
                    continue
                for name in ('vp0', 'sub/vp0', 'child'):
                    locs = [f'w/{sub}/NAME.yaml', 'w/NAME.yaml'] + ([f'w/pipelines/NAME.yaml'] if sub != 'pipelines' else [])
                    for k in range(len(locs) + 1):
                        for present in itertools.combinations(locs, k):
                            out.append((sub, where, mode, name, list(present)))
    cases = []
    for sub, where, mode, name, present in out:
        leaf = 'vp1' if name == 'child' else name
        files = [f.replace('NAME', leaf) for f in present]
        if name == 'child':
            runs = [{'hops': [hop('/R/e/vp0'), hop('vp1')], 'rootLoader': None}]
            files = ['e/vp0.yaml'] + files
            lookups = [['lookup', '/R/e/vp0'], ['child', 'vp1']]
            root_name = '/R/e/vp0'
        else:
            runs = [{'hops': [hop(name)], 'rootLoader': None}]
            lookups = [['lookup', name]]
            root_name = name
        configs = {}
        eff = sub
        if mode == 'api-set':
            where_eff = None
        else:
            where_eff = where
        if where_eff == 'local+pyproject':
            configs[SUB_WHERE['local']] = config_text('local', sub)
            configs[SUB_WHERE['pyproject']] = config_text('pyproject', 'loses')
        elif where_eff:
            configs[SUB_WHERE[where_eff]] = config_text(where_eff, sub)
        elif mode != 'api-set':
            eff = 'pipelines'
        imp = {'op': 'import', 'module': 'pypyr.cli' if mode == 'cli' else 'pypyr.pipelinerunner'}
        if mode == 'cli':
            script, mops = [imp, {'op': 'cli', 'name': root_name}], [['config', eff]] + lookups
        elif mode == 'api-init':
            script, mops = [imp, {'op': 'init'}, {'op': 'run', 'name': root_name}], [['config', eff]] + lookups
        else:
            script, mops = [imp, {'op': 'set', 'subdir': sub}, {'op': 'run', 'name': root_name}], [['config', sub]] + lookups
        cases.append({'kind': 'subdir', 'tag': f'{mode}:{where_eff}', 'sub': eff, 'runs': runs, 'files': sorted(set(files)),
                      'configs': configs, 'global': where_eff == 'global', 'script': script, 'mops': mops,
                      'judged': [True], 'mkdirs': ['w/' + sub, 'xh/pypyr', 'xd/pypyr', 'home']})
    # the configuration changes AFTER the first pipeline load / the client imports the loader module before configuring:
    # where the code reads the value (model == implementation; the monitor judges only look-ups made under a configuration
    # that was settled before the first load)
    for sub in ('pipes', 'a/b'):
        for present in (['w/pipelines/vp0.yaml', f'w/{sub}/vp0.yaml'], [f'w/{sub}/vp0.yaml'], ['w/pipelines/vp0.yaml']):
            imp = {'op': 'import', 'module': 'pypyr.pipelinerunner'}
            cases.append({'kind': 'subdir', 'tag': 'api-late-change', 'sub': 'pipelines', 'runs': [{'hops': [hop('vq0')], 'rootLoader': None},
                                                                                                    {'hops': [hop('vp0')], 'rootLoader': None}],
                          'files': ['w/pipelines/vq0.yaml'] + present, 'configs': {}, 'global': False,
                          'script': [imp, {'op': 'run', 'name': 'vq0'}, {'op': 'set', 'subdir': sub}, {'op': 'run', 'name': 'vp0'}],
                          'mops': [['lookup', 'vq0'], ['config', sub], ['lookup', 'vp0']], 'judged': [True, False],
                          'mkdirs': ['w/' + sub, 'xh/pypyr', 'xd/pypyr', 'home']})
            cases.append({'kind': 'subdir', 'tag': 'api-loader-imported-first', 'sub': sub, 'runs': [{'hops': [hop('vp0')], 'rootLoader': None}],
                          'files': present, 'configs': {SUB_WHERE['local']: config_text('local', sub)}, 'global': False,
                          'script': [{'op': 'import', 'module': 'pypyr.loaders.file'}, {'op': 'init'}, {'op': 'run', 'name': 'vp0'}],
                          'mops': [['import'], ['config', sub], ['lookup', 'vp0']], 'judged': [False],
                          'mkdirs': ['w/' + sub, 'xh/pypyr', 'xd/pypyr', 'home']})
    if quick:
        late = [c for c in cases if c['tag'] in ('api-late-change', 'api-loader-imported-first')]
        key = [c for c in cases if c['sub'] != 'pipelines' and c['files'] and not c['tag'].startswith('api-set') and c not in late]
        rest = [c for c in cases if c not in key and c not in late]
        cases = rng.sample(key, min(len(key), 100)) + rng.sample(rest, min(len(rest), 30)) + late
    return cases


def run_subdir_case(case, repo):
    root = Path(tempfile.mkdtemp(prefix='c19d')).resolve()
    try:
        build_run_tree(root, case)
        for rel, txt in case['configs'].items():
            f = root / rel
            f.parent.mkdir(parents=True, exist_ok=True)
            f.write_text(txt)
        extra = {'XDG_CONFIG_HOME': str(root / 'xh'), 'XDG_CONFIG_DIRS': str(root / 'xd'), 'HOME': str(root / 'home')}
        if case.get('global'):
            extra['PYPYR_CONFIG_GLOBAL'] = str(root / 'g.yaml')
        script = [dict(op, name=conc(root, op['name'])) if 'name' in op else op for op in case['script']]
        out = run_subprocess(root, {'kind': 'subdir', 'script': script}, repo, extra_env=extra)
        if out.get('timeout'):
            out = {'builtin': '/nowhere', 'config_cwd': str(root / 'w'), 'loader_imported': [],
                   'results': [{'trail': None, 'err': 'timeout', 'msg': 'the process did not return within 120 s', 'subdir_config': None}]}
        canon = Canon(root, out['builtin'])
        if canon(out['config_cwd']) != CWD:
            raise common.Infra(f'runner cwd is {out["config_cwd"]}')
        files, dirs = fs_of(root, canon)
        impl = {'results': [{'trail': [canon(t) for t in r['trail']] if r.get('trail') is not None else None, 'err': r['err'],
                             'msg': canon(r.get('msg')), 'subdir_config': r.get('subdir_config')} for r in out['results']],
                'loader_imported': out['loader_imported']}
        return case, files, dirs, impl
    finally:
        shutil.rmtree(root, ignore_errors=True)


def spec_resolve_sub(name, parent, fs, sub):
    """the property text with the configured sub-directory in place of `pipelines`"""
    if name.startswith('/'):
        q = fs.is_file(name + '.yaml')
        return ({'ok': q} if q else {'err': 'PipelineNotFoundError'}), None
    searched = []
    if parent:
        rp = fs.resolve(parent)
        if rp in fs.dirs and rp != CWD:
            searched.append(rp)
    searched += [CWD, f'{CWD}/{sub}', '/B']
    for d in searched:
        q = fs.is_file(f'{d}/{name}.yaml')
        if q:
            return {'ok': q}, searched
    return {'err': 'PipelineNotFoundError'}, searched


def judge_subdir_case(env, res, case, files, dirs, impl):
    res.case(case)
    res.count('subdir:' + case['tag'])
    res.count('subdir:sub=' + case['sub'])
    fs = AbsFs(files, dirs, {})
    # static part of the model: `import pypyr.cli` / `import pypyr.pipelinerunner` do not import the file loader (it is
    # imported on the first pipeline load, when its module constant cwd_pipelines_dir reads config.pipelines_subdir)
    for mod, loaded in impl['loader_imported']:
        if loaded and mod != 'pypyr.loaders.file':
            res.mismatch(case, {'import': mod, 'imports pypyr.loaders.file': False}, {'import': mod, 'imports pypyr.loaders.file': True},
                         'the model reads config.pipelines_subdir at the first pipeline load (lazy import of pypyr.loaders.file)')
            break
    model = env.driver.ask('resolve.subdir', cwd=CWD, builtin='/B', files=files, dirs=dirs, ops=case['mops'])
    # the model's look-ups, grouped per root run
    mi = iter(model)
    for k, (run, r) in enumerate(zip(case['runs'], impl['results'])):
        sub = r['subdir_config'] if r['subdir_config'] is not None else case['sub']
        ran = files_of_trail(r['trail'])
        # ---- monitor: the configuration in force at this look-up names the sub-directory
        want_ran, want_err, searched, parent = [], None, None, None
        for h in run['hops']:
            w, searched = spec_resolve_sub(h['name'], parent, fs, sub)
            if 'err' in w:
                want_err = h['name']
                break
            want_ran.append(w['ok'][3:])
            parent = w['ok'].rsplit('/', 1)[0]
        if case['judged'][k]:
            sig = {'clause': 'resolve_first_existing', 'step': 'cwd-pipelines-subdir', 'configured': 'default' if sub == 'pipelines' else 'non-default',
                   'via': case['tag'].split(':')[0]}
            if sub != case['sub'] and r['err'] != 'timeout':
                res.mismatch(case, {'config.pipelines_subdir': case['sub']}, {'config.pipelines_subdir': sub}, 'the scenario configures another value')
            if r['err'] and r['err'] != 'PipelineNotFoundError':
                res.violation(case, f'look-up {k} ended with {r["err"]}: {r["msg"]}', signature=dict(sig, clause='unexpected-error'), impl=impl)
            elif want_err is None:
                if r['err'] or ran != want_ran:
                    res.violation(case, f'pipelines_subdir = {sub!r} (configured in {sorted(case["configs"]) or "the process"}): pipelines that ran {ran} '
                                        f'(error {r["err"]}: {r["msg"]}); by the resolution order cwd, cwd/{sub}, built-ins: {want_ran}',
                                  signature=sig, impl=impl)
            else:
                if not r['err'] or ran != want_ran:
                    res.violation(case, f'pipelines_subdir = {sub!r}: {want_err} exists nowhere in {searched}, yet {ran} ran (error {r["err"]})',
                                  signature=sig, impl=impl)
                elif not judge_not_found(r['msg'], want_err, searched):
                    res.violation(case, f'pipelines_subdir = {sub!r}: the not-found error does not list the searched places {searched}: {r["msg"]!r}',
                                  signature=dict(sig, clause='not_found_lists_searched'), impl=impl)
        # ---- model == implementation
        mran, merr = [], None
        for _h in run['hops']:
            m = next(mi, None)
            if m is None:
                break
            if 'ok' in m:
                mran.append(m['ok'][3:])
            else:
                merr = m['err']
                break
        iv = {'ran': ran, 'err': r['msg'] if r['err'] == 'PipelineNotFoundError' else r['err']}
        mv = {'ran': mran, 'err': merr}
        if mv != iv:
            res.mismatch(case, {'lookup': k, **mv}, {'lookup': k, **iv})
            break


# ---------------------------------------------------------------------------------------------
# entry points
# ---------------------------------------------------------------------------------------------


# ---------------------------------------------------------------------------------------------
# names scenarios: pipeline NAMES as arbitrary strings ("the first existing <name>.yaml")
# ---------------------------------------------------------------------------------------------

NAME_LASTS = ['build.v2', 'grand.v1.0', '.hidden', 'name.', 'a.b.c', 'p.yaml', 'p.yml', 'my pipe', 'пайп.в2',
              'x-1_2.0', 'UP.low', 'vq']
NAME_FORMS = ['{c}', 'sub/{c}', 'v1.2/{c}']
NAME_RAW_FORMS = ['./{c}', 'sub//{c}', 'sub/../{c}', '../e/{c}', '{c}/', 'sub/./{c}', 'sub/{c}/']
NAME_ABS_FORMS = ['/R/e/{c}', '/R/e/v1.2/{c}', '/R/e//{c}', '/R/e/sub/../{c}', '/R/e/{c}/']
# (via, parent handed to get_pipeline_path, the pipeline file whose pype step asks for the name)
NAME_VIAS = [('path', None, None), ('path', '/R/e', None), ('run', None, None), ('cli', None, None),
             ('pype', None, 'e/vroot.yaml'), ('pype', None, 'w/vroot.yaml'), ('pype', None, 'w/pipelines/vroot.yaml')]
NAME_ABS_VIAS = [('path', None, None), ('path', '/R/e2', None), ('run', None, None), ('cli', None, None),
                 ('pype', None, 'e2/vroot.yaml')]
NAME_ALPHABET = 'abxZ019._- éя目'


def posix_norm(p):
    import posixpath
    return posixpath.normpath(p)


def name_decoy_lasts(c):
    """file names (complete, with their suffix) a look-up of last component `c` must NOT take for `c`.yaml:
    truncated stems (what is left of the dot positions), the name as it is, .yml, another case"""
    c = c.rstrip('/')
    out = []
    for i, ch in enumerate(c):
        if ch == '.' and i > 0:
            out.append(c[:i] + '.yaml')
    out += [c, c + '.yml']
    if c.swapcase() != c:
        out.append(c.swapcase() + '.yaml')
    if c.endswith('.yaml') or c.endswith('.yml'):
        out.append(c.rsplit('.', 1)[0] + '.yaml.yml')
    seen = []
    for o in out:
        if o and o not in seen and o != c + '.yaml' and o not in ('.', '..'):
            seen.append(o)
    return seen


def name_parent_dir(via, parent, vroot):
    """the directory the look-up gets as its parent (abstract), or None"""
    if via == 'pype':
        return '/R/' + vroot.rsplit('/', 1)[0]
    return parent


def name_locs(name, pdir):
    """(directories a relative name is looked for in, in order — by the property text)"""
    if name.startswith('/'):
        return []
    locs = []
    if pdir and pdir != CWD:
        locs.append(pdir[3:])
    for d in ('w', 'w/pipelines'):
        if d not in locs:
            locs.append(d)
    return locs


def name_mkdirs(cand):
    """directories that must exist so that the OS can walk `cand` (a relative path with `..` / `.` / `//` inside)"""
    segs = cand.split('/')[:-1]
    acc, out = [], []
    for sg in segs:
        if sg in ('', '.'):
            continue
        if sg == '..':
            out.append('/'.join(acc))
            acc = acc[:-1]
        else:
            acc.append(sg)
    out.append('/'.join(acc))
    return [o for o in out if o and not o.startswith('..')]


def make_name_case(name, via, parent, vroot, true_locs, decoy_locs, form='str', decoy_pick=None):
    """true_locs: the search directories (rel. to /R) that hold <name>.yaml; decoy_locs: those that hold the decoys.
    For an absolute name true_locs is [] or ['abs'] and decoys go next to the absolute file / into the cwd."""
    files, mk = [], []
    last = [x for x in name.split('/') if x not in ('', '.')][-1] if name.strip('/.') else name
    trailing = name.endswith('/')
    if name.startswith('/'):
        cand = name[3:].lstrip('/') + '.yaml'
        mk += name_mkdirs(cand)
        if 'abs' in true_locs:
            files.append(posix_norm(cand))
        # the same name in the places a RELATIVE look-up would visit: "and nowhere else"
        for d in decoy_locs:
            if d != 'abs':
                files.append(posix_norm(f'{d}/{last}.yaml'))
        ddirs = [posix_norm(cand).rsplit('/', 1)[0]] if 'abs' in decoy_locs else []
    else:
        for d in true_locs:
            cand = f'{d}/{name}.yaml'
            mk += name_mkdirs(cand)
            files.append(posix_norm(cand))
        for d in name_locs(name, name_parent_dir(via, parent, vroot)):
            mk += name_mkdirs(f'{d}/{name}.yaml')
        ddirs = [posix_norm(f'{d}/{name}.yaml').rsplit('/', 1)[0] for d in decoy_locs]
    if trailing:      # 'a/' -> 'a/.yaml': the decoys sit next to the directory `a`, named after it
        ddirs = [d.rsplit('/', 1)[0] if '/' in d else d for d in ddirs]
    for dd in ddirs:
        for dn in name_decoy_lasts(last):
            if decoy_pick is None or dn in decoy_pick:
                files.append(f'{dd}/{dn}')
    files = sorted({f for f in files if f.split('/')[0] in ('w', 'e', 'e2')})
    # a decoy named exactly like a directory that has to exist cannot be written: the directory wins
    dirs_needed = {'/'.join(f.split('/')[:k]) for f in files for k in range(1, f.count('/') + 1)} | set(mk)
    files = [f for f in files if f not in dirs_needed]
    return {'kind': 'names', 'name': name, 'via': via, 'parent': parent, 'parent_form': form, 'vroot': vroot,
            'files': files, 'mkdirs': sorted({m for m in mk if m.split('/')[0] in ('w', 'e', 'e2')})}


def subsets(xs):
    for k in range(len(xs) + 1):
        for sub in itertools.combinations(xs, k):
            yield list(sub)


def decoy_placements(locs, true):
    """none / every search place up to and including the one the name is first found in / all of them"""
    first = next((i for i, d in enumerate(locs) if d in true), len(locs) - 1)
    return [[], locs[:first + 1], list(locs)]


def name_cases_directed(rng, quick):
    core, rest = [], []
    for c in NAME_LASTS:
        for fi, form in enumerate(NAME_FORMS + NAME_RAW_FORMS):
            name = form.format(c=c)
            raw = fi >= len(NAME_FORMS)
            for via, parent, vroot in NAME_VIAS:
                locs = name_locs(name, name_parent_dir(via, parent, vroot))
                for true in subsets(locs):
                    for dec in decoy_placements(locs, true):
                        case = make_name_case(name, via, parent, vroot, true, dec,
                                              form='path' if (parent and len(true) % 2) else 'str')
                        is_core = ((fi == 0 or (fi in (1, 2) and c in ('build.v2', 'grand.v1.0')) or
                                    (raw and c == 'build.v2' and via in ('path', 'run'))) and
                                   dec == locs and true in ([], locs[-1:]))
                        (core if is_core else rest).append(case)
        for form in NAME_ABS_FORMS:
            name = form.format(c=c)
            for via, parent, vroot in NAME_ABS_VIAS:
                for true in ([], ['abs']):
                    for dec in ([], ['abs', 'w', 'w/pipelines']):
                        case = make_name_case(name, via, parent, vroot, true, dec)
                        is_core = form == NAME_ABS_FORMS[0] and dec and via in ('path', 'run', 'pype')
                        (core if is_core else rest).append(case)
    def dedupe(cs):
        seen, out = set(), []
        for x in cs:
            k = json.dumps(x, sort_keys=True)
            if k not in seen:
                seen.add(k)
                out.append(x)
        return out
    core, rest = dedupe(core), dedupe(rest)
    if quick:
        rest = rng.sample(rest, min(len(rest), 600))
    return core + rest


def random_name(rng):
    def comp():
        r = rng.random()
        if r < 0.04:
            return rng.choice(['..', '.', ''])
        n = rng.randint(1, 7)
        t = ''.join(rng.choice(NAME_ALPHABET) for _ in range(n))
        if rng.random() < 0.5 and '.' not in t:
            k = rng.randint(0, len(t))
            t = t[:k] + '.' + t[k:]
        return t
    while True:
        comps = [comp() for _ in range(rng.choice([1, 1, 1, 2, 2, 3]))]
        name = '/'.join(comps)
        if rng.random() < 0.06:
            name += '/'
        if rng.random() < 0.2:
            name = '/R/' + rng.choice(['e', 'e2', 'w']) + '/' + name
        # the command line reads a leading '-' as an option; '{' is a formatting expression in a pype step
        if name.startswith('-') or not name.strip('/. ') or len(name.encode()) > 120 or \
                (name.startswith('/') and not name.startswith('/R/')):
            continue
        # outside /R/{w,e,e2} nothing is written: keep `..` from climbing out of the scratch tree
        depth = 0
        ok = True
        for sg in (name[3:] if name.startswith('/R/') else 'w/pipelines/' + name).split('/'):
            depth += -1 if sg == '..' else (0 if sg in ('', '.') else 1)
            ok = ok and depth >= 1
        if ok:
            return name


def name_case_random(rng):
    name = random_name(rng)
    if name.startswith('/'):
        via, parent, vroot = rng.choice(NAME_ABS_VIAS)
        true = ['abs'] if rng.random() < 0.6 else []
        dec = [d for d in ['abs', 'w', 'w/pipelines'] if rng.random() < 0.5]
    else:
        via, parent, vroot = rng.choice(NAME_VIAS)
        locs = name_locs(name, name_parent_dir(via, parent, vroot))
        true = [d for d in locs if rng.random() < 0.4]
        dec = [d for d in locs if rng.random() < 0.6]
    last = [x for x in name.split('/') if x not in ('', '.')][-1]
    pick = [d for d in name_decoy_lasts(last) if rng.random() < 0.6]
    return make_name_case(name, via, parent, vroot, true, dec, form=rng.choice(['str', 'path']), decoy_pick=pick)


def run_names_chunk(chunk, repo):
    root = Path(tempfile.mkdtemp(prefix='c19n')).resolve()
    try:
        for d in ('w/pipelines', 'e', 'e2', 'lib'):
            (root / d).mkdir(parents=True)
        (root / 'lib' / 'vtrail.py').write_text('T = []\n')
        (root / 'lib' / 'vcustomstep.py').write_text(
            "import vtrail\n\ndef run_step(context):\n    vtrail.T.append(context['vfile'])\n")
        sc = {'kind': 'names', 'root': str(root),
              'cases': [dict(c, name=conc(root, c['name']), parent=conc(root, c['parent']),
                             probe_parent=conc(root, name_parent_dir(c['via'], c['parent'], c['vroot']))) for c in chunk]}
        out = run_subprocess(root, sc, repo, timeout=300)
        if out.get('timeout'):
            probe = run_subprocess(root, dict(sc, cases=[]), repo)
            if probe.get('timeout'):
                raise common.Infra('C19 runner does not even start within the time limit')
            out = dict(probe, results=[])
            for one in sc['cases']:
                o1 = run_subprocess(root, dict(sc, cases=[one]), repo, timeout=60)
                out['results'].append({'err': 'timeout', 'msg': 'the look-up did not return within 60 s', 'ran': [], 'probe': None}
                                      if o1.get('timeout') else o1['results'][0])
        canon = Canon(root, out['builtin'])
        if canon(out['config_cwd']) != CWD:
            raise common.Infra(f'runner cwd is {out["config_cwd"]}')
        res = []
        for c, r in zip(chunk, out['results']):
            pr = r.get('probe')
            if pr:
                pr = dict(pr, cands=[[k, isf, canon(real)] for k, isf, real in pr['cands']])
                if 'parent' in pr:
                    pr['parent'] = dict(pr['parent'], real=canon(pr['parent']['real']))
            impl = {'err': r.get('err'), 'msg': canon(r.get('msg')), 'ran': r.get('ran')}
            if 'ok' in r:
                impl['ok'] = canon(r['ok'])
            res.append((c, pr, impl))
        return res, out['pypyr_file']
    finally:
        shutil.rmtree(root, ignore_errors=True)


def judge_name_case(env, res, c, probe, impl):
    """Monitor from the property text: "a pipeline name resolves to the first existing <name>.yaml in this order:
    absolute path (and nowhere else), directory of the calling parent pipeline, working directory, its pipelines
    sub-directory, built-ins; when none exists a pipeline-not-found error lists the places searched". The candidates
    are `dir + '/' + name + '.yaml'` — plain string append — and whether they exist was asked of the OS in the
    subprocess (`probe`); neither the model nor pypyr take part in the expectation."""
    res.case(c)
    name, via = c['name'], c['via']
    last = [x for x in name.split('/') if x not in ('', '.')][-1]
    res.count('names:via-' + via + ('-child' if via == 'pype' else ''))
    res.count('names:' + ('abs' if name.startswith('/') else 'nested' if '/' in name.strip('/') else 'plain'))
    if '.' in last.strip('.') or last.startswith('.') or last.endswith('.'):
        res.count('names:dot-in-last-component')
    if any(sg in ('', '.', '..') for sg in name.split('/')[(1 if name.startswith('/') else 0):]):
        res.count('names:raw-segments(empty/./..)')
    if not name.isascii():
        res.count('names:non-ascii')
    if ' ' in name:
        res.count('names:with-space')
    decoys = [f for f in c['files'] if not f.endswith('/' + last + '.yaml')]
    if decoys:
        res.count('names:with-decoy-files')
    pdir = name_parent_dir(via, c['parent'], c['vroot'])
    sig = {'clause': 'resolve_first_existing', 'names': 'arbitrary-string', 'form': 'abs' if name.startswith('/') else 'rel'}
    if impl.get('err') == 'timeout' or probe is None:
        res.violation(c, f'the look-up of {name!r} did not return', signature=dict(sig, clause='returns'), impl=impl)
        return
    # ---- expectation -----------------------------------------------------------------------------------------
    if probe['abs']:
        searched = None
        cands = probe['cands']
    else:
        keys = ['cwd', 'sub', 'builtin']
        if pdir and probe['parent']['exists'] and not probe['parent']['is_cwd']:
            keys = ['parent'] + keys
        by = {k: (isf, real) for k, isf, real in probe['cands']}
        cands = [[k, by[k][0], by[k][1]] for k in keys]
        searched = [{'parent': probe.get('parent', {}).get('real'), 'cwd': CWD, 'sub': CWD + '/pipelines', 'builtin': '/B'}[k]
                    for k in keys]
    want = next((real for _, isf, real in cands if isf), None)
    res.count('names:' + ('found' if want else 'not-found'))
    got_file = impl.get('ok') if via == 'path' else (('/R/' + impl['ran'][-1]) if impl.get('ran') else None)
    if want:
        wrong = None
        if impl.get('err'):
            wrong = f'{impl["err"]}: {impl["msg"]}'
        elif want.startswith('/B/'):
            wrong = None if (via == 'path' and got_file == want) or (via != 'path' and not impl['ran']) else f'ran {impl["ran"]}'
        elif got_file != want or (via != 'path' and impl['ran'] != [want[3:]]):
            wrong = f'{"resolved to" if via == "path" else "the pipeline(s) that ran:"} {impl.get("ok") if via == "path" else impl["ran"]}'
        if wrong:
            other = got_file and got_file != want
            res.violation(c, f'name {name!r} (via {via}, parent {pdir}): the first existing <name>.yaml is {want}, but {wrong}'
                             + (' — ANOTHER pipeline file was taken' if other else ''),
                          signature=dict(sig, outcome='other-file' if other else 'not-found-although-exists'), impl=impl)
    else:
        if impl.get('err') != 'PipelineNotFoundError':
            res.violation(c, f'{name!r}: no <name>.yaml exists in the search order, yet: {impl}',
                          signature=dict(sig, outcome='found-although-absent'), impl=impl)
        else:
            msg = impl['msg'] or ''
            requested = name + '.yaml'
            from pathlib import PurePosixPath
            named = requested in msg or (probe['abs'] and str(PurePosixPath(requested)) in msg)
            if not named:
                res.violation(c, f'not-found error does not name the requested file {requested!r}: {msg!r}',
                              signature=dict(sig, clause='not_found_names_requested_file'), impl=impl)
            elif searched is not None and not judge_not_found(msg, name, searched):
                res.violation(c, f'not-found error does not list the searched places {searched}: {msg!r}',
                              signature=dict(sig, clause='not_found_lists_searched'), impl=impl)
    # ---- the model: Resolve.getPipelinePathNR on the same tree -----------------------------------------------
    files = sorted({'/R/' + f for f in c['files']} | ({'/R/' + c['vroot']} if c['vroot'] else set()) |
                   {f'/B/{n}.yaml' for n in BUILTIN_NAMES})
    dirs = {'/B', '/R', '/R/w', '/R/w/pipelines', '/R/e', '/R/e2', '/R/lib'}
    for f in list(files) + ['/R/' + m + '/x' for m in c['mkdirs']]:
        parts = f.split('/')[1:-1]
        for k in range(1, len(parts) + 1):
            dirs.add('/' + '/'.join(parts[:k]))
    model = env.driver.ask('resolve.name', name=name, parent=pdir, cwd=CWD, builtin='/B', files=files, dirs=sorted(dirs),
                           links=[])
    if 'ok' in model:
        m = {'file': model['ok'], 'err': None, 'msg': None}
    else:
        m = {'file': None, 'err': 'PipelineNotFoundError', 'msg': model['err']}
    i = {'file': got_file if not impl.get('err') else None, 'err': impl.get('err'),
         'msg': impl.get('msg') if impl.get('err') else None}
    if m['file'] and m['file'].startswith('/B/') and via != 'path':
        m['file'] = None       # a built-in pipeline leaves no marker
    if m != i:
        res.mismatch(c, m, i)


def cli_dir_default(repo):
    """pypyr/cli.py: the `default=` of the --dir / py_dir argument, as source text"""
    import ast
    tree = ast.parse((Path(repo) / 'pypyr' / 'cli.py').read_text())
    for n in ast.walk(tree):
        if (isinstance(n, ast.Call) and isinstance(n.func, ast.Attribute) and n.func.attr == 'add_argument'
                and any(isinstance(a, ast.Constant) and a.value == '--dir' for a in n.args)):
            kw = {k.arg: ast.unparse(k.value) for k in n.keywords}
            return kw.get('dest'), kw.get('default')
    return None, None


def static_subdir_tie(res, repo):
    """ast: pypyr/loaders/file.py binds `cwd_pipelines_dir` at MODULE level to `config.cwd.joinpath(config.pipelines_subdir)` (the
    model's `SubProc.imported`: the value is read when the module is imported), get_pipeline_path uses that name for step 4, and
    no module that `pypyr/cli.py` imports at module level (transitively, inside the package) imports pypyr.loaders.file."""
    import ast
    pkg = Path(repo) / 'pypyr'
    tree = ast.parse((pkg / 'loaders' / 'file.py').read_text())
    bind = [ast.unparse(n.value) for n in tree.body if isinstance(n, ast.Assign)
            and any(isinstance(t, ast.Name) and t.id == 'cwd_pipelines_dir' for t in n.targets)]
    want = ['config.cwd.joinpath(config.pipelines_subdir)']
    if bind != want:
        res.mismatch({'static': 'pypyr/loaders/file.py cwd_pipelines_dir'}, want, bind,
                     'where the code reads config.pipelines_subdir is not what the model (Resolve.SubProc) says')
    fn = next((n for n in tree.body if isinstance(n, ast.FunctionDef) and n.name == 'get_pipeline_path'), None)
    uses = fn is not None and any(isinstance(n, ast.Name) and n.id == 'cwd_pipelines_dir' for n in ast.walk(fn))
    if not uses:
        res.mismatch({'static': 'get_pipeline_path step 4'}, 'cwd_pipelines_dir', None, 'step 4 no longer uses the module constant')

    def top_imports(path):
        out = set()
        try:
            t = ast.parse(path.read_text())
        except (OSError, SyntaxError):
            return out
        for n in t.body:
            for x in ([n] if isinstance(n, (ast.Import, ast.ImportFrom)) else
                      [y for y in ast.walk(n) if isinstance(y, (ast.Import, ast.ImportFrom))] if isinstance(n, (ast.If, ast.Try)) else []):
                if isinstance(x, ast.Import):
                    out.update(a.name for a in x.names)
                elif x.module and x.level == 0:
                    out.add(x.module)
                    out.update(f'{x.module}.{a.name}' for a in x.names)
        return {m for m in out if m == 'pypyr' or m.startswith('pypyr.')}

    def mod_file(m):
        p = Path(repo).joinpath(*m.split('.'))
        return p / '__init__.py' if p.is_dir() else p.with_suffix('.py')
    for entry in ('pypyr.cli', 'pypyr.pipelinerunner'):
        seen, todo = set(), [entry]
        while todo:
            m = todo.pop()
            if m in seen or not mod_file(m).exists():
                continue
            seen.add(m)
            todo += list(top_imports(mod_file(m)))
        res.count('static:import-closure:' + entry)
        if 'pypyr.loaders.file' in seen:
            res.mismatch({'static': f'module-level imports reachable from {entry}'}, 'pypyr.loaders.file not among them',
                         sorted(m for m in seen if 'pypyr.loaders.file' in top_imports(mod_file(m))),
                         'pypyr.loaders.file is imported before config.init() can run: its module constant freezes pipelines_subdir early')


def run(env, res):
    repo = common.REPO
    if cli_dir_default(repo) != ("'py_dir'", 'config.cwd'):
        res.mismatch({'static': 'pypyr/cli.py --dir'}, {'dest': "'py_dir'", 'default': 'config.cwd'}, cli_dir_default(repo),
                     'the command line no longer hands the cwd to py_dir by default')
    res.rule = ('paths: every subset of the candidate locations (parent dir, cwd, cwd/pipelines; built-in via the name '
                'donothing) x 5 name forms x 7 parents x Path/str, through get_pipeline_path; + symlinked directories / files, `..` in '
                'names and parents, relative parents before and after os.chdir; + KINDS of entry at every search location (absent, regular '
                'file, directory, symlink to a file / to a directory, dangling symlink, fifo): each kind at each location with a real file '
                'at each later location or nowhere, all earlier locations non-files, absolute names, plain / nested / built-in names, '
                'no parent / a caller directory, random kind assignments per location; also against the kind-map model. '
                'run: all depth-0 layouts, '
                'depth-1 = 5 root placements x 4 child name forms x 13 pype option sets x every subset of the child\'s '
                'candidate locations (thorough: all; quick: seeded slice), depth-2 random chains incl. custom loaders, directed and random '
                'chains of 3-6 hops (name forms incl. ../x, steering keys, pyDir), symlinked pipeline files / directories / cwd entries, '
                'py_dir (none, cwd, other, missing; str / Path; on children), entry kinds (a directory / a link to a directory / a '
                'dangling link / a link to a file called <name>.yaml at an earlier search location of a root pipeline or a pype child, '
                'real file later or nowhere), the same step-module name in several directories '
                '(two roots in one process, child elsewhere than its caller, py_dir = cwd, interpreter sys.path entry). '
                'seq: SEQUENCES of 2-10 look-ups in ONE process with warm caches (name forms plain, dir/name, absolute, '
                'with +, with ..; parents none, dir, dir/sub, cwd; through new and re-used Pipeline objects, Pipeline.run, '
                'pipelinerunner.run and a real pype step; with file-system changes, clear_all and no_cache in between): all ordered '
                'pairs of requests whose first candidates coincide under path joining, one object run with changing parents, '
                'all ordered pairs of requests on 3 layouts (thorough: all; quick: slice), random; each look-up compared with '
                'its cold-process result. names: pipeline NAMES as arbitrary strings (dots in the last component - one, several, '
                'leading, trailing -, a name ending in .yaml / .yml already, spaces, unicode, `..` / `.` / empty segments, trailing '
                'slash; plain, dir/name, dotted directory, absolute) x 7 ways of asking (get_pipeline_path with / without parent, '
                'pipelinerunner.run, the command line, a pype child whose parent lives elsewhere / in the cwd / in cwd/pipelines) x every '
                'subset of the search places holding <name>.yaml x decoy files (truncated stems, the bare name, .yml, other case) in '
                'none / the earlier / all search places, every file a pipeline recording its own path (thorough: all; quick: core + '
                'seeded slice) + random names over an alphabet with . space - _ digits non-ascii. '
                'every case in a fresh subprocess with its own cwd. non-trivial = distinct (hops, options, layout)')
    workers = min(14, os.cpu_count() or 2)
    pcs = path_cases() + path_cases_kinds(env.rng, env.n(200, 2000))
    chunks = [pcs[i::workers] for i in range(workers)]
    runs = depth0_cases()
    d1 = depth1_cases()
    res.extra['depth1_layouts_total'] = len(d1)
    if env.quick:   # all layouts of the default case (no steering keys) + a seeded slice of the rest
        d1 = [c for c in d1 if not c['hops'][1]['pype']] + env.rng.sample([c for c in d1 if c['hops'][1]['pype']], 350)
    runs += d1
    runs += [random_depth2(env.rng) for _ in range(env.n(200, 2500))]
    runs += directed_deep() + symlink_cases() + pydir_cases() + shared_cases() + kind_run_cases()
    runs += [random_deep(env.rng) for _ in range(env.n(80, 600))]
    seqs = seq_cases_directed(env.rng, env.quick)
    seqs += seq_cases_pairs(env.rng, env.n(3, 2), env.n(120, None))
    seqs += [seq_case_random(env.rng) for _ in range(env.n(150, 1000))]
    res.extra['sequences'] = len(seqs)
    subs = subdir_cases(env.rng, env.quick)
    res.extra['subdir_scenarios'] = len(subs)
    ncs = name_cases_directed(env.rng, env.quick) + [name_case_random(env.rng) for _ in range(env.n(250, 3000))]
    res.extra['name_cases'] = len(ncs)
    nchunks = [ncs[i::workers * 2] for i in range(workers * 2)]
    with ThreadPoolExecutor(max_workers=workers) as pool:
        pfut = [pool.submit(run_path_chunk, ch, repo) for ch in chunks if ch]
        rfut = [pool.submit(run_run_case, c, repo) for c in runs]
        sfut = [pool.submit(run_seq_case, c, repo) for c in seqs]
        dfut = [pool.submit(run_subdir_case, c, repo) for c in subs]
        nfut = [pool.submit(run_names_chunk, ch, repo) for ch in nchunks if ch]
        for fu in pfut:
            results, pypyr_file = fu.result()
            if not str(pypyr_file).startswith(str(repo)):
                raise common.Infra(f'runner imported pypyr from {pypyr_file}, not from {repo}')
            for c, files, dirs, impl in results:
                judge_path_case(env, res, c, files, dirs, impl)
        for fu in rfut:
            judge_run_case(env, res, *fu.result())
        for fu in sfut:
            judge_seq_case(env, res, *fu.result())
        for fu in dfut:
            judge_subdir_case(env, res, *fu.result())
        for fu in nfut:
            results, pypyr_file = fu.result()
            if not str(pypyr_file).startswith(str(repo)):
                raise common.Infra(f'runner imported pypyr from {pypyr_file}, not from {repo}')
            for c, probe, impl in results:
                judge_name_case(env, res, c, probe, impl)
    static_subdir_tie(res, repo)


def replay(env, res, payload):
    case = payload.get('case') or (payload.get('first_diverging_case') or {}).get('case')
    if not case:
        return run(env, res)
    if case.get('kind') == 'paths':
        results, _ = run_path_chunk([case], common.REPO)
        for c, files, dirs, impl in results:
            judge_path_case(env, res, c, files, dirs, impl)
            res.extra['replayed'] = impl
    elif case.get('kind') == 'names':
        results, _ = run_names_chunk([case], common.REPO)
        for c, probe, impl in results:
            judge_name_case(env, res, c, probe, impl)
            res.extra['replayed'] = impl
    elif case.get('kind') == 'subdir':
        c, files, dirs, impl = run_subdir_case(case, common.REPO)
        judge_subdir_case(env, res, c, files, dirs, impl)
        res.extra['replayed'] = impl
    elif case.get('kind') == 'seq':
        c, dirs, impl = run_seq_case(case, common.REPO)
        judge_seq_case(env, res, c, dirs, impl)
        res.extra['replayed'] = impl
    else:
        c, files, dirs, mods, impl = run_run_case(case, common.REPO)
        judge_run_case(env, res, c, files, dirs, mods, impl)
        res.extra['replayed'] = impl
