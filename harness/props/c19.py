"""C19 — pipeline and custom-module resolution order.

Correspondence: real directory layouts on disk, every run in a FRESH subprocess whose working
directory is the scenario's cwd (pypyr fixes config.cwd at import). Two kinds of scenario:

* paths — `pypyr.loaders.file.get_pipeline_path(name, parent)` for every subset of the candidate
  locations holding a file of that name x name form (plain, dir/name, absolute, a built-in's name)
  x parent (none, '', a directory, the cwd itself, a missing directory, cwd/pipelines; Path or str);
* run — `pipelinerunner.run` of a root pipeline that pypes a child that pypes a grandchild, with
  and without loader / resolveFromParent / parent overrides and custom loaders. Every candidate
  file starts with a custom step module that lives NEXT TO it and records which file ran, so the
  trail shows both which file was chosen and that its sibling module was importable.

* seq — a SEQUENCE of look-ups in ONE process with warm caches (lean `Resolve.runSess`): name forms
  plain, dir/name, absolute, with '+', with '..'; parents none, dir, dir/sub, the cwd; through new
  and re-used `Pipeline` objects (the parent changes from call to call), `Pipeline.run`,
  `pipelinerunner.run` and a real pype step in a pipeline living in the parent directory; with
  file-system changes, `clear_all()` and `no_cache` in between, and `py_dir` directories that do not
  exist yet. Every look-up made when the caches were cleared since the file system last changed is
  compared with what the same look-up yields in a cold process (the property text restated in
  `seq_spec`); every look-up, clean or stale, is compared with the model, sys.path included.

Both sides are compared on: the chosen file / the trail, the error text (searched places),
the directories appended to sys.path. Independent monitors restate the property text in Python.
A subprocess that does not return is an observation (judged by the monitors), not a crash.
"""
from __future__ import annotations

import itertools
import json
import os
import shutil
import subprocess
import sys
import tempfile
from concurrent.futures import ThreadPoolExecutor
from pathlib import Path

from .. import common

LEAN_MODULES = ['Props.C19']
TRUSTED = ['harness/props/c19.py (layout builder, path canonicaliser R/B, monitors)',
           'harness/impl_c19_runner.py (subprocess runner)', 'pathlib / os file-system semantics']
ASSUMPTIONS = [
    'directories are absolute, normalised and symlink-free (Path.resolve is the identity on them, str() of one determines it: '
    'the model\'s pipeline-cache key keeps the component list where the code keeps the string); names have no . segments; '
    '.. segments only in seq scenarios, where the driver\'s file-system predicate walks them like the OS',
    'the built-in location can only hold the names pypyr ships (donothing, echo, …): /repo is read-only, so '
    '"built-in exists" cases use the name donothing and nested names never exist there',
    'only the truthiness of resolveFromParent is used (a string "False" is truthy, as in get_arguments)',
    'sys.path is not edited by anyone else between loads',
]

RUNNER = Path(__file__).resolve().parent.parent / 'impl_c19_runner.py'
FILE_LOADER = 'pypyr.loaders.file'
CWD = '/R/w'
BUILTIN_NAMES = ['donothing']


# ---------------------------------------------------------------------------------------------
# scratch trees
# ---------------------------------------------------------------------------------------------

def conc(root, s):
    """abstract '/R/…' -> concrete path string"""
    if isinstance(s, str) and (s == '/R' or s.startswith('/R/')):
        return str(root) + s[2:]
    return s


def yaml_scalar(v):
    return json.dumps(v)


def pype_yaml(root, hop, indent):
    lines = [f'{indent}name: {yaml_scalar(conc(root, hop["name"]))}']
    for k, v in hop['pype'].items():
        lines.append(f'{indent}{k}: {yaml_scalar(conc(root, v))}')
    return '\n'.join(lines)


def stem_of(name):
    return name.rsplit('/', 1)[-1]


def build_run_tree(root, case):
    """Write the layout of a run scenario under `root`."""
    hops = case['hops']
    lib = root / 'lib'
    lib.mkdir()
    (lib / 'vtrail.py').write_text('T = []\n')
    (lib / 'vcustomstep.py').write_text(
        "import vtrail\n\ndef run_step(context):\n    vtrail.T.append(context['vfile'])\n")
    table = {}
    for i, h in enumerate(hops[:-1]):
        nxt = hops[i + 1]
        table[conc(root, h['name'])] = {'name': conc(root, nxt['name']),
                                        **{k: conc(root, v) for k, v in nxt['pype'].items()}}
    (lib / 'vchain.json').write_text(json.dumps(table))
    for lname, nc in (('vloader', False), ('vloader_nc', True)):
        (lib / f'{lname}.py').write_text(f'''import json, pathlib
from pypyr.pipedef import PipelineDefinition, PipelineInfo
TABLE = json.loads((pathlib.Path(__file__).parent / 'vchain.json').read_text())

def get_pipeline_definition(pipeline_name, parent):
    steps = [{{'name': 'vcustomstep', 'in': {{'vfile': f'custom:{lname}:{{pipeline_name}}:{{parent}}'}}}}]
    nxt = TABLE.get(pipeline_name)
    if nxt:
        steps.append({{'name': 'pypyr.steps.pype', 'in': {{'pype': nxt}}}})
    pipe = {{'steps': steps}}
    if {nc!r}:
        return PipelineDefinition(pipe, PipelineInfo(pipeline_name, '{lname}', parent,
                                                     is_parent_cascading=False, is_loader_cascading=False))
    return pipe
''')
    for d in ('w', 'w/pipelines', 'e', 'e2'):
        (root / d).mkdir(parents=True, exist_ok=True)
    for rel in case['files']:
        f = root / rel
        f.parent.mkdir(parents=True, exist_ok=True)
        dirrel = str(Path(rel).parent)
        dirid = dirrel.replace('/', '_')
        mod = f.parent / f'vmod_{dirid}.py'
        if not mod.exists():
            mod.write_text(f"import vtrail\n\ndef run_step(context):\n    vtrail.T.append({dirrel!r} + '|' + context['vfile'])\n")
        stem = f.stem
        idx = next((i for i, h in enumerate(hops) if stem_of(h['name']) == stem), None)
        body = f"steps:\n  - name: vmod_{dirid}\n    in:\n      vfile: {yaml_scalar(rel)}\n"
        if idx is not None and idx + 1 < len(hops):
            body += "  - name: pypyr.steps.pype\n    in:\n      pype:\n" + pype_yaml(root, hops[idx + 1], '        ') + '\n'
        f.write_text(body)


def run_subprocess(root, scenario, repo, timeout=120):
    scenario = dict(scenario, repo=str(repo), lib=str(root / 'lib'))
    sf = root / 'scenario.json'
    sf.write_text(json.dumps(scenario))
    cwd = root / 'w'
    cwd.mkdir(exist_ok=True)
    env = {k: v for k, v in os.environ.items() if not k.startswith('PYTHON') and not k.startswith('PYPYR')}
    try:
        p = subprocess.run([sys.executable, '-I', str(RUNNER), str(sf)], cwd=str(cwd), env=env,
                           stdout=subprocess.PIPE, stderr=subprocess.PIPE, text=True, timeout=timeout)
    except subprocess.TimeoutExpired:
        # the implementation did not return: an observation, judged by the monitors — not an infrastructure failure
        return {'timeout': True}
    lines = [ln for ln in p.stdout.splitlines() if ln.startswith('{')]
    if p.returncode != 0 or not lines:
        raise common.Infra(f'C19 runner failed (rc={p.returncode}): {p.stderr[-1500:]}')
    return json.loads(lines[-1])


class Canon:
    """concrete strings -> abstract: scratch root -> /R, built-in pipelines dir -> /B"""

    def __init__(self, root, builtin):
        self.root, self.builtin = str(root), str(builtin)

    def __call__(self, s):
        if s is None:
            return None
        return s.replace(self.builtin, '/B').replace(self.root, '/R')


def fs_of(root, canon, extra_builtin=True):
    files, dirs = [], ['/B']
    for dp, dn, fn in os.walk(root):
        dirs.append(canon(dp))
        for f in fn:
            if f.endswith('.yaml'):
                files.append(canon(os.path.join(dp, f)))
    files += [f'/B/{n}.yaml' for n in BUILTIN_NAMES]
    return sorted(files), sorted(dirs)


# ---------------------------------------------------------------------------------------------
# the property text restated (monitor side; does not use the model)
# ---------------------------------------------------------------------------------------------

def spec_search(name, parent, dirs_existing):
    """-> (candidate files in order, searched dirs or None for absolute names)"""
    if name.startswith('/'):
        return [name + '.yaml'], None
    searched = []
    if parent and parent in dirs_existing and parent != CWD:
        searched.append(parent)
    searched += [CWD, CWD + '/pipelines', '/B']
    return [f'{d}/{name}.yaml' for d in searched], searched


def spec_resolve(name, parent, files, dirs_existing):
    cands, searched = spec_search(name, parent, dirs_existing)
    for c in cands:
        if c in files:
            return {'ok': c}, searched
    return {'err': 'PipelineNotFoundError'}, searched


def judge_not_found(msg, name, searched):
    """the error must list the places searched"""
    if searched is None:
        return (name + '.yaml') in msg
    lines = msg.split('\n')
    at = 0
    for d in searched:        # the searched places, in search order, each on a line of its own
        if d not in lines[at:]:
            return False
        at = lines.index(d, at) + 1
    return True


def spec_child(pype, caller):
    """loader and parent a pype child gets. caller = {loader, parent, cascL, cascP}"""
    loader = pype['loader'] if 'loader' in pype else (caller['loader'] if caller['cascL'] else None)
    if 'parent' in pype:
        return loader, (pype['parent'] or None)
    rfp = bool(pype['resolveFromParent']) if 'resolveFromParent' in pype else caller['cascP']
    return loader, (caller['parent'] if rfp and loader == caller['loader'] else None)


def spec_chain(case, files, dirs_existing):
    """Expected trail / error / sys.path additions of a run scenario, from the property text."""
    trail, added = [], []
    caller = None
    for i, hop in enumerate(case['hops']):
        if caller is None:
            loader, parent = case.get('rootLoader'), None
        else:
            loader, parent = spec_child(hop['pype'], caller)
        eff = loader or FILE_LOADER
        if eff == FILE_LOADER:
            r, searched = spec_resolve(hop['name'], parent, files, dirs_existing)
            if 'err' in r:
                return {'trail': trail, 'err': 'PipelineNotFoundError', 'searched': searched, 'name': hop['name'], 'added': added}
            f = r['ok']
            d = f.rsplit('/', 1)[0]
            if d not in added:
                added.append(d)
            if d == '/B':
                break
            trail.append(f'{d[3:]}|{f[3:]}')
            caller = {'loader': FILE_LOADER, 'parent': d, 'cascL': True, 'cascP': True}
        else:
            trail.append(f'custom:{eff}:{hop["name"]}:{parent}')
            casc = eff != 'vloader_nc'
            caller = {'loader': eff, 'parent': parent, 'cascL': casc, 'cascP': casc}
    return {'trail': trail, 'err': None, 'added': added}


# ---------------------------------------------------------------------------------------------
# paths scenarios
# ---------------------------------------------------------------------------------------------

def path_cases():
    names = ['vp', 'sub/vp', '/R/e/vp', 'donothing', '/R/e/sub/vp']
    parents = [None, '', '/R/e', '/R/w', '/R/missing', '/R/w/pipelines', '/R/e/sub']
    out = []
    for name in names:
        for parent in parents:
            if name.startswith('/'):
                locs = [name + '.yaml', f'{CWD}/{stem_of(name)}.yaml', f'{CWD}/pipelines/{stem_of(name)}.yaml']
            else:
                locs = [f'{d}/{name}.yaml' for d in ([parent] if parent and parent not in (CWD, '/R/missing') else []) +
                        [CWD, CWD + '/pipelines']]
            for k in range(len(locs) + 1):
                for sub in itertools.combinations(locs, k):
                    for form in (('path', 'str') if parent else ('str',)):
                        out.append({'kind': 'paths', 'name': name, 'parent': parent, 'parent_form': form,
                                    'files': [s[3:] for s in sub]})
    return out


def run_path_chunk(chunk, repo):
    root = Path(tempfile.mkdtemp(prefix='c19p')).resolve()
    try:
        for d in ('w/pipelines', 'e/sub', 'e2', 'lib'):
            (root / d).mkdir(parents=True)
        sc = {'kind': 'paths', 'root': str(root),
              'cases': [{'files': c['files'], 'name': conc(root, c['name']), 'parent': conc(root, c['parent']),
                         'parent_form': c['parent_form']} for c in chunk]}
        out = run_subprocess(root, sc, repo)
        if out.get('timeout'):
            # some case of the chunk hangs: run them one by one, the hanging ones become observations
            probe = run_subprocess(root, dict(sc, cases=[]), repo)
            if probe.get('timeout'):
                raise common.Infra('C19 runner does not even start within the time limit')
            out = dict(probe, results=[])
            for one in sc['cases']:
                o1 = run_subprocess(root, dict(sc, cases=[one]), repo, timeout=30)
                out['results'].append({'err': 'timeout', 'msg': 'get_pipeline_path did not return within 30 s'}
                                      if o1.get('timeout') else o1['results'][0])
        canon = Canon(root, out['builtin'])
        base_dirs = ['/B'] + sorted({canon(dp) for dp, _, _ in os.walk(root)})
        res = []
        for c, r in zip(chunk, out['results']):
            files = sorted({'/R/' + f for f in c['files']} | {f'/B/{n}.yaml' for n in BUILTIN_NAMES})
            dirs = sorted(set(base_dirs) | {('/R/' + f).rsplit('/', 1)[0] for f in c['files']})
            impl = {'ok': canon(r['ok'])} if 'ok' in r else {'err': r['err'], 'msg': canon(r['msg'])}
            res.append((c, files, dirs, impl))
        if canon(out['config_cwd']) != CWD:
            raise common.Infra(f'runner cwd is {out["config_cwd"]}')
        return res, out['pypyr_file']
    finally:
        shutil.rmtree(root, ignore_errors=True)


def judge_path_case(env, res, c, files, dirs, impl):
    res.case(c)
    res.count('paths:' + ('abs' if c['name'].startswith('/') else 'nested' if '/' in c['name'] else
                           'builtin-name' if c['name'] in BUILTIN_NAMES else 'plain'))
    res.count('paths:' + ('found' if 'ok' in impl else 'not-found'))
    model = env.driver.ask('resolve.path', name=c['name'], parent=c['parent'], cwd=CWD, builtin='/B',
                           files=files, dirs=dirs)
    want, searched = spec_resolve(c['name'], c['parent'], files, dirs)
    sig = {'clause': 'resolve_first_existing', 'form': 'abs' if c['name'].startswith('/') else 'rel'}
    if 'ok' in want:
        if impl.get('ok') != want['ok']:
            res.violation(c, f'{c["name"]} (parent {c["parent"]}) must resolve to {want["ok"]}, got {impl}',
                          signature=sig, impl=impl)
    else:
        if impl.get('err') != 'PipelineNotFoundError':
            res.violation(c, f'{c["name"]} exists nowhere in the search order, yet got {impl}',
                          signature=dict(sig, clause='resolve_absolute_only' if searched is None else 'resolve_first_existing'),
                          impl=impl)
        elif not judge_not_found(impl['msg'], c['name'], searched):
            res.violation(c, f'not-found error does not list the searched places {searched}: {impl["msg"]!r}',
                          signature=dict(sig, clause='not_found_lists_searched'), impl=impl)
    m = {'ok': model['ok']} if 'ok' in model else {'err': 'PipelineNotFoundError', 'msg': model['err']}
    if m != impl:
        res.mismatch(c, m, impl)


# ---------------------------------------------------------------------------------------------
# run scenarios
# ---------------------------------------------------------------------------------------------

PYPE_OPTIONS = [
    {}, {'resolveFromParent': False}, {'resolveFromParent': True}, {'parent': '/R/e2'}, {'parent': None},
    {'loader': FILE_LOADER}, {'loader': None}, {'loader': 'vloader'}, {'loader': 'vloader_nc'},
    {'resolveFromParent': False, 'parent': '/R/e2'}, {'resolveFromParent': 0}, {'resolveFromParent': 'False'},
    {'loader': 'vloader', 'parent': '/R/e2'},
]
ROOTS = [('/R/e/vp0', 'e/vp0.yaml'), ('vp0', 'w/vp0.yaml'), ('vp0', 'w/pipelines/vp0.yaml'),
         ('sub/vp0', 'w/sub/vp0.yaml'), ('/R/w/vp0', 'w/vp0.yaml')]
CHILD_NAMES = ['vp1', 'sub/vp1', '/R/e2/vp1', 'donothing']


def child_locations(name, caller_dir, pype):
    """directories that could matter for a relative child name (a superset is fine)"""
    dirs = [caller_dir, 'w', 'w/pipelines', 'e2']
    out = []
    for d in dirs:
        if d not in out:
            out.append(d)
    return out


def depth0_cases():
    out = []
    for name in ['vp0', 'sub/vp0', '/R/e/vp0', 'donothing']:
        locs = ['e/vp0.yaml'] if name.startswith('/') else []
        locs += [f'w/{name if not name.startswith("/") else "vp0"}.yaml',
                 f'w/pipelines/{name if not name.startswith("/") else "vp0"}.yaml']
        for k in range(len(locs) + 1):
            for sub in itertools.combinations(locs, k):
                out.append({'kind': 'run', 'hops': [{'name': name, 'pype': {}}], 'files': list(sub), 'rootLoader': None})
    out.append({'kind': 'run', 'hops': [{'name': 'vp0', 'pype': {}}], 'files': [], 'rootLoader': 'vloader'})
    return out


def depth1_cases():
    out = []
    for (rname, rfile) in ROOTS:
        rdir = str(Path(rfile).parent)
        for cname in CHILD_NAMES:
            for opt in PYPE_OPTIONS:
                if cname.startswith('/'):
                    locs = ['e2/vp1.yaml', 'w/vp1.yaml']
                else:
                    locs = [f'{d}/{cname}.yaml' for d in child_locations(cname, rdir, opt)]
                for k in range(len(locs) + 1):
                    for sub in itertools.combinations(locs, k):
                        files = sorted(set([rfile] + list(sub)))
                        out.append({'kind': 'run', 'hops': [{'name': rname, 'pype': {}}, {'name': cname, 'pype': opt}],
                                    'files': files, 'rootLoader': None})
    return out


def random_depth2(rng):
    rname, rfile = rng.choice(ROOTS)
    hops = [{'name': rname, 'pype': {}}]
    files = {rfile}
    if rng.random() < 0.15:
        hops[0]['name'] = 'vp0'
        root_loader = rng.choice(['vloader', 'vloader_nc'])
        files = set()
    else:
        root_loader = None
    for i in (1, 2):
        nm = rng.choice([f'vp{i}', f'vp{i}', f'sub/vp{i}', f'/R/e2/vp{i}', 'donothing' if i == 2 else f'vp{i}'])
        opt = dict(rng.choice(PYPE_OPTIONS))
        hops.append({'name': nm, 'pype': opt})
        if nm.startswith('/'):
            pool = [f'e2/vp{i}.yaml', f'w/vp{i}.yaml']
        else:
            pool = [f'{d}/{nm}.yaml' for d in ['e', 'w', 'w/pipelines', 'w/sub', 'e2', 'e/sub', 'w/pipelines/sub', 'e2/sub']]
        for f in pool:
            if rng.random() < 0.4:
                files.add(f)
    return {'kind': 'run', 'hops': hops, 'files': sorted(files), 'rootLoader': root_loader}


def run_run_case(case, repo):
    root = Path(tempfile.mkdtemp(prefix='c19r')).resolve()
    try:
        build_run_tree(root, case)
        out = run_subprocess(root, {'kind': 'run', 'name': conc(root, case['hops'][0]['name']),
                                    'loader': case.get('rootLoader')}, repo)
        if out.get('timeout'):
            probe = run_subprocess(root, {'kind': 'paths', 'root': str(root), 'cases': []}, repo)
            if probe.get('timeout'):
                raise common.Infra('C19 runner does not even start within the time limit')
            out = dict(probe, trail=None, err='timeout', msg='the run did not return within 120 s', sys_path_added=[],
                       sys_path_dups=[])
        canon = Canon(root, out['builtin'])
        if canon(out['config_cwd']) != CWD:
            raise common.Infra(f'runner cwd is {out["config_cwd"]}')
        files, dirs = fs_of(root, canon)
        # the trail is kept by lib/vtrail.py inside the subprocess; the runner returns ctx['trail'] only on
        # success, so read both from the runner's output
        impl = {'trail': [canon(t) for t in out['trail']] if out.get('trail') is not None else None,
                'err': out['err'], 'msg': canon(out.get('msg')),
                'added': [canon(p) for p in out['sys_path_added']], 'dups': [canon(p) for p in out['sys_path_dups']]}
        return case, files, dirs, impl
    finally:
        shutil.rmtree(root, ignore_errors=True)


def judge_run_case(env, res, case, files, dirs, impl):
    res.case(case)
    res.count(f'run:depth{len(case["hops"]) - 1}')
    for h in case['hops'][1:]:
        for k in h['pype']:
            res.count('pype:' + k)
        if not h['pype']:
            res.count('pype:defaults')
    model = env.driver.ask('resolve.chain', cwd=CWD, builtin='/B', files=files, dirs=dirs,
                           rootLoader=case.get('rootLoader'), custom=[['vloader', True, True], ['vloader_nc', False, False]],
                           hops=case['hops'])
    mtrail = []
    for ld in model['loaded']:
        if 'file' in ld:
            f = ld['file']
            if not f.startswith('/B/'):
                mtrail.append(f'{f.rsplit("/", 1)[0][3:]}|{f[3:]}')
        else:
            l, n, p = ld['custom']
            mtrail.append(f'custom:{l}:{n}:{p}')
    m = {'trail': mtrail, 'err': 'PipelineNotFoundError' if model['err'] is not None else None, 'msg': model['err'],
         'added': model['sysPath']}
    i = {'trail': impl['trail'], 'err': impl['err'], 'msg': impl['msg'] if impl['err'] else None, 'added': impl['added']}
    # monitors, from the property text
    want = spec_chain(case, set(files), set(dirs))
    sig = {'clause': 'resolve_first_existing', 'depth': len(case['hops']) - 1}
    res.count('run:' + ('not-found' if want['err'] else 'found'))
    if impl['err'] and 'ModuleNotFound' in impl['err']:
        res.violation(case, f'a custom step module next to a loaded pipeline is not importable: {impl["msg"]}',
                      signature=dict(sig, clause='sys_path_has_pipeline_dir'), impl=impl)
    elif want['err']:
        if impl['err'] != 'PipelineNotFoundError':
            res.violation(case, f'{want["name"]} exists nowhere in its search order {want["searched"]}, yet: {impl}',
                          signature=sig, impl=impl)
        elif impl['trail'] != want['trail']:
            res.violation(case, f'pipelines that ran: {impl["trail"]}, by the resolution order: {want["trail"]}',
                          signature=dict(sig, clause='child_parent_default'), impl=impl)
        elif not judge_not_found(impl['msg'], want['name'], want['searched']):
            res.violation(case, f'not-found error does not list the searched places {want["searched"]}: {impl["msg"]!r}',
                          signature=dict(sig, clause='not_found_lists_searched'), impl=impl)
    else:
        if impl['err'] or impl['trail'] != want['trail']:
            res.violation(case, f'pipelines that ran: {impl["trail"]} (error {impl["err"]}: {impl["msg"]}), '
                                f'by the resolution order: {want["trail"]}',
                          signature=dict(sig, clause='child_parent_default' if len(case['hops']) > 1 else 'resolve_first_existing'),
                          impl=impl)
    if not impl['err'] or impl['err'] == 'PipelineNotFoundError':
        missing = [d for d in want['added'] if d not in impl['added']]
        if missing and not (impl['err'] and impl['trail'] != want['trail']):
            res.violation(case, f'directories of loaded pipeline files missing from sys.path: {missing}',
                          signature=dict(sig, clause='sys_path_has_pipeline_dir'), impl=impl)
    if impl['dups']:
        res.violation(case, f'sys.path holds {impl["dups"]} more than once', signature=dict(sig, clause='sys_path_once'), impl=impl)
    if m != i:
        res.mismatch(case, m, i)



# ---------------------------------------------------------------------------------------------
# seq scenarios: SEQUENCES of look-ups in one process, caches warm
# ---------------------------------------------------------------------------------------------

SEQ_DIRS = ['L', 'L/sub', 'w', 'w/sub', 'w/pipelines', 'w/pipelines/sub', 'lib']
SEQ_LEAVES = ['L/vx.yaml', 'L/sub/vx.yaml', 'w/vx.yaml', 'w/sub/vx.yaml', 'w/pipelines/vx.yaml', 'w/pipelines/sub/vx.yaml',
              'L/a+b.yaml', 'w/a+b.yaml']
SEQ_NAMES = ['vx', 'sub/vx', '/R/L/vx', '/R/L/sub/vx', 'a+b', '../vx', 'sub/../vx', '/R/L/sub/../vx', '/R/w/vx']
SEQ_PARENTS = [None, '/R/L', '/R/L/sub', '/R/w']


def norm_walk(path, dirs):
    """follow '..' like the OS: the directory being left must exist; -> normalised path or None"""
    acc = []
    for seg in path.strip('/').split('/'):
        if seg == '..':
            if ('/' + '/'.join(acc) if acc else '/') not in dirs and acc:
                return None
            acc = acc[:-1]
        else:
            acc.append(seg)
    return '/' + '/'.join(acc)


def seq_spec(name, parent, files, dirs):
    """The property text for one look-up: -> ({'ok': file} | {'err': …}, searched dirs | None)"""
    def is_file(p):
        q = norm_walk(p, dirs)
        return q if q is not None and q in files else None
    if name.startswith('/'):
        q = is_file(name + '.yaml')
        return ({'ok': q} if q else {'err': 'PipelineNotFoundError'}), None
    searched = []
    if parent and parent in dirs and parent != CWD:
        searched.append(parent)
    searched += [CWD, CWD + '/pipelines', '/B']
    for d in searched:
        q = is_file(f'{d}/{name}.yaml')
        if q:
            return {'ok': q}, searched
    return {'err': 'PipelineNotFoundError'}, searched


def seq_request(name, parent, via, obj=0, form='str'):
    return {'op': 'req', 'name': name, 'parent': parent, 'via': via, 'obj': obj, 'parent_form': form}


def seq_vias(parent, rng=None):
    v = ['new', 'obj'] + (['pype'] if parent and parent != CWD else []) + (['runner', 'obj.run'] if parent is None else [])
    return v


def joined(name, parent):
    """the first candidate of the look-up, normalised as a string (what a path-joined cache key would be)"""
    if name.startswith('/') or not parent:
        return os.path.normpath(name)
    return os.path.normpath(os.path.join(parent, name))


def seq_cases_directed(rng, quick):
    out = []
    reqs = [(n, p) for n in SEQ_NAMES for p in SEQ_PARENTS]
    # A. requests whose first candidates coincide under path joining but whose (parent, name) differ: every ordered
    #    pair (and the triples of the two largest groups), on layouts with and without the shared first candidate
    #    (only layouts on which the two requests resolve DIFFERENTLY in a cold process can tell anything)
    groups = {}
    for n, p in reqs:
        raw = n if n.startswith('/') or not p else os.path.join(p, n)
        for j in {joined(n, p), raw}:
            groups.setdefault(j, set()).add((n, p))
    dirs = set(['/B', '/R'] + ['/R/' + d for d in SEQ_DIRS])
    subsets = [list(sub) for k in range(6) for sub in itertools.combinations(SEQ_LEAVES[:6], k)]
    layouts = [[], ['w/vx.yaml'], ['w/vx.yaml', 'w/sub/vx.yaml'], ['w/sub/vx.yaml', 'w/pipelines/vx.yaml'],
               ['w/vx.yaml', 'w/sub/vx.yaml', 'w/pipelines/vx.yaml', 'w/pipelines/sub/vx.yaml'],
               ['L/vx.yaml', 'w/vx.yaml', 'w/sub/vx.yaml'], ['L/sub/vx.yaml', 'w/vx.yaml'], list(SEQ_LEAVES)]
    k = 0
    seen = set()
    for j, grp in sorted(groups.items()):
        grp = sorted(grp, key=str)
        for a in grp:
            for b in grp:
                if a == b or (a, b) in seen:
                    continue
                seen.add((a, b))
                tell = [lay for lay in subsets
                        if seq_spec(a[0], a[1], {'/R/' + f for f in lay}, dirs)[0] != seq_spec(b[0], b[1], {'/R/' + f for f in lay}, dirs)[0]]
                if quick and tell:
                    tell = [rng.choice(tell)]
                elif len(tell) > 6:
                    tell = rng.sample(tell, 6)
                for lay in tell:
                    k += 1
                    va, vb = seq_vias(a[1]), seq_vias(b[1])
                    ops = [{'op': 'fs', 'files': lay}, seq_request(a[0], a[1], va[k % len(va)], 0),
                           seq_request(b[0], b[1], vb[(k // 2) % len(vb)], 1), seq_request(a[0], a[1], 'new', 2)]
                    out.append({'kind': 'seq', 'tag': 'joined', 'noCache': False, 'ops': ops})
    # B. ONE Pipeline object run again and again: the parent of THIS call and the files of THIS moment decide
    for name in ('vx', 'sub/vx', '../vx'):
        for lay in layouts:
            for parents in (['/R/L', '/R/L/sub', None], ['/R/L/sub', '/R/L'], [None, '/R/L', '/R/w'], ['/R/L', None, '/R/L']):
                ops = [{'op': 'fs', 'files': lay}] + [seq_request(name, p, 'obj', 7, 'path' if i % 2 else 'str')
                                                     for i, p in enumerate(parents)]
                out.append({'kind': 'seq', 'tag': 'reuse', 'noCache': False, 'ops': ops})
    for via in ('obj', 'obj.run', 'new', 'runner'):
        for first, later in ((['w/pipelines/vx.yaml'], ['w/pipelines/vx.yaml', 'w/vx.yaml']),
                             (['w/vx.yaml', 'w/pipelines/vx.yaml'], ['w/pipelines/vx.yaml']),
                             ([], ['w/vx.yaml']), (['w/vx.yaml'], [])):
            for mid in ([{'op': 'clear'}], [{'op': 'noCache', 'b': True}], []):
                r = seq_request('vx', None, via, 3)
                ops = [{'op': 'fs', 'files': first}, r, {'op': 'fs', 'files': later}] + mid + [r, r]
                out.append({'kind': 'seq', 'tag': 'fs-change', 'noCache': False, 'ops': ops})
        for mid in ([{'op': 'clear'}], []):
            r1, r2 = seq_request('vx', '/R/L', via if via in ('obj', 'new') else 'pype', 4), seq_request('vx', '/R/L/sub', 'obj', 4)
            ops = [{'op': 'fs', 'files': ['w/vx.yaml']}, r1, r2, {'op': 'fs', 'files': ['w/vx.yaml', 'L/vx.yaml']}] + mid + [r1, r2, r1]
            out.append({'kind': 'seq', 'tag': 'fs-change', 'noCache': False, 'ops': ops})
    # C. a directory that is probed (as py_dir) before it exists and later holds a pipeline with its step module
    for via in ('new', 'obj', 'runner'):
        for probe, form in ((True, 'path'), (True, 'str'), (False, 'path')):
            ops = [{'op': 'fs', 'files': ['w/vx.yaml']},
                   dict(seq_request('donothing', None, via, 5), py_dir='/R/late' if probe else '/R/L', py_dir_form=form),
                   {'op': 'fs', 'files': ['w/vx.yaml', 'late/vx.yaml']},
                   seq_request('/R/late/vx', None, 'new', 6), seq_request('vx', '/R/late', 'new', 6)]
            out.append({'kind': 'seq', 'tag': 'late-dir', 'noCache': False, 'ops': ops})
    return out


def seq_cases_pairs(rng, n_layouts, sample):
    """all ordered pairs (then the first again) over name forms x parents on a few layouts"""
    reqs = [(n, p) for n in SEQ_NAMES for p in SEQ_PARENTS]
    out = []
    lays = [['w/vx.yaml', 'w/sub/vx.yaml', 'w/a+b.yaml'], ['L/vx.yaml', 'w/pipelines/vx.yaml', 'w/pipelines/sub/vx.yaml', 'L/a+b.yaml'],
            ['L/sub/vx.yaml', 'w/sub/vx.yaml', 'w/pipelines/vx.yaml']][:n_layouts]
    k = 0
    for lay in lays:
        for a in reqs:
            for b in reqs:
                if a == b:
                    continue
                k += 1
                va, vb = seq_vias(a[1]), seq_vias(b[1])
                out.append({'kind': 'seq', 'tag': 'pairs', 'noCache': False,
                            'ops': [{'op': 'fs', 'files': lay}, seq_request(a[0], a[1], va[k % len(va)], 0),
                                    seq_request(b[0], b[1], vb[(k // 3) % len(vb)], 0), seq_request(a[0], a[1], 'obj', 0)]})
    if sample is not None and len(out) > sample:
        out = rng.sample(out, sample)
    return out


def seq_case_random(rng):
    ops = [{'op': 'fs', 'files': [f for f in SEQ_LEAVES if rng.random() < 0.45]}]
    for _ in range(rng.randint(3, 9)):
        x = rng.random()
        if x < 0.65:
            n, p = rng.choice(SEQ_NAMES), rng.choice(SEQ_PARENTS)
            ops.append(seq_request(n, p, rng.choice(seq_vias(p)), rng.randrange(2), rng.choice(['str', 'path'])))
        elif x < 0.8:
            ops.append({'op': 'fs', 'files': [f for f in SEQ_LEAVES if rng.random() < 0.45]})
        elif x < 0.93:
            ops.append({'op': 'clear'})
        else:
            ops.append({'op': 'noCache', 'b': rng.random() < 0.6})
    return {'kind': 'seq', 'tag': 'random', 'noCache': rng.random() < 0.1, 'ops': ops}


def run_seq_case(case, repo):
    root = Path(tempfile.mkdtemp(prefix='c19s')).resolve()
    try:
        for d in SEQ_DIRS:
            (root / d).mkdir(parents=True, exist_ok=True)
        lib = root / 'lib'
        (lib / 'vtrail.py').write_text('T = []\n')
        ops = []
        nwrap = 0
        for op in case['ops']:
            op = dict(op)
            if op['op'] == 'req':
                op['name'] = conc(root, op['name'])
                op['parent'] = conc(root, op['parent'])
                if op.get('py_dir'):
                    op['py_dir'] = conc(root, op['py_dir'])
                if op['via'] == 'pype':
                    # a real calling pipeline in the parent directory: its pype step gets that directory as parent
                    nwrap += 1
                    rel = f'{case["ops"][len(ops)]["parent"][3:]}/vwrap{nwrap}.yaml'
                    (root / rel).write_text("steps:\n  - name: pypyr.steps.pype\n    in:\n      pype:\n"
                                            f"        name: {yaml_scalar(op['name'])}\n")
                    op['wrapper'] = rel
            ops.append(op)
        out = run_subprocess(root, {'kind': 'seq', 'root': str(root), 'noCache': bool(case.get('noCache')), 'ops': ops}, repo)
        if out.get('timeout'):
            probe = run_subprocess(root, {'kind': 'paths', 'root': str(root), 'cases': []}, repo)
            if probe.get('timeout'):
                raise common.Infra('C19 runner does not even start within the time limit')
            out = dict(probe, results=[{'ran': [], 'err': 'timeout', 'msg': 'the sequence did not return within 120 s'}])
        canon = Canon(root, out['builtin'])
        if canon(out['config_cwd']) != CWD:
            raise common.Infra(f'runner cwd is {out["config_cwd"]}')
        dirs = sorted({'/B'} | {'/R/' + d for d in SEQ_DIRS} | {'/R'})
        impl = [{'ran': r['ran'], 'err': r['err'], 'msg': canon(r['msg']),
                 'added': [canon(p) for p in r.get('sys_path_added', [])], 'dups': [canon(p) for p in r.get('sys_path_dups', [])]}
                for r in out['results']]
        return case, dirs, impl
    finally:
        shutil.rmtree(root, ignore_errors=True)


def judge_seq_case(env, res, case, dirs, impl):
    res.case(case)
    res.count('seq:' + case.get('tag', '?'))
    builtin_files = [f'/B/{n}.yaml' for n in BUILTIN_NAMES]
    # the model: Resolve.runSess through the warm pipeline cache
    mops, files = [], None
    mdirs = list(dirs)
    for op in case['ops']:
        if op['op'] == 'fs':
            fl = sorted(['/R/' + f for f in op['files']] + builtin_files)
            mdirs = sorted(set(mdirs) | {f.rsplit('/', 1)[0] for f in fl})
            if files is None:
                files, dirs0 = fl, list(mdirs)
            else:
                mops.append(['fs', {'files': fl, 'dirs': mdirs}])
        elif op['op'] == 'req':
            if op.get('py_dir'):
                mops.append(['pyDir', op['py_dir']])
            mops.append(['req', op['obj'], op['name'], op['parent']])
        elif op['op'] == 'clear':
            mops.append(['clear'])
        else:
            mops.append(['noCache', bool(op['b'])])
    model = env.driver.ask('resolve.session', cwd=CWD, builtin='/B', files=files, dirs=dirs0,
                           noCache=bool(case.get('noCache')), ops=mops)['results']
    # the monitor: the property text, look-up by look-up
    cur, dirty, nc, k = None, False, bool(case.get('noCache')), 0
    probed_missing = set()     # directories handed to add_sys_path (as py_dir) while they did not exist
    for op in case['ops']:
        if op['op'] == 'fs':
            dirty = cur is not None
            cur = set('/R/' + f for f in op['files']) | set(builtin_files)
            dirs = sorted(set(dirs) | {f.rsplit('/', 1)[0] for f in cur})
        elif op['op'] == 'clear':
            dirty = False
        elif op['op'] == 'noCache':
            nc = bool(op['b'])
        else:
            if k >= len(impl):
                res.violation(case, f'look-up {k} never happened: the sequence stopped after {impl[-1] if impl else None}',
                              signature={'clause': 'resolve_first_existing', 'seq': case.get('tag')}, impl=impl)
                break
            obs, m = impl[k], model[k]
            k += 1
            name, parent = op['name'], op['parent']
            res.count('seq:via:' + op['via'])
            res.count('seq:name:' + ('abs' if name.startswith('/') else 'dotdot' if '..' in name else 'nested' if '/' in name else 'plain'))
            want, searched = seq_spec(name, parent, cur, set(dirs))
            clean = (not dirty) or nc
            res.count('seq:clean' if clean else 'seq:stale')
            if clean != m['clean']:
                raise common.Infra(f'resolve.session and the monitor disagree on clean at look-up {k - 1}')
            form = 'abs' if name.startswith('/') else 'rel'
            sig = {'clause': 'resolve_first_existing', 'form': form, 'seq': case.get('tag')}
            got = None
            if op.get('py_dir') and op['py_dir'] not in dirs:
                probed_missing.add(op['py_dir'])
            if obs['err'] and 'ModuleNotFound' in obs['err']:
                d = want.get('ok', '?').rsplit('/', 1)[0]
                sg = {'clause': 'sys_path_has_pipeline_dir', 'seq': case.get('tag')}
                if d in probed_missing:
                    sg.update(site='add_sys_path', cause='known_dirs_remembers_missing_dir')
                res.violation(case, f'look-up {k - 1}: {name} resolved to {want.get("ok")} but the step module next to it is not '
                                    f'importable ({obs["msg"].splitlines()[0]})' +
                                    (f'; {d} was handed to add_sys_path as py_dir before it existed' if d in probed_missing else ''),
                              signature=sg, impl=impl)
                continue
            if obs['err'] is None and not obs['ran'] and want.get('ok', '').startswith('/B/'):
                got = {'ok': want['ok']}          # pypyr's own built-in pipeline ran (it leaves no trail)
            elif obs['err'] is None and len(obs['ran']) == 1:
                got = {'ok': '/R/' + obs['ran'][0]}
            elif obs['err'] == 'PipelineNotFoundError' and not obs['ran']:
                got = {'err': 'PipelineNotFoundError', 'msg': obs['msg']}
            else:
                res.violation(case, f'look-up {k - 1} of {name} (parent {parent}, via {op["via"]}) ended unexpectedly: {obs}',
                              signature=dict(sig, clause='resolve_first_existing'), impl=impl)
                continue
            if clean:
                if 'ok' in want:
                    if got.get('ok') != want['ok']:
                        res.violation(case, f'look-up {k - 1}: {name} (parent {parent}, via {op["via"]}) must resolve to {want["ok"]} — '
                                            f'as it does in a cold process — but after the earlier look-ups it gave {got}',
                                      signature=sig, impl=impl)
                else:
                    if 'ok' in got:
                        res.violation(case, f'look-up {k - 1}: {name} (parent {parent}, via {op["via"]}) exists nowhere in its search '
                                            f'order {searched or "(absolute: that path only)"}, yet after the earlier look-ups {got["ok"]} ran',
                                      signature=dict(sig, clause='resolve_absolute_only' if searched is None else 'resolve_first_existing'),
                                      impl=impl)
                    elif not judge_not_found(got['msg'], name, searched):
                        res.violation(case, f'look-up {k - 1}: not-found error does not list the searched places {searched}: {got["msg"]!r}',
                                      signature=dict(sig, clause='not_found_lists_searched'), impl=impl)
            if obs.get('dups'):
                res.violation(case, f'look-up {k - 1}: sys.path holds {obs["dups"]} more than once',
                              signature=dict(sig, clause='sys_path_once'), impl=impl)
            mm = {'ok': m['ok']} if 'ok' in m else {'err': 'PipelineNotFoundError', 'msg': m['err']}
            # sys.path: the pype wrappers' directories are loads the model does not see
            wrap_dirs = {'/R/' + o2['parent'][3:] for o2 in case['ops'] if o2['op'] == 'req' and o2['via'] == 'pype'}
            ia = [p for p in obs.get('added', []) if p not in wrap_dirs or p in m['sysPath']]
            ma = [p for p in m['sysPath'] if p != '/B' or p in ia]
            if mm != got or (clean and sorted(ia) != sorted(ma)):
                res.mismatch(case, {'lookup': k - 1, **mm, 'sysPath': ma}, {'lookup': k - 1, **got, 'sysPath': ia})
                break

# ---------------------------------------------------------------------------------------------
# entry points
# ---------------------------------------------------------------------------------------------

def run(env, res):
    repo = common.REPO
    res.rule = ('paths: every subset of the candidate locations (parent dir, cwd, cwd/pipelines; built-in via the name '
                'donothing) x 5 name forms x 7 parents x Path/str, through get_pipeline_path; run: all depth-0 layouts, '
                'depth-1 = 5 root placements x 4 child name forms x 13 pype option sets x every subset of the child\'s '
                'candidate locations (thorough: all; quick: seeded slice), depth-2 random chains incl. custom loaders. '
                'seq: SEQUENCES of 2-10 look-ups in ONE process with warm caches (name forms plain, dir/name, absolute, '
                'with +, with ..; parents none, dir, dir/sub, cwd; through new and re-used Pipeline objects, Pipeline.run, '
                'pipelinerunner.run and a real pype step; with file-system changes, clear_all and no_cache in between): all ordered '
                'pairs of requests whose first candidates coincide under path joining, one object run with changing parents, '
                'all ordered pairs of requests on 3 layouts (thorough: all; quick: slice), random; each look-up compared with '
                'its cold-process result. every case in a fresh subprocess with its own cwd. non-trivial = distinct (hops, options, layout)')
    workers = min(14, os.cpu_count() or 2)
    pcs = path_cases()
    chunks = [pcs[i::workers] for i in range(workers)]
    runs = depth0_cases()
    d1 = depth1_cases()
    res.extra['depth1_layouts_total'] = len(d1)
    if env.quick:   # all layouts of the default case (no steering keys) + a seeded slice of the rest
        d1 = [c for c in d1 if not c['hops'][1]['pype']] + env.rng.sample([c for c in d1 if c['hops'][1]['pype']], 350)
    runs += d1
    runs += [random_depth2(env.rng) for _ in range(env.n(250, 2500))]
    seqs = seq_cases_directed(env.rng, env.quick)
    seqs += seq_cases_pairs(env.rng, env.n(3, 2), env.n(120, None))
    seqs += [seq_case_random(env.rng) for _ in range(env.n(150, 1000))]
    res.extra['sequences'] = len(seqs)
    with ThreadPoolExecutor(max_workers=workers) as pool:
        pfut = [pool.submit(run_path_chunk, ch, repo) for ch in chunks if ch]
        rfut = [pool.submit(run_run_case, c, repo) for c in runs]
        sfut = [pool.submit(run_seq_case, c, repo) for c in seqs]
        for fu in pfut:
            results, pypyr_file = fu.result()
            if not str(pypyr_file).startswith(str(repo)):
                raise common.Infra(f'runner imported pypyr from {pypyr_file}, not from {repo}')
            for c, files, dirs, impl in results:
                judge_path_case(env, res, c, files, dirs, impl)
        for fu in rfut:
            judge_run_case(env, res, *fu.result())
        for fu in sfut:
            judge_seq_case(env, res, *fu.result())


def replay(env, res, payload):
    case = payload.get('case') or (payload.get('first_diverging_case') or {}).get('case')
    if not case:
        return run(env, res)
    if case.get('kind') == 'paths':
        results, _ = run_path_chunk([case], common.REPO)
        for c, files, dirs, impl in results:
            judge_path_case(env, res, c, files, dirs, impl)
            res.extra['replayed'] = impl
    elif case.get('kind') == 'seq':
        c, dirs, impl = run_seq_case(case, common.REPO)
        judge_seq_case(env, res, c, dirs, impl)
        res.extra['replayed'] = impl
    else:
        c, files, dirs, impl = run_run_case(case, common.REPO)
        judge_run_case(env, res, c, files, dirs, impl)
        res.extra['replayed'] = impl
