"""C19 — pipeline and custom-module resolution order.

Correspondence: real directory layouts on disk, every run in a FRESH subprocess whose working
directory is the scenario's cwd (pypyr fixes config.cwd at import). Two kinds of scenario:

* paths — `pypyr.loaders.file.get_pipeline_path(name, parent)` for every subset of the candidate
  locations holding a file of that name x name form (plain, dir/name, absolute, a built-in's name)
  x parent (none, '', a directory, the cwd itself, a missing directory, cwd/pipelines; Path or str);
* run — `pipelinerunner.run` of a root pipeline that pypes a child that pypes a grandchild, with
  and without loader / resolveFromParent / parent overrides and custom loaders. Every candidate
  file starts with a custom step module that lives NEXT TO it and records which file ran, so the
  trail shows both which file was chosen and that its sibling module was importable.

Both sides are compared on: the chosen file / the trail, the error text (searched places),
the directories appended to sys.path. Independent monitors restate the property text in Python.
"""
from __future__ import annotations

import itertools
import json
import os
import shutil
import subprocess
import sys
import tempfile
from concurrent.futures import ThreadPoolExecutor
from pathlib import Path

from .. import common

LEAN_MODULES = ['Props.C19']
TRUSTED = ['harness/props/c19.py (layout builder, path canonicaliser R/B, monitors)',
           'harness/impl_c19_runner.py (subprocess runner)', 'pathlib / os file-system semantics']
ASSUMPTIONS = [
    'directories are absolute, normalised and symlink-free (Path.resolve is the identity on them); names have no ./.. segments',
    'the built-in location can only hold the names pypyr ships (donothing, echo, …): /repo is read-only, so '
    '"built-in exists" cases use the name donothing and nested names never exist there',
    'only the truthiness of resolveFromParent is used (a string "False" is truthy, as in get_arguments)',
    'sys.path is not edited by anyone else between loads',
]

RUNNER = Path(__file__).resolve().parent.parent / 'impl_c19_runner.py'
FILE_LOADER = 'pypyr.loaders.file'
CWD = '/R/w'
BUILTIN_NAMES = ['donothing']


# ---------------------------------------------------------------------------------------------
# scratch trees
# ---------------------------------------------------------------------------------------------

def conc(root, s):
    """abstract '/R/…' -> concrete path string"""
    if isinstance(s, str) and (s == '/R' or s.startswith('/R/')):
        return str(root) + s[2:]
    return s


def yaml_scalar(v):
    return json.dumps(v)


def pype_yaml(root, hop, indent):
    lines = [f'{indent}name: {yaml_scalar(conc(root, hop["name"]))}']
    for k, v in hop['pype'].items():
        lines.append(f'{indent}{k}: {yaml_scalar(conc(root, v))}')
    return '\n'.join(lines)


def stem_of(name):
    return name.rsplit('/', 1)[-1]


def build_run_tree(root, case):
    """Write the layout of a run scenario under `root`."""
    hops = case['hops']
    lib = root / 'lib'
    lib.mkdir()
    (lib / 'vtrail.py').write_text('T = []\n')
    (lib / 'vcustomstep.py').write_text(
        "import vtrail\n\ndef run_step(context):\n    vtrail.T.append(context['vfile'])\n")
    table = {}
    for i, h in enumerate(hops[:-1]):
        nxt = hops[i + 1]
        table[conc(root, h['name'])] = {'name': conc(root, nxt['name']),
                                        **{k: conc(root, v) for k, v in nxt['pype'].items()}}
    (lib / 'vchain.json').write_text(json.dumps(table))
    for lname, nc in (('vloader', False), ('vloader_nc', True)):
        (lib / f'{lname}.py').write_text(f'''import json, pathlib
from pypyr.pipedef import PipelineDefinition, PipelineInfo
TABLE = json.loads((pathlib.Path(__file__).parent / 'vchain.json').read_text())

def get_pipeline_definition(pipeline_name, parent):
    steps = [{{'name': 'vcustomstep', 'in': {{'vfile': f'custom:{lname}:{{pipeline_name}}:{{parent}}'}}}}]
    nxt = TABLE.get(pipeline_name)
    if nxt:
        steps.append({{'name': 'pypyr.steps.pype', 'in': {{'pype': nxt}}}})
    pipe = {{'steps': steps}}
    if {nc!r}:
        return PipelineDefinition(pipe, PipelineInfo(pipeline_name, '{lname}', parent,
                                                     is_parent_cascading=False, is_loader_cascading=False))
    return pipe
''')
    for d in ('w', 'w/pipelines', 'e', 'e2'):
        (root / d).mkdir(parents=True, exist_ok=True)
    for rel in case['files']:
        f = root / rel
        f.parent.mkdir(parents=True, exist_ok=True)
        dirrel = str(Path(rel).parent)
        dirid = dirrel.replace('/', '_')
        mod = f.parent / f'vmod_{dirid}.py'
        if not mod.exists():
            mod.write_text(f"import vtrail\n\ndef run_step(context):\n    vtrail.T.append({dirrel!r} + '|' + context['vfile'])\n")
        stem = f.stem
        idx = next((i for i, h in enumerate(hops) if stem_of(h['name']) == stem), None)
        body = f"steps:\n  - name: vmod_{dirid}\n    in:\n      vfile: {yaml_scalar(rel)}\n"
        if idx is not None and idx + 1 < len(hops):
            body += "  - name: pypyr.steps.pype\n    in:\n      pype:\n" + pype_yaml(root, hops[idx + 1], '        ') + '\n'
        f.write_text(body)


def run_subprocess(root, scenario, repo):
    scenario = dict(scenario, repo=str(repo), lib=str(root / 'lib'))
    sf = root / 'scenario.json'
    sf.write_text(json.dumps(scenario))
    cwd = root / 'w'
    cwd.mkdir(exist_ok=True)
    env = {k: v for k, v in os.environ.items() if not k.startswith('PYTHON') and not k.startswith('PYPYR')}
    try:
        p = subprocess.run([sys.executable, '-I', str(RUNNER), str(sf)], cwd=str(cwd), env=env,
                           stdout=subprocess.PIPE, stderr=subprocess.PIPE, text=True, timeout=120)
    except subprocess.TimeoutExpired:
        raise common.Infra('C19 runner subprocess timed out')
    lines = [ln for ln in p.stdout.splitlines() if ln.startswith('{')]
    if p.returncode != 0 or not lines:
        raise common.Infra(f'C19 runner failed (rc={p.returncode}): {p.stderr[-1500:]}')
    return json.loads(lines[-1])


class Canon:
    """concrete strings -> abstract: scratch root -> /R, built-in pipelines dir -> /B"""

    def __init__(self, root, builtin):
        self.root, self.builtin = str(root), str(builtin)

    def __call__(self, s):
        if s is None:
            return None
        return s.replace(self.builtin, '/B').replace(self.root, '/R')


def fs_of(root, canon, extra_builtin=True):
    files, dirs = [], ['/B']
    for dp, dn, fn in os.walk(root):
        dirs.append(canon(dp))
        for f in fn:
            if f.endswith('.yaml'):
                files.append(canon(os.path.join(dp, f)))
    files += [f'/B/{n}.yaml' for n in BUILTIN_NAMES]
    return sorted(files), sorted(dirs)


# ---------------------------------------------------------------------------------------------
# the property text restated (monitor side; does not use the model)
# ---------------------------------------------------------------------------------------------

def spec_search(name, parent, dirs_existing):
    """-> (candidate files in order, searched dirs or None for absolute names)"""
    if name.startswith('/'):
        return [name + '.yaml'], None
    searched = []
    if parent and parent in dirs_existing and parent != CWD:
        searched.append(parent)
    searched += [CWD, CWD + '/pipelines', '/B']
    return [f'{d}/{name}.yaml' for d in searched], searched


def spec_resolve(name, parent, files, dirs_existing):
    cands, searched = spec_search(name, parent, dirs_existing)
    for c in cands:
        if c in files:
            return {'ok': c}, searched
    return {'err': 'PipelineNotFoundError'}, searched


def judge_not_found(msg, name, searched):
    """the error must list the places searched"""
    if searched is None:
        return (name + '.yaml') in msg
    lines = msg.split('\n')
    at = 0
    for d in searched:        # the searched places, in search order, each on a line of its own
        if d not in lines[at:]:
            return False
        at = lines.index(d, at) + 1
    return True


def spec_child(pype, caller):
    """loader and parent a pype child gets. caller = {loader, parent, cascL, cascP}"""
    loader = pype['loader'] if 'loader' in pype else (caller['loader'] if caller['cascL'] else None)
    if 'parent' in pype:
        return loader, (pype['parent'] or None)
    rfp = bool(pype['resolveFromParent']) if 'resolveFromParent' in pype else caller['cascP']
    return loader, (caller['parent'] if rfp and loader == caller['loader'] else None)


def spec_chain(case, files, dirs_existing):
    """Expected trail / error / sys.path additions of a run scenario, from the property text."""
    trail, added = [], []
    caller = None
    for i, hop in enumerate(case['hops']):
        if caller is None:
            loader, parent = case.get('rootLoader'), None
        else:
            loader, parent = spec_child(hop['pype'], caller)
        eff = loader or FILE_LOADER
        if eff == FILE_LOADER:
            r, searched = spec_resolve(hop['name'], parent, files, dirs_existing)
            if 'err' in r:
                return {'trail': trail, 'err': 'PipelineNotFoundError', 'searched': searched, 'name': hop['name'], 'added': added}
            f = r['ok']
            d = f.rsplit('/', 1)[0]
            if d not in added:
                added.append(d)
            if d == '/B':
                break
            trail.append(f'{d[3:]}|{f[3:]}')
            caller = {'loader': FILE_LOADER, 'parent': d, 'cascL': True, 'cascP': True}
        else:
            trail.append(f'custom:{eff}:{hop["name"]}:{parent}')
            casc = eff != 'vloader_nc'
            caller = {'loader': eff, 'parent': parent, 'cascL': casc, 'cascP': casc}
    return {'trail': trail, 'err': None, 'added': added}


# ---------------------------------------------------------------------------------------------
# paths scenarios
# ---------------------------------------------------------------------------------------------

def path_cases():
    names = ['vp', 'sub/vp', '/R/e/vp', 'donothing', '/R/e/sub/vp']
    parents = [None, '', '/R/e', '/R/w', '/R/missing', '/R/w/pipelines', '/R/e/sub']
    out = []
    for name in names:
        for parent in parents:
            if name.startswith('/'):
                locs = [name + '.yaml', f'{CWD}/{stem_of(name)}.yaml', f'{CWD}/pipelines/{stem_of(name)}.yaml']
            else:
                locs = [f'{d}/{name}.yaml' for d in ([parent] if parent and parent not in (CWD, '/R/missing') else []) +
                        [CWD, CWD + '/pipelines']]
            for k in range(len(locs) + 1):
                for sub in itertools.combinations(locs, k):
                    for form in (('path', 'str') if parent else ('str',)):
                        out.append({'kind': 'paths', 'name': name, 'parent': parent, 'parent_form': form,
                                    'files': [s[3:] for s in sub]})
    return out


def run_path_chunk(chunk, repo):
    root = Path(tempfile.mkdtemp(prefix='c19p')).resolve()
    try:
        for d in ('w/pipelines', 'e/sub', 'e2', 'lib'):
            (root / d).mkdir(parents=True)
        sc = {'kind': 'paths', 'root': str(root),
              'cases': [{'files': c['files'], 'name': conc(root, c['name']), 'parent': conc(root, c['parent']),
                         'parent_form': c['parent_form']} for c in chunk]}
        out = run_subprocess(root, sc, repo)
        canon = Canon(root, out['builtin'])
        base_dirs = ['/B'] + sorted({canon(dp) for dp, _, _ in os.walk(root)})
        res = []
        for c, r in zip(chunk, out['results']):
            files = sorted({'/R/' + f for f in c['files']} | {f'/B/{n}.yaml' for n in BUILTIN_NAMES})
            dirs = sorted(set(base_dirs) | {('/R/' + f).rsplit('/', 1)[0] for f in c['files']})
            impl = {'ok': canon(r['ok'])} if 'ok' in r else {'err': r['err'], 'msg': canon(r['msg'])}
            res.append((c, files, dirs, impl))
        if canon(out['config_cwd']) != CWD:
            raise common.Infra(f'runner cwd is {out["config_cwd"]}')
        return res, out['pypyr_file']
    finally:
        shutil.rmtree(root, ignore_errors=True)


def judge_path_case(env, res, c, files, dirs, impl):
    res.case(c)
    res.count('paths:' + ('abs' if c['name'].startswith('/') else 'nested' if '/' in c['name'] else
                           'builtin-name' if c['name'] in BUILTIN_NAMES else 'plain'))
    res.count('paths:' + ('found' if 'ok' in impl else 'not-found'))
    model = env.driver.ask('resolve.path', name=c['name'], parent=c['parent'], cwd=CWD, builtin='/B',
                           files=files, dirs=dirs)
    want, searched = spec_resolve(c['name'], c['parent'], files, dirs)
    sig = {'clause': 'resolve_first_existing', 'form': 'abs' if c['name'].startswith('/') else 'rel'}
    if 'ok' in want:
        if impl.get('ok') != want['ok']:
            res.violation(c, f'{c["name"]} (parent {c["parent"]}) must resolve to {want["ok"]}, got {impl}',
                          signature=sig, impl=impl)
    else:
        if impl.get('err') != 'PipelineNotFoundError':
            res.violation(c, f'{c["name"]} exists nowhere in the search order, yet got {impl}',
                          signature=dict(sig, clause='resolve_absolute_only' if searched is None else 'resolve_first_existing'),
                          impl=impl)
        elif not judge_not_found(impl['msg'], c['name'], searched):
            res.violation(c, f'not-found error does not list the searched places {searched}: {impl["msg"]!r}',
                          signature=dict(sig, clause='not_found_lists_searched'), impl=impl)
    m = {'ok': model['ok']} if 'ok' in model else {'err': 'PipelineNotFoundError', 'msg': model['err']}
    if m != impl:
        res.mismatch(c, m, impl)


# ---------------------------------------------------------------------------------------------
# run scenarios
# ---------------------------------------------------------------------------------------------

PYPE_OPTIONS = [
    {}, {'resolveFromParent': False}, {'resolveFromParent': True}, {'parent': '/R/e2'}, {'parent': None},
    {'loader': FILE_LOADER}, {'loader': None}, {'loader': 'vloader'}, {'loader': 'vloader_nc'},
    {'resolveFromParent': False, 'parent': '/R/e2'}, {'resolveFromParent': 0}, {'resolveFromParent': 'False'},
    {'loader': 'vloader', 'parent': '/R/e2'},
]
ROOTS = [('/R/e/vp0', 'e/vp0.yaml'), ('vp0', 'w/vp0.yaml'), ('vp0', 'w/pipelines/vp0.yaml'),
         ('sub/vp0', 'w/sub/vp0.yaml'), ('/R/w/vp0', 'w/vp0.yaml')]
CHILD_NAMES = ['vp1', 'sub/vp1', '/R/e2/vp1', 'donothing']


def child_locations(name, caller_dir, pype):
    """directories that could matter for a relative child name (a superset is fine)"""
    dirs = [caller_dir, 'w', 'w/pipelines', 'e2']
    out = []
    for d in dirs:
        if d not in out:
            out.append(d)
    return out


def depth0_cases():
    out = []
    for name in ['vp0', 'sub/vp0', '/R/e/vp0', 'donothing']:
        locs = ['e/vp0.yaml'] if name.startswith('/') else []
        locs += [f'w/{name if not name.startswith("/") else "vp0"}.yaml',
                 f'w/pipelines/{name if not name.startswith("/") else "vp0"}.yaml']
        for k in range(len(locs) + 1):
            for sub in itertools.combinations(locs, k):
                out.append({'kind': 'run', 'hops': [{'name': name, 'pype': {}}], 'files': list(sub), 'rootLoader': None})
    out.append({'kind': 'run', 'hops': [{'name': 'vp0', 'pype': {}}], 'files': [], 'rootLoader': 'vloader'})
    return out


def depth1_cases():
    out = []
    for (rname, rfile) in ROOTS:
        rdir = str(Path(rfile).parent)
        for cname in CHILD_NAMES:
            for opt in PYPE_OPTIONS:
                if cname.startswith('/'):
                    locs = ['e2/vp1.yaml', 'w/vp1.yaml']
                else:
                    locs = [f'{d}/{cname}.yaml' for d in child_locations(cname, rdir, opt)]
                for k in range(len(locs) + 1):
                    for sub in itertools.combinations(locs, k):
                        files = sorted(set([rfile] + list(sub)))
                        out.append({'kind': 'run', 'hops': [{'name': rname, 'pype': {}}, {'name': cname, 'pype': opt}],
                                    'files': files, 'rootLoader': None})
    return out


def random_depth2(rng):
    rname, rfile = rng.choice(ROOTS)
    hops = [{'name': rname, 'pype': {}}]
    files = {rfile}
    if rng.random() < 0.15:
        hops[0]['name'] = 'vp0'
        root_loader = rng.choice(['vloader', 'vloader_nc'])
        files = set()
    else:
        root_loader = None
    for i in (1, 2):
        nm = rng.choice([f'vp{i}', f'vp{i}', f'sub/vp{i}', f'/R/e2/vp{i}', 'donothing' if i == 2 else f'vp{i}'])
        opt = dict(rng.choice(PYPE_OPTIONS))
        hops.append({'name': nm, 'pype': opt})
        if nm.startswith('/'):
            pool = [f'e2/vp{i}.yaml', f'w/vp{i}.yaml']
        else:
            pool = [f'{d}/{nm}.yaml' for d in ['e', 'w', 'w/pipelines', 'w/sub', 'e2', 'e/sub', 'w/pipelines/sub', 'e2/sub']]
        for f in pool:
            if rng.random() < 0.4:
                files.add(f)
    return {'kind': 'run', 'hops': hops, 'files': sorted(files), 'rootLoader': root_loader}


def run_run_case(case, repo):
    root = Path(tempfile.mkdtemp(prefix='c19r')).resolve()
    try:
        build_run_tree(root, case)
        out = run_subprocess(root, {'kind': 'run', 'name': conc(root, case['hops'][0]['name']),
                                    'loader': case.get('rootLoader')}, repo)
        canon = Canon(root, out['builtin'])
        if canon(out['config_cwd']) != CWD:
            raise common.Infra(f'runner cwd is {out["config_cwd"]}')
        files, dirs = fs_of(root, canon)
        # the trail is kept by lib/vtrail.py inside the subprocess; the runner returns ctx['trail'] only on
        # success, so read both from the runner's output
        impl = {'trail': [canon(t) for t in out['trail']] if out.get('trail') is not None else None,
                'err': out['err'], 'msg': canon(out.get('msg')),
                'added': [canon(p) for p in out['sys_path_added']], 'dups': [canon(p) for p in out['sys_path_dups']]}
        return case, files, dirs, impl
    finally:
        shutil.rmtree(root, ignore_errors=True)


def judge_run_case(env, res, case, files, dirs, impl):
    res.case(case)
    res.count(f'run:depth{len(case["hops"]) - 1}')
    for h in case['hops'][1:]:
        for k in h['pype']:
            res.count('pype:' + k)
        if not h['pype']:
            res.count('pype:defaults')
    model = env.driver.ask('resolve.chain', cwd=CWD, builtin='/B', files=files, dirs=dirs,
                           rootLoader=case.get('rootLoader'), custom=[['vloader', True, True], ['vloader_nc', False, False]],
                           hops=case['hops'])
    mtrail = []
    for ld in model['loaded']:
        if 'file' in ld:
            f = ld['file']
            if not f.startswith('/B/'):
                mtrail.append(f'{f.rsplit("/", 1)[0][3:]}|{f[3:]}')
        else:
            l, n, p = ld['custom']
            mtrail.append(f'custom:{l}:{n}:{p}')
    m = {'trail': mtrail, 'err': 'PipelineNotFoundError' if model['err'] is not None else None, 'msg': model['err'],
         'added': model['sysPath']}
    i = {'trail': impl['trail'], 'err': impl['err'], 'msg': impl['msg'] if impl['err'] else None, 'added': impl['added']}
    # monitors, from the property text
    want = spec_chain(case, set(files), set(dirs))
    sig = {'clause': 'resolve_first_existing', 'depth': len(case['hops']) - 1}
    res.count('run:' + ('not-found' if want['err'] else 'found'))
    if impl['err'] and 'ModuleNotFound' in impl['err']:
        res.violation(case, f'a custom step module next to a loaded pipeline is not importable: {impl["msg"]}',
                      signature=dict(sig, clause='sys_path_has_pipeline_dir'), impl=impl)
    elif want['err']:
        if impl['err'] != 'PipelineNotFoundError':
            res.violation(case, f'{want["name"]} exists nowhere in its search order {want["searched"]}, yet: {impl}',
                          signature=sig, impl=impl)
        elif impl['trail'] != want['trail']:
            res.violation(case, f'pipelines that ran: {impl["trail"]}, by the resolution order: {want["trail"]}',
                          signature=dict(sig, clause='child_parent_default'), impl=impl)
        elif not judge_not_found(impl['msg'], want['name'], want['searched']):
            res.violation(case, f'not-found error does not list the searched places {want["searched"]}: {impl["msg"]!r}',
                          signature=dict(sig, clause='not_found_lists_searched'), impl=impl)
    else:
        if impl['err'] or impl['trail'] != want['trail']:
            res.violation(case, f'pipelines that ran: {impl["trail"]} (error {impl["err"]}: {impl["msg"]}), '
                                f'by the resolution order: {want["trail"]}',
                          signature=dict(sig, clause='child_parent_default' if len(case['hops']) > 1 else 'resolve_first_existing'),
                          impl=impl)
    if not impl['err'] or impl['err'] == 'PipelineNotFoundError':
        missing = [d for d in want['added'] if d not in impl['added']]
        if missing and not (impl['err'] and impl['trail'] != want['trail']):
            res.violation(case, f'directories of loaded pipeline files missing from sys.path: {missing}',
                          signature=dict(sig, clause='sys_path_has_pipeline_dir'), impl=impl)
    if impl['dups']:
        res.violation(case, f'sys.path holds {impl["dups"]} more than once', signature=dict(sig, clause='sys_path_once'), impl=impl)
    if m != i:
        res.mismatch(case, m, i)


# ---------------------------------------------------------------------------------------------
# entry points
# ---------------------------------------------------------------------------------------------

def run(env, res):
    repo = common.REPO
    res.rule = ('paths: every subset of the candidate locations (parent dir, cwd, cwd/pipelines; built-in via the name '
                'donothing) x 5 name forms x 7 parents x Path/str, through get_pipeline_path; run: all depth-0 layouts, '
                'depth-1 = 5 root placements x 4 child name forms x 13 pype option sets x every subset of the child\'s '
                'candidate locations (thorough: all; quick: seeded slice), depth-2 random chains incl. custom loaders. '
                'every case in a fresh subprocess with its own cwd. non-trivial = distinct (hops, options, layout)')
    workers = min(14, os.cpu_count() or 2)
    pcs = path_cases()
    chunks = [pcs[i::workers] for i in range(workers)]
    runs = depth0_cases()
    d1 = depth1_cases()
    res.extra['depth1_layouts_total'] = len(d1)
    if env.quick:   # all layouts of the default case (no steering keys) + a seeded slice of the rest
        d1 = [c for c in d1 if not c['hops'][1]['pype']] + env.rng.sample([c for c in d1 if c['hops'][1]['pype']], 350)
    runs += d1
    runs += [random_depth2(env.rng) for _ in range(env.n(250, 2500))]
    with ThreadPoolExecutor(max_workers=workers) as pool:
        pfut = [pool.submit(run_path_chunk, ch, repo) for ch in chunks if ch]
        rfut = [pool.submit(run_run_case, c, repo) for c in runs]
        for fu in pfut:
            results, pypyr_file = fu.result()
            if not str(pypyr_file).startswith(str(repo)):
                raise common.Infra(f'runner imported pypyr from {pypyr_file}, not from {repo}')
            for c, files, dirs, impl in results:
                judge_path_case(env, res, c, files, dirs, impl)
        for fu in rfut:
            judge_run_case(env, res, *fu.result())


def replay(env, res, payload):
    case = payload.get('case') or (payload.get('first_diverging_case') or {}).get('case')
    if not case:
        return run(env, res)
    if case.get('kind') == 'paths':
        results, _ = run_path_chunk([case], common.REPO)
        for c, files, dirs, impl in results:
            judge_path_case(env, res, c, files, dirs, impl)
            res.extra['replayed'] = impl
    else:
        c, files, dirs, impl = run_run_case(case, common.REPO)
        judge_run_case(env, res, c, files, dirs, impl)
        res.extra['replayed'] = impl
