"""C05 - foreach and while iterate as declared; nesting order.

Theorems: lean/Props/C05.lean over the flow interpreter model (lean/PypyrModel/Flow/*).
Tie: every case runs on the model (pmdriver) and on the real pypyr (in-process, generated .yaml
files loaded through the real file loader, probe step `vprobe`); directed families carry an
expectation computed from the property text alone (harness/floworacle.py) that judges the
implementation's observation; random programs (harness/flowgen.py) are compared observable by
observable and checked against generic invariants.
"""
from .. import flowcheck
from .. import floworacle as fo
from .. import floworacle_r3 as f3
from .. import floworacle_r4 as f4
from .. import floworacle_r5 as f5

LEAN_MODULES = ['Props.C05']
TRUSTED = ['harness/flow_impl.py (yaml renderer, canonicaliser, virtual clock, scripted random.uniform)',
           'harness/probe/vprobe.py (probe step) and its model probeStep',
           'harness/floworacle.py (directed expectations written from the property text)',
           'CPython, ruamel.yaml (modelled, not verified)']
ASSUMPTIONS = ['formatting inside decorators is restricted to the simple {key} grammar of PypyrModel/Fmt.lean',
               'context keys are strings; dict keys never mix bool/int/float',
               'log output (not the log LEVEL: that is a generated input), real time and BaseException other than Exception subclasses are outside the observables']


def run(env, res):
    res.rule = ('directed families (expectation from the property text) first, then seeded random pipelines '
                '(1-3 pipelines, 1-4 groups, 0-4 steps per group, decorators with p~0.25 each, foreach items incl. '
                'None/0/\'\'/False/[]/{}, 12% with a malformed group body or sequence item, 35% written in another '
                'yaml layout: flow style, JSON, first step on line 1, other indentation, single-quoted / plain / block scalars, anchors + aliases, merge keys; every 4th case runs with the root logger at DEBUG, every 8th at INFO, every 8th at NOTIFY - the log level is an input); a case is '
                'non-trivial when the model accepts it and it terminates; distinct by canonical program text')
    directed = [('c04-value-forms', f5.c04_value_forms_loops, env.n(302, 100000)),
                ('c05-when-evaluated', f4.c05_when_family, env.n(170, 100000)),
                ('c05', fo.c05_family, env.n(400, 100000)), ('c05-edge', fo.c05_edge_family, env.n(57, 100000)),
                ('c05-text', fo.c05_text_family, env.n(120, 100000)),
                ('c03-restore-midloop', fo.c03_midloop_family, env.n(44, 100000)),
                ('c03-restore', fo.c03_family, env.n(60, 100000)), ('c03-recursive', fo.c03_recursive_family, env.n(28, 100000)),
                ('c05-one-shot-iterable', f3.c05_oneshot_family, env.n(110, 100000)),
                ('c05-big', f3.c05_big_family, env.n(10, 100000)),
                ('c06-odd-errors', f3.c06_odd_errors_family, env.n(90, 100000))]
    flowcheck.run_streams(env, res, directed, env.n(500, 100000), weights={'fail': 3, 'set': 2},
                          random_monitor=flowcheck.monitor_all)


def replay(env, res, case):
    flowcheck.replay_case(env, res, case)
