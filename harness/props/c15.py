"""C15 — in-place file rewrites are all-or-nothing.

Model: lean/PypyrModel/FsRewrite.lean (operation list + fault plan); theorems: lean/Props/C15.lean.
Correspondence: the real StreamRewriter / ObjectRewriter through the five steps on scratch
directories, one fault (raise or kill) injected at every modelled point; directory bytes + listing
audited before/after and compared with the model's final state; the C15 monitor (`FsRewrite.judge`,
the property statement as a decidable predicate, evaluated by the Lean driver) judges the
implementation's own before/after directories.
"""
from __future__ import annotations

import copy
import json
import os
from pathlib import Path

from .. import common
from .. import impl_c15 as I

LEAN_MODULES = ['Props.C15']
TRUSTED = [
    'harness/impl_c15.py (fault injector: wrappers around is_same_file / open / NamedTemporaryFile / '
    'file.write / close of the temp file / close of the source file / os.replace / os.remove installed from outside, '
    'raising OSError, a BaseException (KeyboardInterrupt, SystemExit, GeneratorExit) or os._exit; directory audit; fork)',
    'harness/props/c15.py (scenario generator, op-index arithmetic, temp-name canonicaliser)',
    'CPython io/tempfile/os, glob.glob; ruamel.yaml, tomli_w, json as chunk producers',
]
ASSUMPTIONS = [
    'atomicity of rename(2)/os.replace and durability (fsync, power loss) are assumptions about the OS; '
    '"at every instant" is modelled at operation granularity (an operation either happened or did not)',
    'a write that raises is modelled as writing nothing; buffering is not modelled: after a kill the bytes of a '
    'leftover tmp# file are only required to be a prefix of the bytes the model has written to it',
    'the "complete new content" of a source is what a fault-free run of the implementation under test writes '
    '(reference run on an identical scratch directory); whether that content is the right one is C16/C08',
    'the processing order of glob matches is an input of the model (taken from stdlib glob.glob on the scratch '
    'directory); the set of matches is fixed by construction of the generator',
    'the `out` option: the model (`planOut`) takes the value of the option as the step sees it after formatting (absent / '
    "None / '' / a spelling), whether Path(out) is an existing directory (read from the scratch tree by the harness) and "
    'the number of paths `in` matched (stdlib glob); the working directory is part of the scenario; what a relative '
    'spelling resolves to is in the link table (os.path.realpath)',
    'single-fault plans (plus the double faults "rename/write fails and os.remove raises OSError / KeyboardInterrupt"); '
    'creation of missing out directories for in-place edits, concurrent writers and Windows are outside the modelled domain',
    'the close of the source file while an error propagates (the implicit __exit__ of `with open(in_path)`) is not an '
    'operation of the model: it cannot change the directory',
    'file modes are not part of the directory state: NamedTemporaryFile creates the temp file 0600, so a source that '
    'was 0644 is 0600 after a successful in-place rewrite (observed and counted by the harness: extra.mode_after_inplace)',
    'same-file-ness: the link table handed to the model (spelling -> entry = os.path.realpath, entry -> inode id = '
    'os.lstat) is read from the scratch tree by the harness before the run; that CPython os.path.samefile / '
    'isfile agree with it is validated by the correspondence only. An `in` path whose LAST component is a symlink: '
    'the model replaces the link entry (Job.dst), the target keeps its bytes (theorem symlink_in_replaces_link)',
]


# --------------------------------------------------------------------------
# op-index arithmetic (mirror of FsRewrite.inplaceOps / directOps / streamBody / objectBody)
# --------------------------------------------------------------------------

def n_ops(style, k, inplace):
    """stream: sameFile openRead mkTemp|openWrite (fmt write)*k close closeIn [replace]
       object: sameFile openRead closeIn mkTemp|openWrite fmt write*k close [replace]"""
    if style == 'stream':
        return 3 + 2 * k + (3 if inplace else 2)
    return 4 + 1 + k + (2 if inplace else 1)


def local_index(style, k, label, n):
    if label == 'sameFile':
        return 0
    if label == 'openRead':
        return 1
    if style == 'stream':
        if label in ('mkTemp', 'openWrite'):
            return 2
        return {'fmt': 2 * n + 1, 'write': 2 * n + 2, 'close': 3 + 2 * k, 'closeIn': 4 + 2 * k,
                'replace': 5 + 2 * k}[label]
    if label == 'closeIn':
        return 2
    if label in ('mkTemp', 'openWrite'):
        return 3
    return {'fmt': 4, 'write': 4 + n, 'close': 5 + k, 'replace': 6 + k}[label]


def tmp_name(src, pos):
    d = os.path.dirname(src)
    return (d + '/' if d else '') + f'tmp#{pos}'


# --------------------------------------------------------------------------
# scenarios
# --------------------------------------------------------------------------

CTX = {'k1': 'v1', 'k2': 'ü2', 'k3': 3}


def lines_for(k, tag, fmt=True):
    out = []
    for i in range(1, k + 1):
        if not fmt:
            out.append(f'{tag} line {i} xl\n')
        elif i % 3 == 1:
            out.append(f'{tag} l{i} {{k1}} é\n')
        elif i % 3 == 2:
            out.append(f'{tag} {{{{lit}}}} l{i} {{k2}}{{k3}}\n')
        else:
            out.append(f'plain {tag} {i}\n')
    if k % 2 == 0:
        out[-1] = out[-1].rstrip('\n')     # last line without newline
    return out


def doc_for(m, tag, toml=False):
    d = {}
    for i in range(m):
        r = i % 4
        if r == 0:
            d[f's{i}'] = f'{tag} v{{k1}}'
        elif r == 1:
            d[f'i{i}'] = i
        elif r == 2:
            d[f'l{i}'] = ['x', '{k2}', i, True]
        else:
            d[f'e{i}'] = '' if toml else None
    if m >= 3:
        d['t'] = {'s': 'y{k1}', 'b': True, 'u': {'deep': ['{k1}', 'z']}}
    return d


def spec_for(step, size, tag, twice=False):
    """`twice`: content whose rewrite is idempotent (no `{{`/`}}` escapes), for files rewritten more than once."""
    style = I.style_of(step)
    if style == 'stream':
        if twice and step == 'fileformat':
            lines = [f'{tag} d{i} {{k1}} é {{k3}}\n' if i % 2 else f'plain {tag} {i}\n' for i in range(1, size + 1)]
            return {'lines': lines}
        return {'lines': lines_for(size, tag, fmt=(step == 'fileformat'))}
    return {'doc': doc_for(size, tag, toml=(step == 'fileformattoml'))}


def overlap_scenarios(step, ext, mk, other):
    """`in` matching a file more than once (get_glob chains the per-pattern globs without de-duplication; a glob
    that matches a symlink and its target), and runs in which one job is in place and another is a direct write."""
    a, b = 'a' + ext, 'b' + ext
    two = [[a, spec_for(step, 2, 'A', twice=True)], [b, spec_for(step, 1, 'B', twice=True)]] + other
    out = []
    out.append(mk('dup-list', two, {'kind': 'list', 'paths': ['*' + ext, a]}, [a, b, a]))
    out.append(mk('dup-same', two, {'kind': 'list', 'paths': [a, a]}, [a, a]))
    scn = mk('dup-globlink', two, {'kind': 'glob', 'paths': ['*' + ext]}, [a, b, a])
    scn['links'] = [['symlink', 'ln' + ext, a]]
    out.append(scn)
    d1a, d2a, d2b = 'd1/' + a, 'd2/' + a, 'd2/' + b
    scn = mk('mixed-overlap', [[d1a, spec_for(step, 2, 'A')], [d2a, spec_for(step, 2, 'B')]] + other,
             {'kind': 'list', 'paths': [d1a, d2a]}, [d1a, d2a], {'kind': 'dir', 'path': 'd1'})
    scn['mixed'] = 'overlap'       # job 2 is a direct write onto the source job 1 has just edited in place
    out.append(scn)
    scn = mk('mixed-disjoint', [[d1a, spec_for(step, 2, 'A')], [d2b, spec_for(step, 2, 'B')]] + other,
             {'kind': 'list', 'paths': [d1a, d2b]}, [d1a, d2b], {'kind': 'dir', 'path': 'd1'})
    scn['mixed'] = 'disjoint'      # job 1 in place, job 2 a direct write to a new file next to it
    out.append(scn)
    return out


def base_scenarios(quick):
    """Directed base scenarios (no fault yet): step x layout x size x encoding."""
    out = []
    for step, (_m, _k, style, ext) in I.STEPS.items():
        sizes = [1, 2, 3, 4, 5, 6]
        other = [['other.dat', {'raw': 'unmatched {k1} {missing}\n'}], ['tmpkeep', {'raw': 'pre-existing tmp-like name'}],
                 ['sub/x.bin', {'raw': 'nested unmatched'}]]

        def mk(layout, files, inn, matched, outspec=None, enc=None, dirs=()):
            return {'step': step, 'layout': layout, 'files': files, 'dirs': list(dirs), 'in': inn, 'out': outspec,
                    'enc': enc or {}, 'ctx': CTX, 'matched': matched}

        a = 'a' + ext
        for size in sizes:
            out.append(mk(f'single-{size}', [[a, spec_for(step, size, 'A')]] + other,
                          {'kind': 'single', 'paths': [a]}, [a]))
        b, c, sb = 'b' + ext, 'c' + ext, 'sub/b' + ext
        two = [[a, spec_for(step, 2, 'A')], [sb, spec_for(step, 3, 'B')]] + other
        out.append(mk('same-dotslash', [[a, spec_for(step, 3, 'A')]] + other, {'kind': 'single', 'paths': [a]}, [a],
                      {'kind': 'same', 'path': './' + a}))
        out.append(mk('same-updir', [[sb, spec_for(step, 2, 'B')]] + other, {'kind': 'single', 'paths': [sb]}, [sb],
                      {'kind': 'same', 'path': 'sub/../sub/b' + ext}))
        out.append(mk('outdir-slash', [[sb, spec_for(step, 2, 'B')]] + other, {'kind': 'single', 'paths': [sb]}, [sb],
                      {'kind': 'dir', 'path': 'sub'}))
        out.append(mk('outdir-noslash', [[sb, spec_for(step, 2, 'B')]] + other, {'kind': 'single', 'paths': [sb]},
                      [sb], {'kind': 'dirnoslash', 'path': 'sub'}))
        out.append(mk('list-2', two, {'kind': 'list', 'paths': [a, sb]}, [a, sb]))
        three = [[a, spec_for(step, 2, 'A')], [b, spec_for(step, 1, 'B')], [c, spec_for(step, 3, 'C')]] + other
        out.append(mk('glob-3', three, {'kind': 'glob', 'paths': ['*' + ext]}, [a, b, c], dirs=['zdir' + ext]))
        out.append(mk('glob-outdir', three, {'kind': 'glob', 'paths': ['*' + ext]}, [a, b, c],
                      {'kind': 'dir', 'path': '.'}))
        out.append(mk('rglob', [[a, spec_for(step, 1, 'A')], [sb, spec_for(step, 2, 'B')],
                                ['sub/deep/c' + ext, spec_for(step, 2, 'C')]] + other,
                      {'kind': 'glob', 'paths': ['**/*' + ext]}, [a, sb, 'sub/deep/c' + ext]))
        out.append(mk('list-of-globs', three + [[sb, spec_for(step, 1, 'S')]],
                      {'kind': 'list', 'paths': ['a*' + ext, 'sub/*' + ext]}, [a, sb]))
        out.append(mk('relative', [[a, spec_for(step, 2, 'A')]] + other,
                      {'kind': 'single', 'paths': [a], 'relative': True}, [a]))
        out.append(mk('relative-sub', [[sb, spec_for(step, 2, 'B')]] + other,
                      {'kind': 'single', 'paths': [sb], 'relative': True}, [sb]))
        # out is another file / directory: the direct route (not in-place; routing only)
        out.append(mk('direct-file', [[a, spec_for(step, 2, 'A')]] + other, {'kind': 'single', 'paths': [a]}, [a],
                      {'kind': 'file', 'path': 'out' + ext}))
        out.append(mk('direct-dir', [[a, spec_for(step, 2, 'A')], ['outd/keep', {'raw': 'k'}]] + other,
                      {'kind': 'single', 'paths': [a]}, [a], {'kind': 'dir', 'path': 'outd'}))
        if step != 'fileformattoml':
            # encoding options x in place / out equal to in / out another file (what is written must be in the
            # OUT encoding on every route; the source is read in the IN encoding)
            for enc in ({'encoding': 'utf-16'}, {'encoding': 'latin-1'}, {'encoding': 'utf-8'},
                        {'encodingIn': 'utf-8', 'encodingOut': 'utf-16'}, {'encodingIn': 'utf-16', 'encodingOut': 'utf-8'},
                        {'encodingIn': 'latin-1', 'encodingOut': 'utf-32'},
                        {'encoding': 'utf-8', 'encodingIn': 'utf-16'}, {'encoding': 'utf-16', 'encodingOut': 'latin-1'}):
                name = '-'.join(f'{k}={v}' for k, v in enc.items())
                out.append(mk('enc-' + name, [[a, spec_for(step, 3, 'A')]] + other,
                              {'kind': 'single', 'paths': [a]}, [a], None, enc))
                if len(enc) > 1:
                    out.append(mk('encsame-' + name, [[a, spec_for(step, 3, 'A')]] + other,
                                  {'kind': 'single', 'paths': [a]}, [a], {'kind': 'same', 'path': './' + a}, enc))
                    out.append(mk('encout-' + name, [[a, spec_for(step, 3, 'A')]] + other,
                                  {'kind': 'single', 'paths': [a]}, [a], {'kind': 'file', 'path': 'out' + ext}, enc))
        out += overlap_scenarios(step, ext, mk, other)
        out += alias_scenarios(step, ext)
        out += outopt_scenarios(step, ext)
    return out



# --------------------------------------------------------------------------
# "out equal to in": every way two paths can name one file (and negative controls)
# --------------------------------------------------------------------------

ALIAS_FORMS = [
    # name,                 in (path, relative), out (kind, path, relative),   same file?, modelled
    ('same-string',         ('A', False),   ('same', 'A', False),            True, True),
    ('in-abs-out-rel',      ('A', False),   ('same', 'A', True),             True, True),
    ('in-rel-out-abs',      ('A', True),    ('same', 'A', False),            True, True),
    ('dotdot',              ('A', False),   ('same', 'sub/../A', False),     True, True),
    ('dot-rel',             ('A', True),    ('same', './sub/.././A', True),  True, True),
    ('symlink-file',        ('A', False),   ('same', 'LN', False),           True, True),
    ('symlink-chain',       ('A', False),   ('same', 'LN2', False),          True, True),
    ('symlink-dir',         ('SB', False),  ('same', 'lnd/B', False),        True, True),
    ('symlink-dir-outdir',  ('SB', False),  ('dir', 'lnd', False),           True, True),
    ('in-via-symlink-dir',  ('lnd/B', False), ('same', 'SB', False),         True, True),
    ('hardlink',            ('A', False),   ('same', 'HL', False),           True, True),
    ('hardlink-other-dir',  ('A', False),   ('same', 'sub/HL2', False),      True, True),
    ('hardlink-rel',        ('A', True),    ('same', 'HL', True),            True, True),
    ('symlink-to-hardlink', ('A', False),   ('same', 'LNHL', False),         True, True),
    ('hardlink-outdir',     ('A', False),   ('dir', 'hd', False),            True, True),
    # negative controls: another file with the same bytes
    ('ctl-copy',            ('A', False),   ('file', 'COPY', False),         False, True),
    ('ctl-symlink-to-copy', ('A', False),   ('file', 'LNCOPY', False),       False, True),
    ('ctl-same-name-dir',   ('A', False),   ('dir', 'cd', False),            False, True),
    # `in` itself is a symlink (last component): os.replace replaces the link (Job.dst), the target is not edited
    ('in-is-symlink',       ('LN', False),  None,                            True, True),
    ('in-is-symlink-out-target', ('LN', False), ('same', 'A', False),        True, True),
]


def alias_scenarios(step, ext):
    """One base scenario per aliasing form: a.ext (3 lines/tokens) and sub/b.ext (2), plus symlinks, hard
    links and copies of them; `in` is one path, `out` another spelling / link / copy."""
    a, b = 'a' + ext, 'b' + ext
    names = {'A': a, 'B': b, 'SB': 'sub/' + b, 'LN': 'ln' + ext, 'LN2': 'ln2' + ext, 'HL': 'hl' + ext,
             'HL2': 'hl2' + ext, 'LNHL': 'lnhl' + ext, 'COPY': 'copy' + ext, 'LNCOPY': 'lncopy' + ext}

    def nm(pat):
        return '/'.join(names.get(seg, seg) for seg in pat.split('/'))

    files = [[a, spec_for(step, 3, 'A')], ['sub/' + b, spec_for(step, 2, 'B')],
             ['other.dat', {'raw': 'unmatched {k1} {missing}\n'}], ['sub/x.bin', {'raw': 'nested unmatched'}]]
    links = [['symlink', nm('LN'), a], ['symlink', nm('LN2'), nm('LN')], ['symlink', 'lnd', 'sub'],
             ['hardlink', nm('HL'), a], ['hardlink', nm('sub/HL2'), a], ['symlink', nm('LNHL'), nm('HL')],
             ['hardlink', 'hd/' + a, a], ['copy', nm('COPY'), a], ['symlink', nm('LNCOPY'), nm('COPY')],
             ['copy', 'cd/' + a, a]]
    out = []
    for name, (ipat, irel), ospec, same, modelled in ALIAS_FORMS:
        inp = nm(ipat)
        src = {'A': a, 'SB': 'sub/' + b, 'lnd/B': 'sub/' + b, 'LN': a}[ipat]      # the entry `in` resolves to
        scn = {'step': step, 'layout': 'alias-' + name, 'files': files, 'dirs': [], 'links': links,
               'in': {'kind': 'single', 'paths': [inp], 'relative': irel}, 'out': None, 'enc': {}, 'ctx': CTX,
               'matched': [src], 'expect_inplace': same, 'modelled': modelled,
               'probe': {'path': inp, 'spec': src, 'out': None}}
        if ospec:
            kind, opat, orel = ospec
            scn['out'] = {'kind': kind, 'path': nm(opat), 'relative': orel}
            if not same:
                scn['probe']['out'] = {'COPY': nm('COPY'), 'LNCOPY': nm('COPY'), 'cd': 'cd/' + a}[opat]
        out.append(scn)
    return out


# --------------------------------------------------------------------------
# the `out` option space: absent / None / '' / '{outDir}' -> '' / the directory of in (with and without the
# trailing separator) / a path equal to in / another directory; the working directory controlled; files with
# the NAME of the in file in the working directory and in the out directory (bystanders)
# --------------------------------------------------------------------------

OUT_FORMS = [
    # name,          out spec (None = key absent),                          in place?
    ('absent',       None,                                                  True),
    ('none',         {'kind': 'none'},                                      True),
    ('empty',        {'kind': 'empty'},                                     True),
    ('emptyfmt',     {'kind': 'emptyfmt'},                                  True),
    ('indir-slash',  {'kind': 'dir', 'path': 'conf'},                       True),
    ('indir',        {'kind': 'dirnoslash', 'path': 'conf'},                True),
    ('equal-in',     {'kind': 'same', 'path': 'conf/A'},                    True),
    ('equal-in-rel', {'kind': 'same', 'path': 'conf/A', 'relative': True},  True),
    ('otherdir-slash', {'kind': 'dir', 'path': 'od'},                       False),
    ('otherdir',     {'kind': 'dirnoslash', 'path': 'od'},                  False),
    ('cwd-dot',      {'kind': 'dir', 'path': 'cw', 'relative': True},       False),   # spelled './' from cwd=cw
]
CWDS = ['cw', 'conf', '']


def outopt_scenarios(step, ext):
    a, b = 'a' + ext, 'b' + ext
    by = 'PRODUCTION do not touch {k1} {missing}\n'
    files = [['conf/' + a, spec_for(step, 3, 'A')], ['conf/other.dat', {'raw': 'unmatched {k1} {missing}\n'}],
             ['cw/' + a, {'raw': 'cw ' + by}], [a, {'raw': 'root ' + by}], ['od/' + a, {'raw': 'od ' + by}],
             ['cw/other.dat', {'raw': 'unmatched in cwd'}], ['od/keep', {'raw': 'k'}]]
    out = []

    def mk(name, ospec, same, cwd, inrel, multi=False):
        ospec = copy.deepcopy(ospec)
        if ospec and 'path' in ospec:
            ospec['path'] = ospec['path'].replace('A', a)
            ospec.setdefault('relative', False)
        fl = list(files)
        inn = {'kind': 'single', 'paths': ['conf/' + a], 'relative': inrel}
        matched = ['conf/' + a]
        scn = {'step': step, 'family': 'outopt', 'files': fl, 'dirs': [], 'in': inn, 'out': ospec, 'enc': {},
               'ctx': CTX, 'cwd': cwd, 'matched': matched, 'modelled': True}
        tag = f"out={name},cwd={cwd or 'root'},in={'rel' if inrel else 'abs'}"
        if multi:
            fl += [['conf/' + b, spec_for(step, 2, 'B')], ['cw/' + b, {'raw': 'cw b ' + by}], [b, {'raw': 'root b ' + by}]]
            scn['in'] = {'kind': 'glob', 'paths': ['conf/*' + ext], 'relative': inrel}
            scn['matched'] = ['conf/' + a, 'conf/' + b]
            scn['layout'] = 'outopt-multi-' + tag
            return scn
        scn['layout'] = 'alias-' + tag
        scn['expect_inplace'] = same
        scn['probe'] = {'path': 'conf/' + a, 'spec': 'conf/' + a, 'out': None}
        if not same:
            scn['probe']['out'] = {'od': 'od/' + a, 'cw': 'cw/' + a}[ospec['path']]
        return scn

    for name, ospec, same in OUT_FORMS:
        falsy = ospec is None or ospec['kind'] in I.FALSY_OUT
        for cwd in (CWDS if falsy else ['cw']):
            out.append(mk(name, ospec, same, cwd, False))
        if name in ('empty', 'absent', 'cwd-dot', 'equal-in'):
            out.append(mk(name, ospec, same, 'cw', True))
    for name, ospec, same in OUT_FORMS[:4]:
        out.append(mk(name, ospec, same, 'cw', name == 'emptyfmt', multi=True))
    # several in files, out one file: Error before anything is opened
    scn = mk('onefile', {'kind': 'file', 'path': 'res' + ext}, False, 'cw', False, multi=True)
    out.append(scn)
    return out



# --------------------------------------------------------------------------
# "complete new content", by construction of the generator (independent of the implementation)
# --------------------------------------------------------------------------

import re

_TOK = re.compile(r'\{\{|\}\}|\{(\w+)\}')
_SUBST = {'k1': 'v1', 'k2': 'ü2', 'k3': '3', 'missing': 'M', 'bomb': 'B', 'unser': 'S'}


def subst(text):
    return _TOK.sub(lambda m: '{' if m.group(0) == '{{' else '}' if m.group(0) == '}}' else _SUBST[m.group(1)], text)


def subst_doc(d):
    if isinstance(d, str):
        return subst(d)
    if isinstance(d, list):
        return [subst_doc(x) for x in d]
    if isinstance(d, dict):
        return {subst_doc(k): subst_doc(v) for k, v in d.items()}
    return d


def planted_spec(scn, rel, spec):
    """The file's content spec with the content-borne fault planted (mirror of impl_c15.materialise)."""
    fault = scn.get('fault') or {}
    if fault.get('src') != rel or fault.get('via') not in ('missing', 'bomb', 'serialise'):
        return spec
    if 'lines' in spec:
        lines = list(spec['lines'])
        n = fault['n'] - 1
        tag = '{missing}' if fault['via'] == 'missing' else '{bomb}'
        body, nl = (lines[n][:-1], '\n') if lines[n].endswith('\n') else (lines[n], '')
        lines[n] = body + ' ' + tag + nl
        return {'lines': lines}
    tag = {'missing': 'x{missing}', 'bomb': 'x{bomb}', 'serialise': '{unser}'}[fault['via']]
    doc = spec['doc']
    doc = {I.FAULT_KEY: tag, **doc} if fault.get('first') else {**doc, I.FAULT_KEY: tag}
    return {'doc': doc}


def content_problem(scn, spec_rel, got, what='a successful rewrite'):
    """Is `got` (bytes) the complete new content of the file whose content spec is `spec_rel`, as constructed
    by the generator (text: byte-exact; documents: equal after parsing)? None if yes, else a description."""
    step = scn['step']
    e = scn.get('enc') or {}
    enc_out = e.get('encodingOut', e.get('encoding')) or 'utf-8'
    specs = dict((rel, spec) for rel, spec in scn['files'])
    spec = planted_spec(scn, spec_rel, specs[spec_rel])
    try:
        if 'lines' in spec:
            text = ''.join(spec['lines'])
            if step == 'fileformat':
                want = subst(text)
            else:
                want = text
                for a, b in (scn.get('replace') or {'l': 'L'}).items():
                    want = want.replace(a, subst(b))
            if got.decode(enc_out) != want:
                return f'{spec_rel}: {what} left {got.decode(enc_out)!r}, constructed new content {want!r}'
        else:
            want = subst_doc(spec['doc'])
            if step == 'fileformatjson':
                import json
                have = json.loads(got.decode(enc_out))
            elif step == 'fileformatyaml':
                import ruamel.yaml
                have = ruamel.yaml.YAML(typ='safe', pure=True).load(got.decode(enc_out))
            else:
                import tomllib
                have = tomllib.loads(got.decode('utf-8'))
            if have != want:
                return f'{spec_rel}: {what} left a document equal to {have!r}, constructed {want!r}'
    except Exception as ex:  # undecodable / unparsable output
        return f'{spec_rel}: output of {what} cannot be read back: {type(ex).__name__}: {ex}'
    return None


def new_content_problem(scn, ref_after, obs=None):
    """Compare what the fault-free reference run left in each matched source with the content the
    generator constructed. None if all good. The content is looked up at the directory entry the in path
    names (the link itself when the in path is a symlink: that is what a successful rewrite replaces)."""
    pairs = list(zip(obs['order'], obs['in_entries'])) if obs and len(obs.get('in_entries', [])) == len(obs['order']) \
        else [(s, s) for s in scn['matched']]
    for src, entry in pairs:
        if scn.get('mixed') == 'overlap' and src == scn['matched'][0]:
            continue        # overwritten by the second job's direct write (documented: mixed_run_sources_whole)
        if not is_inplace(scn, src):
            # out is another file: it must hold the new content (in the OUT encoding)
            o = canonical_out_entry(scn, src)
            if o is not None and o in ref_after:
                prob = content_problem(scn, src, bytes.fromhex(ref_after[o]), 'a successful write to out (' + o + ')')
                if prob:
                    return prob
            continue
        prob = content_problem(scn, src, bytes.fromhex(ref_after.get(entry, '')))
        if prob:
            return prob
    return None


def canonical_out_entry(scn, src):
    """The entry a plain (link-free) out names; None when links are involved (the aliasing family has its own
    monitor)."""
    if scn.get('links'):
        return None
    return I.canonical_out(scn, src)


def is_inplace(scn, src):
    if 'expect_inplace' in scn:       # aliasing family: known by construction of the scenario
        return scn['expect_inplace']
    o = I.canonical_out(scn, src)
    return o is None or os.path.normpath(o) == os.path.normpath(src)


BASE_EXCS = ['KeyboardInterrupt', 'SystemExit', 'GeneratorExit']


def fault_points(scn, ks, rng=None):
    """Every modelled fault point of a base scenario. `ks`: {src: number of writes} from the probe. A source
    matched more than once gets the injected faults for every one of its rewrites (`occ`)."""
    step = scn['step']
    style = I.style_of(step)
    pts = []
    counts = {}
    for src in scn['matched']:
        counts[src] = counts.get(src, 0) + 1
    for src, cnt in counts.items():
      for occ in range(cnt):
        k = ks.get(src)
        if k is None:
            continue
        inplace = is_inplace(scn, src)
        more = {'occ': occ} if occ else {}
        for kind in ('raise', 'kill', 'raiseBase'):
            for label in ('sameFile', 'openRead', 'mkTemp' if inplace else 'openWrite'):
                pts.append({'src': src, 'op': label, 'n': 0, 'kind': kind, 'via': 'inject', **more})
            for n in range(1, k + 1):
                pts.append({'src': src, 'op': 'write', 'n': n, 'kind': kind, 'via': 'inject', **more})
            pts.append({'src': src, 'op': 'close', 'n': 0, 'kind': kind, 'via': 'inject', **more})
            pts.append({'src': src, 'op': 'closeIn', 'n': 0, 'kind': kind, 'via': 'inject', **more})
            if inplace:
                pts.append({'src': src, 'op': 'replace', 'n': 0, 'kind': kind, 'via': 'inject', **more})
            if occ:
                continue        # content-borne faults fire in the first rewrite
            if step == 'fileformat':
                for n in range(1, k + 1):
                    pts.append({'src': src, 'op': 'fmt', 'n': n, 'kind': kind, 'via': 'bomb'})
            elif style == 'object':
                pts.append({'src': src, 'op': 'fmt', 'n': 0, 'kind': kind, 'via': 'bomb'})
                pts.append({'src': src, 'op': 'fmt', 'n': 0, 'kind': kind, 'via': 'bomb', 'first': True})
        if inplace and not occ:
            # the other BaseExceptions that are not Exceptions
            for exc in BASE_EXCS[1:]:
                pts.append({'src': src, 'op': 'write', 'n': k, 'kind': 'raiseBase', 'via': 'inject', 'exc': exc})
                pts.append({'src': src, 'op': 'replace', 'n': 0, 'kind': 'raiseBase', 'via': 'inject', 'exc': exc})
        if occ:
            continue
        # faults that arise by themselves
        if step == 'fileformat':
            for n in range(1, k + 1):
                pts.append({'src': src, 'op': 'fmt', 'n': n, 'kind': 'raise', 'via': 'missing'})
        elif style == 'object':
            pts.append({'src': src, 'op': 'fmt', 'n': 0, 'kind': 'raise', 'via': 'missing'})
            pts.append({'src': src, 'op': 'write', 'n': 0, 'kind': 'raise', 'via': 'serialise'})
            pts.append({'src': src, 'op': 'write', 'n': 0, 'kind': 'raise', 'via': 'serialise', 'first': True})
            pts.append({'src': src, 'op': 'openRead', 'n': 0, 'kind': 'raise', 'via': 'badsource'})
        if inplace:
            # double faults: the clean-up os.remove fails as well (OSError: swallowed; KeyboardInterrupt: propagates)
            pts.append({'src': src, 'op': 'replace', 'n': 0, 'kind': 'raise', 'via': 'inject', 'remove_fails': True})
            pts.append({'src': src, 'op': 'write', 'n': 1, 'kind': 'raise', 'via': 'inject', 'remove_fails': True})
            pts.append({'src': src, 'op': 'replace', 'n': 0, 'kind': 'raise', 'via': 'inject', 'remove_fails': 'base'})
            pts.append({'src': src, 'op': 'write', 'n': k, 'kind': 'raise', 'via': 'inject', 'remove_fails': 'base'})
    return pts


# --------------------------------------------------------------------------
# one case through both sides
# --------------------------------------------------------------------------

def model_request(scn, obs):
    """Build the fsrewrite.run request from the scenario + what the reference run wrote."""
    style = I.style_of(scn['step'])
    fault = scn.get('fault')
    refl = obs['ref'].get('jobs', [])
    by_pos = [j['src'] for j in refl] == list(obs['order'])
    refjobs = {j['src']: j for j in refl}
    ents = obs.get('in_entries') or []
    jobs, offset, plan, seen = [], 0, [], {}
    for pos, src in enumerate(obs['order']):
        occ = seen.get(src, 0)
        seen[src] = occ + 1
        rj = refl[pos] if by_pos else refjobs.get(src, {'chunks': []})
        chunks = rj['chunks']
        k = len(chunks)
        inplace = is_inplace(scn, src)
        ent = ents[pos] if pos < len(ents) else src
        dst = ent if ent != src else None       # the in path's last component is a symlink
        job = {'src': src, 'out': I.out_spelling(scn, src), 'tmp': tmp_name(dst or src, pos), 'style': style,
               'chunks': chunks}
        if dst:
            job['dst'] = dst
        jobs.append(job)
        if fault and fault['src'] == src and fault.get('occ', 0) == occ and not plan:
            n = fault.get('n', 0)
            if fault['via'] == 'serialise':
                # the serialiser raised between writes: the next write never happened
                done = [j for j in obs['jobs'] if j['src'] == src and j.get('occ', 0) == occ]
                n = (len(done[0]['chunks']) if done else 0) + 1
            p = offset + local_index(style, k, fault['op'], n)
            plan.append([p, fault['kind']])
            if fault.get('remove_fails'):
                plan.append([p + 1, 'raiseBase' if fault['remove_fails'] == 'base' else 'raise'])
        offset += n_ops(style, k, inplace)
    fs = [[name, data] for name, data in obs['before'].items()]
    return {'fs': fs, 'jobs': jobs, 'plan': plan, 'cleanup': True, 'links': obs['links'], 'outopt': obs['outopt']}


def canonical_after(obs):
    """Implementation's final directory with recorded temp names -> <dir>/tmp#<job position>."""
    tmap = {}
    for pos, j in enumerate(obs['jobs']):
        if j.get('tmp'):
            tmap[j['tmp']] = tmp_name(j['tmp'], pos)      # the directory the temp file was made in
    return dict(sorted((tmap.get(name, name), data) for name, data in obs['after'].items()))


def real_out(scn, obs, src):
    """The directory entry the out path of the job for `src` resolves to (None: no out)."""
    sp = I.out_spelling(scn, src)
    if sp is None:
        return None
    return dict(map(tuple, obs['links']['entry'])).get(sp, os.path.normpath(sp))


def _short(hx):
    if hx is None:
        return '<no such file>'
    b = bytes.fromhex(hx)
    return repr(b[:60]) + ('…' if len(b) > 60 else '') + f' ({len(b)} bytes)'


def alias_monitor(scn, obs):
    """The property statement on one run whose `out` is another name of `in` (or, for the controls, another
    file): the bytes read through the source path before the run, after every observable operation, at the
    fault and after the run; the directory listing before/after; every other entry. Independent of the
    model. Returns [(clause, text)]."""
    pr = scn['probe']
    fault = scn.get('fault') or {}
    end = obs['outcome']['end']
    orig, after = obs['probe_before'], obs['probe_after']
    snaps = [orig] + list(obs.get('seen') or []) + [after]
    probs = []
    newness = {}

    def is_new(hx):
        if hx not in newness:
            newness[hx] = hx is not None and content_problem(scn, pr['spec'], bytes.fromhex(hx)) is None
        return newness[hx]

    if scn['expect_inplace']:
        for k, hx in enumerate(snaps):
            if hx != orig and not is_new(hx):
                probs.append(('srcWhole', f'instant {k} of {len(snaps)}: the source path holds {_short(hx)}, neither the '
                                          f'complete original {_short(orig)} nor the complete new content'))
                break
        if end == 'raised' and after != orig:
            probs.append(('origIntactOnFailure', f'the step raised {obs["outcome"].get("exc")} but the source path holds '
                                                 f'{_short(after)} instead of the original {_short(orig)}'))
        if end == 'ok' and not is_new(after):
            probs.append(('okNew', 'the step ended ok but the source path does not hold the complete new content: '
                          + str(content_problem(scn, pr['spec'], bytes.fromhex(after or '')))))
    else:
        for k, hx in enumerate(snaps):
            if hx != orig:
                probs.append(('inTouchedByOtherOut', f'instant {k}: out is a different file, yet the source path holds '
                                                     f'{_short(hx)} instead of {_short(orig)}'))
                break
        if end == 'ok':
            got = obs['after'].get(pr['out'])
            prob = content_problem(scn, pr['spec'], bytes.fromhex(got or ''), 'a successful write to out')
            if got is None or prob:
                probs.append(('outNotWritten', f'the step ended ok but out ({pr["out"]}) does not hold the new content: {prob}'))
    # ---- directory entries
    nb, na = obs['names_before'], obs['names_after']
    missing = sorted(set(nb) - set(na))
    extra = sorted(set(na) - set(nb))
    if missing:
        probs.append(('entryMissing', f'entries disappeared: {missing}'))
    tolerated = (end == 'killed') or bool(fault.get('remove_fails'))
    bad_extra = [n for n in extra if not (tolerated and os.path.basename(n).startswith('tmp'))]
    if bad_extra:
        tmpish = all(os.path.basename(n).startswith('tmp') for n in bad_extra)
        probs.append(('tempLeftBehind' if tmpish else 'extraEntry',
                      f'after a run that ended {end} the directory has extra entries {bad_extra}'))
    # ---- everything else is untouched: same kind, same link target, same bytes
    own = {obs['src_entry']}
    if not scn['expect_inplace'] and pr.get('out'):
        own.add(pr['out'])
    for name, kind in nb.items():
        if name in own or name not in na:
            continue
        if na[name] != kind:
            probs.append(('otherTouched', f'entry {name} was {kind}, is now {na[name]}'))
        elif kind == 'F' and obs['before'].get(name) != obs['after'].get(name):
            probs.append(('otherTouched', f'{name} is not matched by in, held {_short(obs["before"].get(name))}, '
                                          f'now holds {_short(obs["after"].get(name))}'))
    return probs


def run_case(drv, scn):
    """Returns a record: {case, model, impl, mismatch?, verdict?, counts}."""
    obs = I.observe(scn)
    fault = scn.get('fault')
    rec = {'case': scn, 'counts': []}
    if scn.get('probe'):
        rec['alias'] = alias_monitor(scn, obs)
        rec['alias_obs'] = {'end': obs['outcome'], 'source_path_bytes': [obs['probe_before']] + list(obs['seen'])
                            + [obs['probe_after']], 'names_before': obs['names_before'],
                            'names_after': obs['names_after'], 'events': obs['events'],
                            'route': ['direct' if j.get('direct') else 'inplace' if j.get('tmp') else 'undecided'
                                      for j in obs['jobs']]}
        rec['counts'] += ['alias-form:' + scn['layout'][6:], 'alias-end:' + str(obs['outcome']['end'])]
    if scn.get('modelled') is False:
        rec['counts'] += ['step:' + scn['step'], 'layout:alias', 'monitor-only',
                          'fault:' + (f"{fault['op']}/{fault['kind']}/{fault['via']}" if fault else 'none')]
        rec['impl'] = {'end': obs['outcome']['end'], 'events': obs['events']}
        rec['impl_detail'] = {'outcome': obs['outcome'], 'before': obs['before'], 'order': obs['order']}
        return rec
    req = model_request(scn, obs)
    try:
        m = drv.ask('fsrewrite.run', **req)
    except common.Reject as e:
        rec['reject'] = str(e)
        return rec
    after = canonical_after(obs)
    mfinal = dict(sorted((n, d) for n, d in m['final']))
    # leftover temp files: the implementation's bytes must be a prefix of the model's (buffering)
    tmp_ok = True
    for name in list(after):
        if os.path.basename(name).startswith('tmp#') and name in mfinal:
            if not mfinal[name].startswith(after[name]):
                tmp_ok = False
            after[name] = mfinal[name] = 'tmp'
    if fault and fault['kind'] == 'kill':
        # direct route: bytes still in the writer's buffer when the process died never reached the file
        for src in scn['matched']:
            o = real_out(scn, obs, src)
            if not is_inplace(scn, src) and o in after and o in mfinal and mfinal[o].startswith(after[o]):
                after[o] = mfinal[o]
    drop = {'fmt', 'fmt!'}
    if fault and fault['via'] == 'serialise':
        drop.add('write!')        # the serialiser raised between two writes
    if fault and fault['via'] == 'badsource':
        drop |= {'openRead', 'openRead!'}   # open succeeded, load() of the malformed source raised
    mevents = [e for e in m['events'] if e not in drop]
    model = {'end': m['outcome']['end'], 'final': mfinal, 'events': mevents}
    impl = {'end': obs['outcome']['end'], 'final': after, 'events': [e for e in obs['events'] if e not in drop]}
    if m['outcome']['end'] == 'raised' or obs['outcome']['end'] == 'raised':
        # WHICH error reaches the caller: an Exception, or the BaseException of the fault plan (a KeyboardInterrupt must
        # not be swallowed by a handler of the protocol, nor an OSError be turned into one)
        kinds = {p_: k_ for p_, k_ in req['plan']}
        model['base'] = m['outcome']['end'] == 'raised' and kinds.get(m['outcome'].get('at')) == 'raiseBase'
        impl['base'] = bool(obs['outcome'].get('base'))
    rec['model'], rec['impl'] = model, impl
    rec['impl_detail'] = {'outcome': obs['outcome'], 'before': obs['before'], 'order': obs['order']}
    notes = []
    rec['counts'].append('outplan:' + str(m.get('outplan')))
    if not obs['ref']['ok'] and m.get('outplan') != 'toomany':
        notes.append(f"fault-free reference run of the implementation did not succeed: {obs['ref'].get('outcome')}")
    if sorted(obs['order']) != sorted(scn['matched']):
        notes.append(f"glob matched {obs['order']}, generator expected {scn['matched']}")
    if not tmp_ok:
        notes.append('bytes of a leftover temp file are not a prefix of what the model wrote to it')
    if not m.get('wholeEverywhere', True) and scn.get('mixed') != 'overlap':
        notes.append('model trace contains a state in which a source is neither original nor new')
    # ---- the route taken, job by job (as far as the implementation got)
    mroutes, iroutes = [], []
    for pos, j in enumerate(obs['jobs']):
        if j.get('direct'):
            iroutes.append('direct:' + str(j.get('out')))
        elif j.get('tmp'):
            iroutes.append('inplace')
        else:
            continue
        mroutes.append(m['routes'][pos] if pos < len(m.get('routes', [])) else None)
    model['routes'], impl['routes'] = mroutes, iroutes
    if mroutes != iroutes:
        notes.append(f'route differs: model {mroutes}, implementation {iroutes}')
    if model != impl:
        notes.append('observations differ')
    if notes:
        rec['mismatch'] = '; '.join(notes)
    if obs['ref']['ok'] and not (fault and fault.get('via') == 'badsource'):
        prob = new_content_problem(scn, obs['ref']['after'], obs)
        if prob:
            rec['ref_problem'] = prob
    # ---- the monitor, on the implementation's own before/after (in-place scenarios only; an in path that is a
    #      symlink replaces the link entry: the alias monitor judges those)
    link_in = list(obs.get('in_entries') or obs['order']) != list(obs['order'])
    if all(is_inplace(scn, s) for s in scn['matched']) and obs['ref']['ok'] and not link_in:
        srcs = [[s, obs['ref']['after'].get(s, '')] for s in scn['matched']]
        end = obs['outcome']['end']
        if end in ('ok', 'raised', 'killed'):
            v = drv.ask('fsrewrite.judge', before=[[n, d] for n, d in obs['before'].items()],
                        after=[[n, d] for n, d in after.items()], srcs=srcs, end=end)
            v['full'] = v['holds']
            double = bool(fault and fault.get('remove_fails'))
            if double:
                # the clean-up itself was made to fail: everything but "no temp left behind" is claimed
                # (theorems cleanup_failure_leaves_temp / model_holds_C15_dirty)
                v['holds'] = v['holdsDirty']
            rec['verdict'] = v
    # ---- file modes (not part of the property: observed and counted)
    if obs['outcome']['end'] == 'ok' and not fault:
        for s_, (mb, ma) in sorted((obs.get('modes') or {}).items()):
            if is_inplace(scn, s_) and ma is not None:
                rec['counts'].append(f'mode-after-inplace:{mb:o}->{ma:o}')
    rec['counts'] += ['step:' + scn['step'], 'layout:' + scn['layout'].split('-')[0],
                      'end:' + str(obs['outcome']['end']),
                      'fault:' + (f"{fault['op']}/{fault['kind']}/{fault['via']}" if fault else 'none'),
                      'jobs:' + str(len(obs['order']))]
    if fault and fault.get('remove_fails'):
        rec['counts'].append('double-fault' + ('-base' if fault['remove_fails'] == 'base' else ''))
    if fault and fault['kind'] == 'raiseBase':
        rec['counts'].append('base-exception:' + fault.get('exc', 'KeyboardInterrupt'))
    if scn.get('mixed') == 'overlap' and obs['outcome']['end'] != 'ok':
        first = scn['matched'][0]
        whole = after.get(first) in (obs['before'].get(first), obs['ref']['after'].get(first))
        rec['counts'].append('mixed-overlap:source-of-job1-' + ('whole' if whole else 'left-partial-by-job2'))
    return rec


def _spelled(path, relative):
    return repr(path) + ' (relative to cwd=<root>)' if relative else repr('<root>/' + path)


def _spelled_out(scn):
    o = scn.get('out')
    if not o:
        return '<absent>'
    if o['kind'] in I.FALSY_OUT:
        return {'none': 'None', 'empty': "''", 'emptyfmt': "'{outDir}' with outDir=''"}[o['kind']]
    rel = o.get('relative', scn['in'].get('relative'))
    return _spelled(o['path'] + ('/' if o['kind'] in ('dir', 'newdir') else ''), rel)


def absorb(res, rec):
    scn = rec['case']
    for c in rec.get('counts', []):
        res.count(c)
    if rec.get('skipped'):
        return
    if 'reject' in rec:
        res.count('rejected')
        res.mismatch(scn, {'reject': rec['reject']}, None, 'driver rejected a generated case')
        return
    res.case(scn, nontrivial=bool(scn.get('fault')))
    if rec.get('timeout'):
        fault = scn.get('fault') or {}
        res.violation(scn, f"the step did not return: {rec['timeout']} (a rewrite must end — ok, raising or dying — "
                           'for the all-or-nothing claim to mean anything)',
                      signature={'site': 'in_to_out', 'step': scn['step'], 'clauses': 'terminates',
                                 'fault': f"{fault.get('op', 'none')}/{fault.get('kind', '-')}/{fault.get('via', '-')}"},
                      impl={'end': 'timeout'})
        return
    if rec.get('alias'):
        fault = scn.get('fault') or {}
        clauses = sorted({c for c, _ in rec['alias']})
        what = ('out is another name of the in file' if scn['expect_inplace'] else 'out is a different file (control)')
        if scn.get('family') == 'outopt' and scn['expect_inplace']:
            what = ("out absent / None / '' or naming the in file or its directory: an in-place edit; cwd="
                    f"<root>/{scn.get('cwd') or ''} holds an unrelated file with the name of the in file")
        res.violation(
            scn,
            f"aliasing form {scn['layout'][6:]} ({what}; in={_spelled(scn['in']['paths'][0], scn['in'].get('relative'))}, "
            f"out={_spelled_out(scn)}): " + ' | '.join(t for _, t in rec['alias']),
            signature={'site': 'files_in_to_out.out' if scn.get('family') == 'outopt' else 'is_same_file',
                       'step': scn['step'], 'form': scn['layout'][6:],
                       'clauses': ','.join(clauses),
                       'fault': f"{fault.get('op', 'none')}/{fault.get('kind', '-')}/{fault.get('via', '-')}"},
            impl=rec.get('alias_obs'))
    if 'mismatch' in rec:
        res.mismatch(scn, rec['model'], rec['impl'], rec['mismatch'])
    if rec.get('ref_problem'):
        res.violation(scn, 'a rewrite that ended ok did not leave the complete new content: ' + rec['ref_problem'],
                      signature={'site': 'in_to_out', 'step': scn['step'], 'clauses': 'newContentComplete'},
                      impl={'end': 'ok', 'before': rec['impl_detail']['before']})
    v = rec.get('verdict')
    if v is not None and not v['holds']:
        fault = scn.get('fault') or {}
        clauses = [k for k in ('srcWhole', 'okAllNew', 'noExtra', 'noneMissing', 'unmatchedSame') if not v[k]]
        leftover = 'temp' if any(os.path.basename(n).startswith(('tmp#', 'tmp')) and n not in rec['impl_detail']['before']
                                 for n in rec['impl']['final']) else 'none'
        only_temp = clauses == ['noExtra'] and v.get('holdsDirty') and leftover == 'temp'
        cause = 'other'
        if only_temp and fault.get('kind') == 'raiseBase':
            # KeyboardInterrupt / SystemExit / GeneratorExit pass an `except Exception:` clean-up by (repaired by 66bb5ed)
            cause = 'base-exception-passes-except-Exception'
        elif only_temp and fault.get('op') == 'closeIn' and fault.get('kind') == 'raise':
            cause = 'source-close-fails-outside-try'
        exc = (rec['impl_detail']['outcome'] or {}).get('exc')
        res.violation(
            scn,
            f"C15 monitor false on the implementation's directory: clauses {clauses}; run ended {rec['impl']['end']}"
            + (f" ({exc})" if exc else '')
            + ('; the source is intact, but the temporary file is left in the directory while the process lives on'
               if only_temp else ''),
            signature={'site': 'in_to_out', 'step': scn['step'], 'clauses': ','.join(clauses),
                       'fault': f"{fault.get('op', 'none')}/{fault.get('kind', '-')}/{fault.get('via', '-')}",
                       'leftover': leftover, 'cause': cause},
            impl={'end': rec['impl']['end'], 'outcome': rec['impl_detail']['outcome'],
                  'before': rec['impl_detail']['before'], 'after': rec['impl']['final'],
                  'events': rec['impl']['events']})


CASE_TIMEOUT = 30
_timeouts = 0       # per harness process: after 2 the limit drops to 5 s, after 5 the remaining cases are skipped


class CaseTimeout(BaseException):
    """Raised by SIGALRM in the process running a case: not an `Exception`, so no handler of the tree under
    test can swallow it."""


import contextlib
import signal


@contextlib.contextmanager
def time_limit(sec):
    def on_alarm(_sig, _frm):
        raise CaseTimeout(f'no result within {sec} s')
    try:
        old = signal.signal(signal.SIGALRM, on_alarm)
    except ValueError:        # not the main thread: no guard available
        yield
        return
    signal.alarm(sec)
    try:
        yield
    finally:
        signal.alarm(0)
        signal.signal(signal.SIGALRM, old)


def guarded_case(drv, scn):
    """run_case with a time limit; whatever comes out of the tree under test that the harness does not
    classify (a hang, SystemExit, …) becomes a record, never a crash or a hang of the check."""
    global _timeouts
    if _timeouts >= 5:
        return {'case': scn, 'counts': ['skipped-after-timeouts'], 'skipped': True}
    try:
        with time_limit(CASE_TIMEOUT if _timeouts < 2 else 5):
            return run_case(drv, scn)
    except (common.Infra, KeyboardInterrupt):
        raise
    except CaseTimeout as e:
        _timeouts += 1
        try:                     # a request may be in flight: start the model driver afresh
            drv.close()
            drv.__init__()
        except Exception:
            pass
        return {'case': scn, 'counts': ['case-timeout'], 'timeout': str(e)}
    except BaseException as e:   # noqa: BLE001
        import traceback
        return {'case': scn, 'counts': ['harness-error'], 'model': None, 'impl': None,
                'mismatch': 'harness error: ' + ''.join(traceback.format_exception_only(type(e), e)).strip()
                            + ' @ ' + traceback.format_exc()[-600:]}



# --------------------------------------------------------------------------
# the fault space of the final rename (family `renamefault`)
# --------------------------------------------------------------------------

# every error rename(2) documents (+ ETXTBSY, EINTR): the classes a rename can be refused with
RENAME2_ERRNOS = ['EACCES', 'EBUSY', 'EDQUOT', 'EEXIST', 'EFAULT', 'EINVAL', 'EIO', 'EISDIR', 'ELOOP', 'EMLINK',
                  'ENAMETOOLONG', 'ENOENT', 'ENOMEM', 'ENOSPC', 'ENOTDIR', 'ENOTEMPTY', 'EPERM', 'EROFS', 'EXDEV',
                  'ETXTBSY', 'EINTR']
OSERROR_SUBCLASSES = {'PermissionError': ['EACCES', 'EPERM'], 'FileNotFoundError': ['ENOENT'], 'FileExistsError': ['EEXIST'],
                      'IsADirectoryError': ['EISDIR'], 'NotADirectoryError': ['ENOTDIR'], 'InterruptedError': ['EINTR'],
                      'BlockingIOError': ['EAGAIN'], 'TimeoutError': ['ETIMEDOUT'], 'ProcessLookupError': ['ESRCH'],
                      'ChildProcessError': ['ECHILD'], 'ConnectionError': ['EPIPE'], 'BrokenPipeError': ['EPIPE']}
MOVE_FUNCS = ('move_file', 'move_temp_file', 'remove_temp_file')
_FSSRC = {}


def fs_source_facts(repo=None):
    """Read pypyr/utils/filesystem.py of the tree under test by ast: for move_file / move_temp_file / remove_temp_file
    the calls they make (logger.* aside), whether every handler of the first two ends in a bare raise, the errno
    names / OSError subclasses these three test for; and every errno class the MODULE distinguishes anywhere."""
    import ast
    import errno as E
    repo = Path(repo or common.REPO)
    if repo in _FSSRC:
        return _FSSRC[repo]
    tree = ast.parse((repo / 'pypyr' / 'utils' / 'filesystem.py').read_text(encoding='utf-8'))

    def errnos_in(node):
        out = []
        for n in ast.walk(node):
            if isinstance(n, ast.Attribute) and isinstance(n.value, ast.Name) and n.value.id == 'errno' and n.attr.isupper():
                out.append(n.attr)
            elif isinstance(n, ast.ImportFrom) and n.module == 'errno':
                out += [a.name for a in n.names if a.name.isupper()]
            elif isinstance(n, ast.ExceptHandler) and n.type is not None:
                for t in ast.walk(n.type):
                    if isinstance(t, ast.Name) and t.id in OSERROR_SUBCLASSES:
                        out.append(t.id)
            elif isinstance(n, ast.Compare):
                # `ex.errno == 16`
                sides = [n.left] + list(n.comparators)
                if any(isinstance(x, ast.Attribute) and x.attr in ('errno', 'winerror') for x in sides):
                    for x in sides:
                        for c in ast.walk(x):
                            if isinstance(c, ast.Constant) and isinstance(c.value, int) and c.value in E.errorcode:
                                out.append(E.errorcode[c.value])
        seen = []
        for x in out:
            if x not in seen:
                seen.append(x)
        return seen
    funcs = {n.name: n for n in ast.walk(tree) if isinstance(n, ast.FunctionDef) and n.name in MOVE_FUNCS}
    calls, tests, reraise = {}, [], True
    for name in MOVE_FUNCS:
        fn = funcs.get(name)
        cs = []
        if fn is not None:
            found = sorted((n for n in ast.walk(fn) if isinstance(n, ast.Call)), key=lambda n: (n.lineno, n.col_offset))
            cs = [ast.unparse(n.func) for n in found]
            cs = [c for c in cs if not c.startswith('logger.')]
            tests += [t for t in errnos_in(fn) if t not in tests]
            if name != 'remove_temp_file':
                for h in (n for n in ast.walk(fn) if isinstance(n, ast.ExceptHandler)):
                    last = h.body[-1]
                    if not (isinstance(last, ast.Raise) and last.exc is None):
                        reraise = False
        else:
            reraise = False
        calls[name] = cs
    classes = []
    for t in errnos_in(tree):
        for e in OSERROR_SUBCLASSES.get(t, [t]):
            if hasattr(E, e) and e not in classes:
                classes.append(e)
    _FSSRC[repo] = {'calls': calls, 'tests': tests, 'reraise': reraise, 'module_errnos': classes}
    return _FSSRC[repo]


def extract(env):
    """lean/Generated/FsMove.lean: what move_file / move_temp_file / remove_temp_file of the tree under test call;
    Props/C15.lean `move_file_is_replace_only` proves it is os.replace and the clean-up only."""
    f = fs_source_facts()

    def lst(xs):
        return '[' + ', '.join('"' + x.replace('\\', '').replace('"', "'") + '"' for x in xs) + ']'
    text = ('/- GENERATED by harness/props/c15.py `extract` from pypyr/utils/filesystem.py of the tree under test (ast only). '
            'Do not edit. -/\n'
            'namespace Pypyr.Generated.FsMove\n\n'
            '/-- every call in the body of `move_file`, in source order, except `logger.*` -/\n'
            f'def moveFileCalls : List String := {lst(f["calls"]["move_file"])}\n\n'
            '/-- … of `move_temp_file` -/\n'
            f'def moveTempFileCalls : List String := {lst(f["calls"]["move_temp_file"])}\n\n'
            '/-- … of `remove_temp_file` -/\n'
            f'def removeTempFileCalls : List String := {lst(f["calls"]["remove_temp_file"])}\n\n'
            '/-- errno names / OSError subclasses the three functions test for (`ex.errno == errno.X`, `except PermissionError`, …) -/\n'
            f'def errnoTests : List String := {lst(f["tests"])}\n\n'
            '/-- every `except` handler of `move_file` and `move_temp_file` ends in a bare `raise` -/\n'
            f'def handlersReraise : Bool := {"true" if f["reraise"] else "false"}\n\n'
            'end Pypyr.Generated.FsMove\n')
    out = common.LEAN / 'Generated' / 'FsMove.lean'
    if not out.exists() or out.read_text() != text:
        out.write_text(text)


def rename_errnos():
    """the errno classes the final rename is refused with: none at all (a bare OSError), everything rename(2) documents,
    and every class pypyr/utils/filesystem.py of the tree under test tests for anywhere (read by ast): a branch on an
    errno is a branch to visit"""
    out = [None] + list(RENAME2_ERRNOS)
    for e in fs_source_facts()['module_errnos']:
        if e not in out:
            out.append(e)
    return out


def rename_fault_monitor(scn, obs):
    """C15 on what the implementation did after its final rename was refused, from the property text:
    * "the source path at every instant holds either the complete original bytes or the complete new content": the
      source is read after EVERY os / shutil / open / file call made from the refusal on, at the second fault, and at
      the end;
    * "if … the final rename … fails, or the process dies part-way, the original file is byte-for-byte intact": a
      refused rename ends in an error (never in success: whatever then put new bytes into the source was not the
      rename), with the original in place; no temp file stays unless the clean-up itself was made to fail."""
    out = []
    rf = scn['rf']
    recs = obs['records']
    fault = next((r for r in recs if 'fault' in r), None)
    if fault is None:
        return out
    src = fault['dst']
    orig, new = obs['before'].get(src), obs['ref_after'].get(src)
    end = obs['outcome']['end']
    sig = {'site': 'move_file', 'family': 'renamefault', 'step': scn['step'], 'errno': rf.get('errno') or 'none',
           'second': (rf['second']['mode'] + '@' + rf['second'].get('name', '?')) if rf.get('second') else 'none'}

    def what(hx):
        return ('the complete original' if hx == orig else 'the complete new content' if hx == new
                else 'nothing (absent)' if hx is None else f'NEITHER ({len(hx) // 2} bytes; original {len(orig) // 2}, new {len(new) // 2})')
    for r in recs:
        if 'src' in r and r['src'] not in (orig, new):
            where = (f"at the injected {r.get('second')} in call #{r.get('at')} {r.get('call')}" if 'second' in r
                     else f"after call #{r['i']} {r['call']}" if 'call' in r else 'when the rename was refused')
            out.append((dict(sig, clause='srcWhole'),
                        f"os.{fault['at'].split('.')[-1]} onto {src} refused ({rf.get('errno') or 'OSError without errno'}): {where} "
                        f"the source path holds {what(r['src'])}"))
            break
    final = obs['after'].get(src)
    if end == 'ok':
        out.append((dict(sig, clause='failedRenameReported'),
                    f"the final rename onto {src} was refused ({rf.get('errno') or 'OSError without errno'}) and the step reported "
                    f"success; the source now holds {what(final)}"
                    + (' written through its own inode (same st_ino): truncate + write, not a rename' if obs['same_inode'].get(src) and final != orig else '')
                    + f"; calls made after the refusal: {[r['call'] for r in recs if 'call' in r and 'i' in r][:12]}"))
    elif end == 'raised' and final != orig:
        out.append((dict(sig, clause='raisedOriginalIntact'),
                    f"the rewrite raised ({obs['outcome'].get('exc')}) after its rename onto {src} was refused, and the source holds {what(final)}"))
    elif end == 'killed' and final not in (orig, new):
        out.append((dict(sig, clause='killedSrcWhole'),
                    f"the process died after the rename onto {src} was refused (second fault {sig['second']}) and the source holds {what(final)}"))
    elif end in ('timeout', 'child-crashed'):
        out.append((dict(sig, clause='terminates'), f"the step ended {obs['outcome']} after its rename was refused"))
    if end == 'raised' and not rf.get('second') and obs['names_after'] != obs['names_before']:
        extra = sorted(set(obs['names_after']) ^ set(obs['names_before']))
        out.append((dict(sig, clause='noExtra'), f"the rewrite raised after its rename was refused and the directory entries changed: {extra}"))
    others = {k: v for k, v in obs['after'].items() if k != src and k in obs['before'] and v != obs['before'][k]
              and obs['ref_after'].get(k) != v}
    if others:
        out.append((dict(sig, clause='unmatchedSame'), f"files other than the one being renamed over changed: {sorted(others)}"))
    return out


def run_rename_case(scn):
    """one `renamefault` case -> record for `absorb_rename`"""
    obs = I.observe_rename_fault(scn)
    # in the order the calls were ENTERED (a nested call returns, and is recorded, before the call it is made from)
    calls = [c for _, c in sorted((r['i'], r['call']) for r in obs['records'] if 'call' in r and 'i' in r)]
    return {'case': scn, 'obs': {'outcome': obs['outcome'], 'calls': calls,
                                 'intact': obs['after'] == obs['before'], 'records': obs['records'][:60],
                                 'names_after': obs['names_after']},
            'fired': any('fault' in r for r in obs['records']), 'ref_ok': obs['ref_ok'],
            'violations': rename_fault_monitor(scn, obs)}


def rename_scenarios(quick):
    keep = ('single-3',) if quick else ('single-1', 'single-3', 'list-2', 'same-dotslash', 'relative')
    return [dict(copy.deepcopy(b), family='renamefault') for b in base_scenarios(quick) if b['layout'] in keep]


def check_rename_faults(env, res, workers=1):
    """Stage 1: every step x every errno class at the final rename. The model has ONE failure behaviour for a refused
    rename (raise, original in place, temp removed): the outcome, the calls made afterwards and the directory must not
    depend on the errno class (mismatch otherwise). Stage 2: for every distinct behaviour seen in stage 1, every call
    made after the refusal is a fault point (raise ENOSPC before it / die before it / do half of a data-moving call,
    then raise or die / die after the last one)."""
    scns = rename_scenarios(env.quick)
    errnos = rename_errnos()
    res.extra['rename_errno_classes'] = [e or 'none' for e in errnos]
    res.extra['errnos_tested_by_the_code'] = fs_source_facts()['module_errnos']
    stage1 = [dict(b, rf={'errno': e, 'second': None}) for b in scns for e in errnos]
    recs1 = _rename_run_all(env, stage1, workers)
    groups = {}
    for rec in recs1:
        absorb_rename(res, rec)
        scn = rec['case']
        key = (scn['step'], scn['layout'])
        base = groups.setdefault(key, {})
        beh = json.dumps([rec['obs']['outcome'].get('end'), rec['obs']['calls'], rec['obs']['intact']])
        base.setdefault(beh, rec)
    stage2 = []
    for key, behs in groups.items():
        first = next(iter(behs.values()))
        for beh, rec in behs.items():
            if rec is not first:
                res.mismatch(rec['case'],
                             {'a refused rename, any errno class': {'end': first['obs']['outcome'].get('end'), 'calls after': first['obs']['calls'], 'directory as before': first['obs']['intact']}},
                             {'errno ' + str(rec['case']['rf']['errno']): {'end': rec['obs']['outcome'].get('end'), 'calls after': rec['obs']['calls'], 'directory as before': rec['obs']['intact']}},
                             'the implementation treats this errno class of the final rename differently: the model has one failure behaviour (move = atomic replace or failure)')
            calls = rec['obs']['calls']
            for k, name in enumerate(calls):
                modes = ['raise', 'kill']
                if name in I.DATA_CALLS:
                    modes += ['partial-raise', 'partial-kill']
                if k == len(calls) - 1:
                    modes.append('kill-after')
                if env.quick and rec is first and name in ('os.fspath', 'os.getpid', 'os.strerror', 'os.getcwd'):
                    modes = modes[:1] if k % 3 == 0 else []
                for m in modes:
                    stage2.append(dict(rec['case'], rf={'errno': rec['case']['rf']['errno'], 'second': {'k': k, 'mode': m, 'name': name}}))
    res.extra['rename_fault_cases'] = [len(stage1), len(stage2)]
    for rec in _rename_run_all(env, stage2, workers):
        absorb_rename(res, rec)


def _rename_worker(scn):
    common.use_repo()
    return guarded_rename_case(scn)


def guarded_rename_case(scn):
    try:
        with time_limit(CASE_TIMEOUT):
            return run_rename_case(scn)
    except (common.Infra, KeyboardInterrupt):
        raise
    except CaseTimeout as e:
        return {'case': scn, 'timeout': str(e)}
    except BaseException as e:   # noqa: BLE001
        import traceback
        return {'case': scn, 'error': ''.join(traceback.format_exception_only(type(e), e)).strip() + ' @ ' + traceback.format_exc()[-500:]}


def _rename_run_all(env, scns, workers):
    if workers <= 1 or len(scns) < 8:
        return [guarded_rename_case(s) for s in scns]
    import multiprocessing as mp
    with mp.get_context('fork').Pool(workers) as pool:
        return pool.map(_rename_worker, scns, chunksize=4)


def absorb_rename(res, rec):
    scn = rec['case']
    rf = scn['rf']
    res.case(scn, nontrivial=True)
    res.count('renamefault')
    res.count('renamefault:errno:' + str(rf.get('errno') or 'none'))
    res.count('renamefault:step:' + scn['step'])
    if rf.get('second'):
        res.count('renamefault:second:' + rf['second']['mode'] + '@' + rf['second'].get('name', '?'))
    if rec.get('timeout') or rec.get('error'):
        if rec.get('timeout'):
            res.violation(scn, f"the step did not return after its rename was refused: {rec['timeout']}",
                          signature={'site': 'move_file', 'family': 'renamefault', 'step': scn['step'], 'clause': 'terminates'},
                          impl={'end': 'timeout'})
        else:
            res.mismatch(scn, None, {'harness error': rec['error']}, 'harness error in the renamefault family')
        return
    res.count('renamefault:end:' + str(rec['obs']['outcome'].get('end')))
    if not rec['ref_ok']:
        res.mismatch(scn, {'reference run': 'ok'}, {'reference run': 'failed'}, 'the fault-free reference run failed')
    if not rec['fired']:
        res.mismatch(scn, {'final step': 'os.replace / os.rename onto the source'}, {'calls': rec['obs']['calls'], 'end': rec['obs']['outcome']},
                     'an in-place rewrite finished without any os.replace / os.rename onto the source: the model ends in a rename')
    for sig, detail in rec['violations'][:3]:
        res.violation(scn, f"{sig['clause']}: {detail}", signature=sig, impl=rec['obs'])

# --------------------------------------------------------------------------
# every call the step makes is a fault point (family `stepfault`)
# --------------------------------------------------------------------------

def step_fault_monitor(scn, obs):
    """C15 from the property text, for ONE fault at a call the traced run of the step was seen to make:
    * the source path at every instant holds the complete original or the complete new content (read after every
      traced call, at the fault and at the end);
    * a rewrite that fails by raising leaves no temporary or partial file behind in the directory;
    * a rewrite that reports success leaves what the fault-free run leaves;
    * files not matched by `in` stay as they were; the step returns."""
    out = []
    at = scn['sf']['at']
    recs = obs['records']
    end = obs['outcome']['end']
    sig = {'site': 'step', 'family': 'stepfault', 'step': scn['step'], 'call': at['name'], 'mode': at['mode']}
    srcs = list(scn['matched'])
    orig = {s: obs['before'].get(s) for s in srcs}
    new = {s: obs['ref_after'].get(s) for s in srcs}
    where_fault = f"{at['mode']} injected at call #{at['ord']} of {at['name']}"

    def what(s, hx):
        return ('the complete original' if hx == orig[s] else 'the complete new content' if hx == new[s]
                else 'nothing (absent)' if hx is None
                else f'NEITHER ({len(hx) // 2} bytes; original {len(orig[s] or "") // 2}, new {len(new[s] or "") // 2})')
    done = False
    for r in recs:
        for s, hx in (r.get('src') or {}).items():
            if s in orig and hx not in (orig[s], new[s]):
                where = ('at the injected fault' if 'fault' in r else f"after call {r.get('call')}#{r.get('ord')}")
                out.append((dict(sig, clause='srcWhole'), f"{where_fault}: {where} the source {s} holds {what(s, hx)}"))
                done = True
                break
        if done:
            break
    final_bad = [s for s in srcs if obs['after'].get(s) not in (orig[s], new[s])]
    if final_bad and end in ('ok', 'raised', 'killed'):
        s = final_bad[0]
        out.append((dict(sig, clause='srcWholeAtEnd'), f"{where_fault}: the step ended {end} and the source {s} holds {what(s, obs['after'].get(s))}"))
    if end == 'raised' and obs['names_after'] != obs['names_before']:
        extra = sorted(set(obs['names_after']) ^ set(obs['names_before']))
        out.append((dict(sig, clause='noExtra'),
                    f"{where_fault}: the rewrite raised ({obs['outcome'].get('exc')}) and the directory entries changed: {extra} "
                    f"(a file the rewrite made stays behind)"))
    elif end == 'ok' and obs['names_after'] != obs['names_before']:
        # (a fault the library swallows - glob's lstat, os.path.isfile - may leave the source unrewritten: old content, fine)
        extra = sorted(set(obs['names_after']) ^ set(obs['names_before']))
        out.append((dict(sig, clause='okSameEntries'),
                    f"{where_fault}: the step reported success and the directory entries changed: {extra}"))
    elif end in ('timeout', 'child-crashed'):
        out.append((dict(sig, clause='terminates'), f"{where_fault}: the step ended {obs['outcome']}"))
    others = sorted(k for k, v in obs['after'].items() if k not in srcs and k in obs['before'] and v != obs['before'][k])
    if others:
        out.append((dict(sig, clause='unmatchedSame'), f"{where_fault}: files not matched by in changed: {others}"))
    return out


def run_step_fault_case(scn):
    obs = I.observe_step_fault(scn)
    recs = obs['records']
    calls = [[r['call'], r['ord']] for r in recs if 'call' in r and 'ord' in r]
    rec = {'case': scn, 'ref_ok': obs['ref_ok'], 'calls': calls, 'fired': any('fault' in r for r in recs),
           'obs': {'outcome': obs['outcome'], 'calls': calls, 'names_after': obs['names_after'],
                   'records': [{k: v for k, v in r.items() if k != 'src'} for r in recs][:40]},
           'violations': []}
    if scn['sf'].get('at'):
        rec['violations'] = step_fault_monitor(scn, obs)
    else:
        rec['trace_same'] = obs['after'] == obs['ref_after'] and obs['outcome'].get('end') == 'ok'
    return rec


def guarded_step_fault_case(scn):
    try:
        with time_limit(CASE_TIMEOUT):
            return run_step_fault_case(scn)
    except (common.Infra, KeyboardInterrupt):
        raise
    except CaseTimeout as e:
        return {'case': scn, 'timeout': str(e)}
    except BaseException as e:   # noqa: BLE001
        import traceback
        return {'case': scn, 'error': ''.join(traceback.format_exception_only(type(e), e)).strip() + ' @ ' + traceback.format_exc()[-500:]}


def _step_fault_worker(scn):
    common.use_repo()
    return guarded_step_fault_case(scn)


def _step_fault_run_all(scns, workers):
    if workers <= 1 or len(scns) < 8:
        return [guarded_step_fault_case(s) for s in scns]
    import multiprocessing as mp
    with mp.get_context('fork').Pool(workers) as pool:
        return pool.map(_step_fault_worker, scns, chunksize=4)


# /repo candidate (reported to main, undecided): is_same_file asks os.path.isfile, which turns EVERY OSError of stat(2)
# into False: one failing stat on `out` or `in` and out == in (spelled differently) is taken for another file - the
# step opens the source for writing while reading it (source truncated, step reports success). Counted, listed in
# extra.candidate_findings; a violation only when this is True.
REPORT_SAMEFILE_STAT_SWALLOWED = False
SAMEFILE_SIG = {'site': 'is_same_file', 'cause': 'stat-fault-swallowed-by-isfile'}


def samefile_stat_swallowed(scn, rec):
    at = scn['sf'].get('at') or {}
    fault = next((r for r in rec['obs']['records'] if 'fault' in r), {})
    return (at.get('name') == 'os.stat' and at.get('mode', '').startswith('raise') and 'is_same_file' in (fault.get('within') or [])
            and rec['obs']['outcome'].get('end') == 'ok' and (scn.get('out') or {}).get('kind') == 'same')


PURE_CALLS = ('os.fspath', 'os.fsencode', 'os.fsdecode', 'os.getcwd', 'os.getpid', 'os.strerror')


def step_fault_scenarios(quick):
    keep = ('single-3', 'same-dotslash', 'relative') if quick else \
        ('single-1', 'single-3', 'list-2', 'same-dotslash', 'same-updir', 'relative', 'relative-sub', 'glob-3')
    return [dict(copy.deepcopy(b), family='stepfault') for b in base_scenarios(quick) if b['layout'] in keep]


def check_step_faults(env, res, workers=1):
    """Stage 1: the step is run once per scenario with every public function of os / shutil and open traced (calls that
    mention a path under the scratch root or a descriptor opened there): the trace IS the fault plan. Stage 2: one run
    per traced call (function, ordinal) x {PermissionError(EPERM), OSError(ENOSPC), death before the call} on a fresh
    copy of the files."""
    scns = step_fault_scenarios(env.quick)
    stage1 = [dict(b, sf={'at': None}) for b in scns]
    stage2 = []
    seen_calls = {}
    for rec in _step_fault_run_all(stage1, workers):
        absorb_step_fault(res, rec)
        if rec.get('timeout') or rec.get('error'):
            continue
        if not rec.get('trace_same'):
            res.mismatch(rec['case'], {'traced run': 'as the untraced run'}, {'traced run': rec['obs']['outcome'], 'calls': rec['calls']},
                         'the traced, fault-free run of the step did not give what the untraced run gives')
            continue
        if not any(c[0] in ('os.replace', 'os.rename') for c in rec['calls']):
            res.mismatch(rec['case'], {'final step': 'os.replace / os.rename'}, {'calls': rec['calls']},
                         'an in-place rewrite was traced without a rename: the model ends in a rename')
        for name, n in rec['calls']:
            seen_calls[name] = seen_calls.get(name, 0) + 1
            modes = list(I.STEP_FAULT_MODES)
            if name in PURE_CALLS:
                # no system call behind these: one raise each in thorough, every third in quick
                modes = ['raise-os'] if (not env.quick or n % 3 == 0) else []
            for m in modes:
                stage2.append(dict(rec['case'], sf={'at': {'name': name, 'ord': n, 'mode': m}}))
    res.extra['step_fault_calls_traced'] = seen_calls
    res.extra['step_fault_cases'] = [len(stage1), len(stage2)]
    for rec in _step_fault_run_all(stage2, workers):
        absorb_step_fault(res, rec)


def absorb_step_fault(res, rec):
    scn = rec['case']
    at = scn['sf'].get('at')
    res.case(scn, nontrivial=bool(at))
    res.count('stepfault')
    res.count('stepfault:step:' + scn['step'])
    if at:
        res.count('stepfault:at:' + at['name'] + ':' + at['mode'])
    if rec.get('timeout'):
        res.violation(scn, f"the step did not return ({'fault at ' + at['name'] if at else 'traced run'}): {rec['timeout']}",
                      signature={'site': 'step', 'family': 'stepfault', 'step': scn['step'], 'clause': 'terminates'}, impl={'end': 'timeout'})
        return
    if rec.get('error'):
        res.mismatch(scn, None, {'harness error': rec['error']}, 'harness error in the stepfault family')
        return
    res.count('stepfault:end:' + str(rec['obs']['outcome'].get('end')))
    if not rec['ref_ok']:
        res.mismatch(scn, {'reference run': 'ok'}, {'reference run': 'failed'}, 'the fault-free reference run failed')
    if at and not rec['fired']:
        res.mismatch(scn, {'call reached': at}, {'calls': rec['calls'], 'end': rec['obs']['outcome']},
                     'a call seen in the traced run was not reached in the run that was to fault it: the step is not a function of its inputs')
    vs = rec['violations'][:3]
    if vs and samefile_stat_swallowed(scn, rec) and all(sig['clause'] in ('srcWhole', 'srcWholeAtEnd') for sig, _ in vs):
        res.count('stepfault:candidate:' + SAMEFILE_SIG['cause'])
        if len(res.extra.setdefault('candidate_findings', [])) < 4:
            res.extra['candidate_findings'].append({'signature': SAMEFILE_SIG, 'step': scn['step'], 'layout': scn['layout'],
                                                   'at': scn['sf']['at'], 'detail': vs[0][1]})
        if not REPORT_SAMEFILE_STAT_SWALLOWED:
            return
        vs = [(dict(sig, **SAMEFILE_SIG), d) for sig, d in vs]
    for sig, detail in vs:
        res.violation(scn, f"{sig['clause']}: {detail}", signature=sig, impl=rec['obs'])


# --------------------------------------------------------------------------
# sharded execution
# --------------------------------------------------------------------------

_worker_drv = None


def _worker(scn):
    global _worker_drv
    if _worker_drv is None:
        common.use_repo()
        _worker_drv = common.Driver()
    return guarded_case(_worker_drv, scn)


def run_all(env, scns, workers):
    if workers <= 1 or len(scns) < 8:
        return [guarded_case(env.driver, s) for s in scns]
    import multiprocessing as mp
    ctx = mp.get_context('fork')
    with ctx.Pool(workers) as pool:
        return pool.map(_worker, scns, chunksize=4)


def with_fault(base, f):
    s = copy.deepcopy(base)
    s['fault'] = f
    return s


def run(env, res):
    res.rule = ('directed base scenarios (5 steps x single/list/glob/recursive-glob/relative/out-equal-in/out-dir/'
                'direct layouts x 1..6 lines or tokens x encodings), each first run fault-free, then with ONE fault at '
                'every modelled point of every matched file (sameFile, openRead, mkTemp, fmt k, write k, close, replace '
                'x raise|kill; natural faults: missing key, unserialisable node, malformed source; double fault with '
                'os.remove failing). quick = all op kinds at first/middle/last k + seeded sample of the rest; '
                'thorough = exhaustive. Aliasing family: 5 steps x 20 forms of out vs in (identical string, relative vs '
                'absolute, .., symlink, symlink chain, symlinked directory, hard link (same dir / other dir / relative / '
                'through a symlink / as out directory), controls: copy, symlink to a copy, same name in another '
                'directory; in itself a symlink: monitor only) x {no fault, formatting failure, write fault first/last, '
                'rename fault, death at first write} (+1 random point) in quick, every fault point in thorough; the '
                'source path is read after every observable operation. Out-option family: 5 steps x out in {absent, None, '
                "'', '{outDir}' with outDir='', the directory of in with/without the separator, a path equal to in (absolute / "
                'relative to cwd), another directory with/without the separator, ./ } x cwd in {a directory holding an unrelated '
                'file with the NAME of the in file, the directory of in, the root} x in absolute/relative; same-named bystander '
                'files in cwd, in the root and in the out directory; a glob of two files with every falsy out; several files to '
                'one out file (Error before anything is opened) - same fault selection as the aliasing family. Encoding family: '
                '8 combinations of encoding/encodingIn/encodingOut x {no out, out equal to in, out another file}: what is '
                'written must decode in the OUT encoding on every route. Fault kinds: raise (OSError / the natural Exception), '
                'raiseBase (KeyboardInterrupt at every fault point incl. formatting; SystemExit and GeneratorExit at the last write and '
                'the rename; KeyboardInterrupt inside the clean-up os.remove), kill; the close of the SOURCE file (closeIn) is a fault '
                'point of its own. Overlap family: in matching a file twice (list of overlapping patterns, the same path twice, a glob '
                'matching a symlink and its target), faults in the first and in the second rewrite; mixed runs (in: [d1/a, d2/a], out: d1/ '
                '= job 1 in place, job 2 a direct write onto job 1 source; and the disjoint control). in itself a symlink: modelled '
                '(the link entry is replaced). The error that reaches the caller is compared by kind (Exception vs BaseException). '
                'File modes before/after a successful in-place rewrite are counted (extra.mode_after_inplace). A case that does not return within the time limit is a '
                'violation (terminates; limit 30 s, after repeated time-outs in one worker 5 s, then the rest is skipped). Stepfault family: the in-place layouts are run once with every public function of os / shutil and open traced (calls on paths / descriptors under the scratch root, import-time aliases in pypyr modules included); the trace is the fault plan: one run per (function, ordinal) x {PermissionError, OSError, death before the call}; the sources are read after every traced call. non-trivial = a case with a fault')
    workers = env.n(8, 14)
    bases = base_scenarios(env.quick)
    # phase 1: every base scenario fault-free (also yields the number of writes per file)
    recs = run_all(env, bases, workers)
    ks_of = []
    for b, r in zip(bases, recs):
        absorb(res, r)
        ks = {}
        if r.get('impl') and r['impl']['end'] == 'ok':
            # number of writes per source = number of 'write' events between its sameFile events
            cur, order = -1, r['impl_detail']['order']
            for e in r['impl']['events']:
                if e == 'sameFile':
                    cur += 1
                    if cur < len(order):
                        ks[order[cur]] = 0
                elif e == 'write' and 0 <= cur < len(order):
                    ks[order[cur]] += 1
        if b['layout'].startswith('alias-'):
            # the number of writes is needed to place the faults even if the fault-free run went wrong
            for src in b['matched']:
                if not ks.get(src):
                    spec = dict((rel, sp) for rel, sp in b['files'])[src]
                    ks[src] = len(spec['lines']) if 'lines' in spec else 1
        ks_of.append(ks)
    # phase 2: faults
    cases = []
    for b, ks in zip(bases, ks_of):
        pts = fault_points(b, ks)
        if b['layout'].startswith('alias-') or b.get('family') == 'outopt':
            # aliasing forms x {formatting failure, write fault, rename fault, death while writing}
            if env.quick:
                def want(f, k=None):
                    k = ks.get(f['src'], 0)
                    if f.get('remove_fails') or f.get('first'):
                        return False
                    if f['via'] in ('missing', 'serialise'):
                        return f['n'] in (0, 1, k)
                    if f['via'] == 'inject' and f['op'] == 'write':
                        return (f['kind'] == 'raise' and f['n'] in (1, k)) or (f['kind'] == 'kill' and f['n'] == 1)
                    return f['via'] == 'inject' and f['op'] == 'replace' and f['kind'] == 'raise'
                rest = [f for f in pts if not want(f)]
                env.rng.shuffle(rest)
                pts = [f for f in pts if want(f)] + rest[:1]
            # BaseExceptions and the close of the source file: exercised on the plain layouts
            pts = [f for f in pts if f['kind'] != 'raiseBase' and f.get('remove_fails') != 'base'
                   and not (f['op'] == 'closeIn' and f['kind'] == 'raise')]
            if not b.get('expect_inplace', True):
                pts = [f for f in pts if f['op'] not in ('replace', 'mkTemp')]
        elif env.quick:
            core = b['layout'] in ('single-3', 'list-2', 'same-dotslash', 'glob-3', 'dup-list', 'dup-globlink',
                                   'mixed-overlap', 'mixed-disjoint')
            keep = []
            for f in pts:
                k = ks.get(f['src'], 0)
                edge = f['n'] in (0, 1, k, (k + 1) // 2)
                if core and edge and (b['layout'] == 'single-3' or
                                      f['op'] in ('fmt', 'write', 'replace', 'mkTemp', 'closeIn', 'openWrite')):
                    keep.append(f)
            rest = [f for f in pts if f not in keep]
            env.rng.shuffle(rest)
            keep += rest[:2]
            pts = keep
        elif not (b['layout'].startswith(('single-', 'dup-', 'mixed-')) or b['layout'] in ('list-2', 'glob-3', 'same-dotslash')):
            # thorough, the other layouts (encodings, out directories, recursive globs, …): Exceptions and kills at
            # every point as before; BaseExceptions at the last write, the close of the source and the rename
            pts = [f for f in pts if f['kind'] != 'raiseBase' or
                   (f['op'] in ('replace', 'closeIn') or (f['op'] == 'write' and f['n'] == ks.get(f['src'], 0)))
                   and not f.get('exc')]
        cases += [with_fault(b, f) for f in pts]
    for r in run_all(env, cases, workers):
        absorb(res, r)
    # phase 3: the fault space of the final rename
    check_rename_faults(env, res, workers)
    # phase 4: every os / shutil / open call of the whole step as a fault point, the plan read off a traced run
    check_step_faults(env, res, workers)
    res.extra['base_scenarios'] = len(bases)
    res.extra['fault_plans'] = len(cases)
    res.extra['mode_after_inplace'] = {k.split(':', 1)[1]: v for k, v in res.distribution.items()
                                        if k.startswith('mode-after-inplace:')}


def replay(env, res, payload):
    scn = payload.get('case')
    if scn is None and payload.get('first_diverging_case'):
        scn = payload['first_diverging_case'].get('case')
    if scn is None:
        scn = payload
    if scn.get('family') == 'renamefault' and scn.get('rf'):
        rec = guarded_rename_case(scn)
        absorb_rename(res, rec)
        res.extra['replayed'] = rec.get('obs')
        return
    if scn.get('family') == 'stepfault' and scn.get('sf'):
        rec = guarded_step_fault_case(scn)
        absorb_step_fault(res, rec)
        res.extra['replayed'] = rec.get('obs')
        return
    absorb(res, guarded_case(env.driver, scn))
