"""C11, object level - pype with a context of its own: "the parent context is unaffected by anything the
child does except for the keys named in out".

The flow-level check (harness/props/c11.py) compares VALUES; a context holds OBJECTS.  This stream runs
the real `pypyr.steps.pype` (own context: `useParentContext: false`, or left out next to `args`) on
parents whose context holds nested lists / dicts / sets / tuples, bytearrays and instances of a user
class (shared between keys now and then), with `args` that are

    literal values | '{key}' | '{key:rf}' | '{key[sub]}' (single expressions: formatted again = rebuilt)
    | '{key:ff}' | '{key[sub]:ff}' (flat: the object itself)            - at the top of args or one dict down,

a child that CHANGES EVERYTHING IT WAS GIVEN IN PLACE (py: append / item assignment / add / slice
assignment on a bytearray / attribute assignment; pypyr.steps.append; through a tuple or a list to what
is inside), makes new keys, ends normally or raises (`raiseError` true / false), and `out` as str / list /
mapping (now and then naming a key the child does not have).

Monitor, from the property text alone (no model): the deep value of the parent context after the pype
step, the keys named in `out` (and the step's own `pype` argument) left aside, must be the deep value
before it; the out keys must hold the child's values.  A violation names what the child and the parent
share by id(): a container handed over by `:ff`, or an object that is not a container (formatting hands
those back as they are).

Correspondence: the same step on the heap model (`heap.runExec`: parent = run 1, child = run 2, operations
`start` / `fmtFrom … byRef` / the child's in-place operations / `fmtFrom` for out; theorems
lean/Props/C11Heap.lean): deep values of both contexts afterwards, which of the parent's objects the child
reaches (id() on the implementation, `foreignReach` in the model), whether the parent reaches an object of
the child's, outcomes.

Wiring (harness/props/c11.py, owned elsewhere):   from . import c11_heap
    LEAN_MODULES += c11_heap.LEAN_MODULES;  in run(): c11_heap.run(env, res);
    in replay(): `if c11_heap.owns(case): return c11_heap.replay(env, res, case)` before the flow replay.
"""
from __future__ import annotations

import collections.abc as cabc
import copy

from .. import common
from .. import impl_c12 as I
from ..common import canon

LEAN_MODULES = ['Props.C11Heap']
TRUSTED = ['harness/props/c11_heap.py (pype-step generator with its object-level reading, id()-graph walker, monitor)']
ASSUMPTIONS = ['brace-free values in the contexts (formatting changes no leaf); dict keys are strings',
               'an object that is neither an atom nor list / tuple / set / dict is modelled as an opaque mutable object '
               '(bytearray, instances of the harness class Box); paths do not lead through attributes']

KIND = 'pype-heap'
SIG_FF = {'site': 'pype.args', 'alias': 'ff-reference-to-parent-container', 'monitor': 'parent-changed-without-out'}
SIG_LEAF = {'site': 'pype.args', 'alias': 'mutable-non-container-shared-by-formatting',
            'monitor': 'parent-changed-without-out'}
SIG_OTHER = {'site': 'pype', 'monitor': 'parent-changed-without-out'}


class Box:
    """An instance of a user class: a mutable object that is not a container."""

    def __init__(self, **kw):
        self.__dict__.update(kw)

    def __repr__(self):
        return f'Box({self.__dict__!r})'


def owns(case):
    return isinstance(case, dict) and case.get('kind') == KIND


# ---------------------------------------------------------------------------------------------
# values with identity: spec (JSON-able, sharing by label) <-> Python objects, wire form, model blocks
# ---------------------------------------------------------------------------------------------
# spec := atom | {'l': [spec…]} | {'t': [spec…]} | {'s': [atom…]} | {'d': [[key, spec]…]} | {'ba': hex}
#         | {'box': [[attr, spec]…]} | {'ref': label}; any container/obj spec may carry 'id': label

def build(spec, env=None):
    env = {} if env is None else env

    def go(s):
        if not isinstance(s, dict):
            return s
        if 'ref' in s:
            return env[s['ref']]
        if 'l' in s:
            o = [go(x) for x in s['l']]
        elif 't' in s:
            o = tuple(go(x) for x in s['t'])
        elif 's' in s:
            o = set(s['s'])
        elif 'd' in s:
            o = {k: go(v) for k, v in s['d']}
        elif 'ba' in s:
            o = bytearray(bytes.fromhex(s['ba']))
        elif 'box' in s:
            o = Box(**{k: go(v) for k, v in s['box']})
        else:
            raise common.Infra(f'bad value spec {s}')
        if 'id' in s:
            env[s['id']] = o
        return o
    return go(spec)


def is_atom(o):
    return I.is_atom(o)


def kids(o):
    if isinstance(o, cabc.Mapping):
        return list(o.values())
    if isinstance(o, (list, tuple)):
        return list(o)
    if isinstance(o, (cabc.Set, bytearray)) or is_atom(o):
        return []
    return list(vars(o).values()) if hasattr(o, '__dict__') else []


def reach(root):
    seen, todo = {}, [root]
    while todo:
        o = todo.pop()
        if is_atom(o) or id(o) in seen:
            continue
        seen[id(o)] = o
        todo.extend(kids(o))
    return seen


def deep_immutable(o):
    if is_atom(o) or isinstance(o, frozenset):
        return True
    return isinstance(o, tuple) and all(deep_immutable(x) for x in o)


def wire(o, depth=0):
    """Deep snapshot (sets sorted); an opaque object as the mapping of its attributes + `__obj__`."""
    if depth > 60:
        return {'o': 'too-deep'}
    if isinstance(o, bytearray):
        return {'d': [['__obj__', 'bytearray'], ['data', {'b': bytes(o).hex()}]]}
    if isinstance(o, Box):
        return {'d': [['__obj__', 'Box']] + [[k, wire(v, depth + 1)] for k, v in vars(o).items()]}
    if isinstance(o, cabc.Mapping):
        return {'d': [[I.wire(k), wire(v, depth + 1)] for k, v in o.items()]}
    if isinstance(o, list):
        return [wire(x, depth + 1) for x in o]
    if isinstance(o, tuple):
        return {'t': [wire(x, depth + 1) for x in o]}
    if isinstance(o, cabc.Set):
        return {'set': sorted((wire(x, depth + 1) for x in o), key=canon)}
    return I.wire(o)


def block_of(root):
    """The object graph below `root` as a model block (cell 0 = root): one cell per object, an atom per
    occurrence. Returns (cells, {id: index})."""
    cells, idx = [], {}

    def add(o):
        if is_atom(o):
            cells.append({'leaf': I.leaf_wire(o)})
            return len(cells) - 1
        if id(o) in idx:
            return idx[id(o)]
        i = idx[id(o)] = len(cells)
        cells.append(None)
        if isinstance(o, bytearray):
            cells[i] = {'obj': ['bytearray', [['data', add(bytes(o))]]]}
        elif isinstance(o, Box):
            cells[i] = {'obj': ['Box', [[k, add(v)] for k, v in vars(o).items()]]}
        elif isinstance(o, cabc.Mapping):
            cells[i] = {'dict': [[k, add(v)] for k, v in o.items()]}
        elif isinstance(o, tuple):
            cells[i] = {'tuple': [add(x) for x in o]}
        elif isinstance(o, cabc.Set):
            cells[i] = {'set': [add(x) for x in sorted(o, key=lambda x: canon(I.wire(x)))]}
        else:
            cells[i] = {'list': [add(x) for x in o]}
        return i
    add(root)
    return cells, idx


def lit_block(v):
    return block_of(copy.deepcopy(v))[0]


# ---------------------------------------------------------------------------------------------
# case generation
# ---------------------------------------------------------------------------------------------

ATOMS = [0, 1, 7, 'a', 'xy', True, None]


def gen_spec(rng, depth, kind=None, labels=None, plain=False):
    pool = ['atom', 'list', 'dict', 'list', 'set', 'tuple'] + ([] if plain else ['ba', 'box'])
    kind = kind or rng.choice(pool if depth > 0 else ['atom'])
    if kind == 'atom':
        return rng.choice(ATOMS)
    if labels and rng.random() < 0.12:
        return {'ref': rng.choice(labels)}          # the same object a second time
    n = 0 if rng.random() < 0.15 else rng.randint(1, 3)
    if kind == 'ba':
        s = {'ba': bytes(rng.choice(b'abcxyz') for _ in range(n)).hex()}
    elif kind == 'set':
        s = {'s': sorted({rng.choice([0, 1, 2, 'a', 'b']) for _ in range(n)}, key=repr)}
    elif kind == 'list':
        s = {'l': [gen_spec(rng, depth - 1, labels=labels, plain=plain) for _ in range(n)]}
    elif kind == 'tuple':
        s = {'t': [gen_spec(rng, depth - 1, labels=labels, plain=plain) for _ in range(max(n, 1))]}
    elif kind == 'dict':
        s = {'d': [[f'm{j}', gen_spec(rng, depth - 1, labels=labels, plain=plain)] for j in range(n)]}
    else:
        s = {'box': [[f'f{j}', gen_spec(rng, depth - 1, labels=labels, plain=plain)] for j in range(n)]}
    if labels is not None:
        s['id'] = f'o{len(labels)}'
        labels.append(s['id'])
    return s


def child_mutations(rng, name, val, path=None, depth=0):
    """In-place changes of the object `val` the child holds under `name` (+ path): [(py source line | step, op)]."""
    path = [name] if path is None else path
    expr = path[0] + ''.join(f'[{p!r}]' for p in path[1:])
    W = rng.choice([99, 'ch', [5], {'q': 1}])
    out = []
    if isinstance(val, bytearray):
        new = bytes(val) + b'!'
        out.append(('py', f'{expr}[:] = {new!r}', {'o': 'attrSetAt', 'path': list(path), 'k': 'data', 'b': [{'leaf': {'b': new.hex()}}]}))
    elif isinstance(val, Box):
        out.append(('py', f'{expr}.tag = {W!r}', {'o': 'attrSetAt', 'path': list(path), 'k': 'tag', 'b': lit_block(W)}))
    elif isinstance(val, list):
        if len(path) == 1 and rng.random() < 0.3:
            # pypyr.steps.append: in place only if the list is truthy, else a new list is bound
            op = ({'o': 'appendAt', 'path': list(path), 'b': lit_block(W)} if val
                  else {'o': 'setKey', 'key': name, 'b': lit_block([W])})
            out.append(('step', {'name': 'pypyr.steps.append', 'in': {'append': {'list': name, 'addMe': W}}}, op))
        else:
            out.append(('py', f'{expr}.append({W!r})', {'o': 'appendAt', 'path': list(path), 'b': lit_block(W)}))
        if depth < 2:
            for i, x in enumerate(val):
                if not is_atom(x) and rng.random() < 0.6:
                    out = child_mutations(rng, name, x, path + [i], depth + 1) + out      # inner first: indices stay valid
    elif isinstance(val, tuple):
        for i, x in enumerate(val):
            if not is_atom(x) and depth < 2:
                out += child_mutations(rng, name, x, path + [i], depth + 1)
    elif isinstance(val, dict):
        out.append(('py', f"{expr}['zz'] = {W!r}", {'o': 'dictSetAt', 'path': list(path), 'k': 'zz', 'b': lit_block(W)}))
        if depth < 2:
            for k, x in val.items():
                if not is_atom(x) and rng.random() < 0.5:
                    out += child_mutations(rng, name, x, path + [k], depth + 1)
    elif isinstance(val, set):
        a = rng.choice([0, 5, 'a', 'zz'])
        out.append(('py', f'{expr}.add({a!r})', {'o': 'addAt', 'path': list(path), 'b': lit_block(a)}))
    return out


def gen_case(rng, force=None):
    """force: None | 'ff' | 'single' | 'leaf' - what the args must (only) contain."""
    labels = []
    nkeys = rng.randint(1, 4)
    kinds = {'ff': ['list', 'dict', 'set', 'tuple'], 'single': ['list', 'dict', 'set', 'tuple', 'atom'],
             'leaf': ['ba', 'box', 'list']}.get(force)
    plain = force in ('ff', 'single')        # no opaque object anywhere
    parent = {'d': [[f'p{j}', gen_spec(rng, 2, kind=rng.choice(kinds) if kinds else None, labels=labels, plain=plain)]
                    for j in range(nkeys)]}
    pobj = build(parent)
    args, reads = {}, []          # reads: (arg path in child, parent key path, how)
    names = []
    for j, (k, v) in enumerate(pobj.items()):
        if rng.random() < 0.8 or not names:
            how = force if force in ('ff', 'single') else rng.choice(['single', 'single', 'rf', 'ff', 'sub', 'subff'])
            if force == 'leaf':
                how = rng.choice(['single', 'rf'])
            sp = [k]
            if how in ('sub', 'subff') and isinstance(v, (dict, list, tuple)) and len(v) > 0:
                sub = rng.choice(list(v)) if isinstance(v, dict) else rng.randrange(len(v))
                sp = [k, sub]
                text = '{%s[%s]%s}' % (k, sub, ':ff' if how == 'subff' else '')
                how = 'ff' if how == 'subff' else 'single'
            else:
                how = {'sub': 'single', 'subff': 'ff'}.get(how, how)
                text = '{%s%s}' % (k, {'single': '', 'rf': ':rf', 'ff': ':ff'}[how])
            name = f'x{j}'
            if rng.random() < 0.25:      # one dict down
                args.setdefault('sub', {})[name] = text
                reads.append((['sub', name], sp, how))
            else:
                args[name] = text
                reads.append(([name], sp, how))
            names.append(name)
    if force is None and rng.random() < 0.5:
        args['lit'] = rng.choice([[1, [2]], {'a': [0]}, 5, []])
    # the child's steps
    steps, cops = [], []
    for apath, sp, how in reads:
        val = pobj
        for p in sp:
            val = val[p]
        for kind, what, op in child_mutations(rng, apath[-1], val, path=list(apath)):
            if kind == 'py':
                steps.append({'name': 'pypyr.steps.py', 'in': {'py': what}})
                cops.append(op)
            elif len(apath) == 1:
                steps.append(what)
                for key in what.get('in', {}):      # the step's own `in` argument comes and goes
                    cops.append({'o': 'setKey', 'key': key, 'b': lit_block(what['in'][key])})
                cops.append(op)
                for key in what.get('in', {}):
                    cops.append({'o': 'unsetIn', 'key': key})
    if 'lit' in args and isinstance(args['lit'], list):
        steps.append({'name': 'pypyr.steps.py', 'in': {'py': 'lit.append(3)'}})
        cops.append({'o': 'appendAt', 'path': ['lit'], 'b': lit_block(3)})
    made = rng.choice([[1, [2]], {'k': []}, 'done'])
    steps.append({'name': 'pypyr.steps.py', 'in': {'py': f"made = {made!r}\nsave('made')"}})
    cops.append({'o': 'setKey', 'key': 'made', 'b': lit_block(made)})
    ending = rng.choice(['ok'] * 4 + ['raise', 'raise-swallowed'])
    if ending != 'ok':
        steps.append({'name': 'pypyr.steps.py', 'in': {'py': "raise ValueError('child fails')"}})
    # out
    ckeys = [k for k in args if k != 'sub'] + ['made']
    c = rng.random()
    if c < 0.15:
        out = None
    elif c < 0.35:
        out = rng.choice(ckeys)
    elif c < 0.7:
        out = rng.sample(ckeys, rng.randint(1, min(3, len(ckeys))))
    else:
        out = {('got' + k if rng.random() < 0.7 else rng.choice(list(pobj))): k for k in rng.sample(ckeys, rng.randint(1, min(2, len(ckeys))))}
    if out is not None and rng.random() < 0.06:
        out = ['made', 'nosuchkey']
    return {'kind': KIND, 'parent': parent, 'args': args, 'reads': [[a, s, h] for a, s, h in reads], 'steps': steps,
            'cops': cops, 'ending': ending, 'out': out, 'explicit': rng.random() < 0.6}


def directed():
    lst = {'d': [['lst', {'l': [1], 'id': 'o0'}], ['n', 7]]}

    def case(parent, args, reads, steps, cops, out=None, ending='ok'):
        return {'kind': KIND, 'parent': parent, 'args': args, 'reads': reads, 'steps': steps, 'cops': cops,
                'ending': ending, 'out': out, 'explicit': True}
    app = [{'name': 'pypyr.steps.py', 'in': {'py': 'x.append(99)'}}]
    appop = [{'o': 'appendAt', 'path': ['x'], 'b': [{'leaf': 99}]}]
    yield case(lst, {'x': '{lst:ff}'}, [[['x'], ['lst'], 'ff']], app, appop), 'directed:ff'
    yield case(lst, {'x': '{lst}'}, [[['x'], ['lst'], 'single']], app, appop), 'directed:single'
    yield case(lst, {'x': '{lst:rf}'}, [[['x'], ['lst'], 'rf']], app, appop, out='x'), 'directed:rf'
    yield case(lst, {'x': '{n:ff}'}, [[['x'], ['n'], 'ff']], [], [], out=['x']), 'directed:ff-atom'
    nested = {'d': [['d', {'d': [['k', {'l': [1], 'id': 'o1'}]], 'id': 'o0'}]]}
    yield case(nested, {'x': '{d[k]:ff}'}, [[['x'], ['d', 'k'], 'ff']], app, appop), 'directed:ff-subscript'
    buf = {'d': [['buf', {'ba': '6162', 'id': 'o0'}], ['box', {'l': [{'ref': 'o0'}], 'id': 'o1'}]]}
    yield case(buf, {'x': '{buf}'}, [[['x'], ['buf'], 'single']], [{'name': 'pypyr.steps.py', 'in': {'py': "x[:] = b'ab!'"}}],
               [{'o': 'attrSetAt', 'path': ['x'], 'k': 'data', 'b': [{'leaf': {'b': '616221'}}]}]), 'directed:bytearray'
    yield case(buf, {'x': '{box}'}, [[['x'], ['box'], 'single']], [{'name': 'pypyr.steps.py', 'in': {'py': "x[0][:] = b'ab!'"}}],
               [{'o': 'attrSetAt', 'path': ['x', 0], 'k': 'data', 'b': [{'leaf': {'b': '616221'}}]}]), 'directed:bytearray-in-list'
    box = {'d': [['o', {'box': [['f0', {'l': [1], 'id': 'o1'}]], 'id': 'o0'}]]}
    yield case(box, {'x': '{o}'}, [[['x'], ['o'], 'single']], [{'name': 'pypyr.steps.py', 'in': {'py': 'x.tag = 5'}}],
               [{'o': 'attrSetAt', 'path': ['x'], 'k': 'tag', 'b': [{'leaf': 5}]}], out={'back': 'x'}), 'directed:user-object'
    yield case(lst, {'x': '{lst}'}, [[['x'], ['lst'], 'single']], app + [{'name': 'pypyr.steps.py', 'in': {'py': "raise ValueError('child fails')"}}],
               appop, out='x', ending='raise-swallowed'), 'directed:child-raises-swallowed'
    yield case(lst, {'x': '{lst:ff}'}, [[['x'], ['lst'], 'ff']], app + [{'name': 'pypyr.steps.py', 'in': {'py': "raise ValueError('child fails')"}}],
               appop, out='x', ending='raise'), 'directed:child-raises'


def cases(env):
    rng = env.rng
    yield from directed()
    for j in range(env.n(140, 2500)):
        yield gen_case(rng, force=[None, None, 'ff', 'single', 'leaf'][j % 5]), 'random'


# ---------------------------------------------------------------------------------------------
# one case on both sides
# ---------------------------------------------------------------------------------------------

def out_pairs(out):
    if out is None:
        return []
    if isinstance(out, str):
        return [[out, out]]
    if isinstance(out, list):
        return [[k, k] for k in out]
    return [[pk, ck] for pk, ck in out.items()]


def model_sched(case, pcells):
    skeleton = copy.deepcopy(case['args'])
    for apath, _, _ in case['reads']:
        d = skeleton
        for p in apath[:-1]:
            d = d[p]
        d.pop(apath[-1], None)            # bound by fmtFrom below
    sched = [[1, {'o': 'start', 'b': pcells}], [2, {'o': 'start', 'b': lit_block(skeleton)}]]
    for apath, sp, how in case['reads']:
        sched.append([2, {'o': 'fmtFrom', 'src': 1, 'sp': sp, 'path': apath[:-1], 'k': apath[-1], 'byRef': how == 'ff'}])
    sched += [[2, op] for op in case['cops']]
    if case['ending'] != 'ok':
        sched.append([2, {'o': 'fail'}])
    else:
        sched += [[1, {'o': 'fmtFrom', 'src': 2, 'sp': [ck], 'path': [], 'k': pk, 'byRef': False}]
                  for pk, ck in out_pairs(case['out'])]
    if case['ending'] == 'raise':
        sched.append([1, {'o': 'fail'}])
    return sched


def check_case(env, res, sb, case, tag='replay'):
    pobj = build(case['parent'])
    pcells, pidx = block_of(pobj)
    pype = {'name': 'child', 'args': case['args']}
    if case['explicit'] or not case['args']:
        pype['useParentContext'] = False
    if case['out'] is not None:
        pype['out'] = case['out']
    if case['ending'] == 'raise-swallowed':
        pype['raiseError'] = False
    pipes = {'parent': {'parser': None, 'steps': ['vobs', {'name': 'pypyr.steps.pype', 'in': {'pype': pype}}, 'vobs']},
             'child': {'parser': None, 'steps': ['vobs'] + case['steps'] + ['vobs']}}
    sb.install(pipes, {})
    seen = []          # (context object, deep value) at every probe

    def hook(context):
        seen.append((context, wire(dict(context))))
    sb.vobs.HOOK = hook
    try:
        outcome, ctx = sb.run('parent', dict_in=pobj)
    finally:
        sb.vobs.HOOK = None
    parent_ctx = seen[0][0] if seen else sb.last_live
    before = seen[0][1] if seen else None
    child_ctx = next((c for c, _ in seen[1:] if c is not parent_ctx), None)
    res.case(case)
    res.count('pype-heap:' + tag)
    res.count('pype-heap:ending:' + case['ending'])
    res.count('pype-heap:outcome:' + ('ok' if outcome == 'ok' else outcome['err']))
    for _, _, how in case['reads']:
        res.count('pype-heap:arg:' + how)
    if before is None or child_ctx is None or parent_ctx is None:
        res.mismatch(case, None, {'outcome': outcome}, note='the pype step did not reach the child pipeline')
        return
    after = wire(dict(parent_ctx))
    child_after = wire(dict(child_ctx))
    # ---- monitor from the property text
    outs = out_pairs(case['out']) if case['ending'] == 'ok' else []
    okeys = {pk for pk, _ in outs} | {'pype', 'runErrors'}      # a child error is recorded by the failing pype step
    strip = lambda w: I.norm({'d': [kv for kv in w['d'] if kv[0] not in okeys]})      # noqa: E731
    shared_ids = [i for i in reach(child_ctx) if i in reach(parent_ctx) and not deep_immutable(reach(child_ctx)[i])]
    res.count('pype-heap:cases-with-a-mutable-object-shared-by-child-and-parent', 1 if shared_ids else 0)
    if canon(strip(before)) != canon(strip(after)):
        objs = [reach(child_ctx)[i] for i in shared_ids]
        ff_used = any(h == 'ff' for _, _, h in case['reads'])
        if any(not isinstance(o, (cabc.Mapping, list, tuple, cabc.Set)) for o in objs):
            sig = SIG_LEAF
        elif ff_used and objs:
            sig = SIG_FF
        else:
            sig = SIG_OTHER
        if ff_used and sig is SIG_LEAF and any(isinstance(o, (cabc.Mapping, list, cabc.Set)) for o in objs):
            # both causes at once: report the container handed over by :ff as well
            res.violation(case, 'the child changed a container of the parent it was given through {key:ff}',
                          signature=SIG_FF, impl={'before': before, 'after': after})
        from .c12 import diff_path
        res.violation(case, f'own-context pype, out={case["out"]!r}: the parent context changed at '
                      f'{diff_path(strip(before), strip(after))} although that key is not named in out; the child and the '
                      f'parent share {len(objs)} mutable object(s) by reference: {[type(o).__name__ for o in objs][:4]}',
                      signature=sig, impl={'before': before, 'after': after, 'args': case['args']})
    if outcome == 'ok' and case['ending'] == 'ok':
        for pk, ck in outs:
            cw = dict(child_after['d']).get(ck) if isinstance(child_after, dict) else None
            pw = {canon(k): v for k, v in after['d']}.get(canon(pk))
            if canon(I.norm(cw)) != canon(I.norm(pw)):
                res.violation(case, f'after the child completed, parent[{pk!r}] is not the child\'s value of {ck!r}',
                              signature={'site': 'pype.out', 'monitor': 'out-value-differs'}, impl={'parent': pw, 'child': cw})
    # ---- model
    sched = model_sched(case, pcells)
    m = env.driver.ask('heap.runExec', defs=[], cfg=[{'dict': []}], sched=sched, final=True)
    problems = []
    last = {st['r']: st for st in m['final']}
    dead_parent = last[1]['dead']
    want_fail = case['ending'] == 'raise' or ('nosuchkey' in canon(case['out']) and case['ending'] == 'ok')
    if (outcome != 'ok') != dead_parent or dead_parent != want_fail:
        problems.append(f'outcome: implementation {outcome}, model parent run over={dead_parent}')
    na = [i for i, st in enumerate(m['steps']) if not st['applied'] and sched[i][1]['o'] != 'fail'
          and not (st['dead'] and want_fail)]
    if na:
        problems.append(f'model: operation {na[0]} {sched[na[0]]} does not apply')
    mparent, mchild = last[1]['ctx'], last[2]['ctx']
    drop = lambda w: {'d': [kv for kv in w['d'] if kv[0] not in ('pype', 'runErrors', 'py')]} if isinstance(w, dict) and 'd' in w else w  # noqa: E731
    # `out` of a key the child was given by :ff formats an object graph that spans both regions; the model's
    # formatting operation copies ONE region (exact whenever separation holds, i.e. on the theorem's domain)
    ff_names = {a[0] for a, _, h in case['reads'] if h == 'ff'}
    exact = not any(ck in ff_names for _, ck in outs)
    if not exact:
        res.count('pype-heap:out-of-an-ff-argument (model compared on the child only)')
    if exact and not I.same(drop(mparent), drop(after)):
        problems.append('parent context after the step differs')
    if not I.same(drop(mchild), drop(child_after)):
        problems.append('child context at its end differs')
    mforeign = sorted(x['i'] for x in last[2]['foreign'] if x.get('g') == 'run' and x.get('n') == 1)
    iforeign = sorted(pidx[i] for i in reach(child_ctx) if i in pidx and i != id(pobj))
    if mforeign != iforeign:
        problems.append(f'objects of the parent the child reaches: model {mforeign}, implementation {iforeign}')
    # (the record of a failed step - runErrors, with the exception object - and the steps' own arguments aside)
    pids = reach([v for k, v in parent_ctx.items() if k not in ('runErrors', 'pype')])
    cids = reach([v for k, v in child_ctx.items() if k not in ('runErrors', 'py')])
    i_p2c = any(i in pids and i not in pidx and not deep_immutable(o) for i, o in cids.items())
    m_p2c = bool(last[1]['foreign'])
    if exact and i_p2c != m_p2c:
        problems.append(f'the parent reaches an object the child made: model {m_p2c}, implementation {i_p2c}')
    if problems:
        res.mismatch(case, {'problems': problems[:4], 'parent': mparent, 'child': mchild},
                     {'outcome': outcome, 'parent': after, 'child': child_after}, note=problems[0])


CASE_TIMEOUT_S = 20.0


class _Timeout(BaseException):
    pass


def _run_cases(env, res, todo):
    """Every case with a wall-clock limit: a pype step that does not come back, or an exception out of the
    code under test outside the run, is a broken correspondence with that case as its input."""
    import signal
    import threading
    can_alarm = hasattr(signal, 'SIGALRM') and threading.current_thread() is threading.main_thread()

    def on_alarm(signum, frame):
        raise _Timeout()
    old = signal.signal(signal.SIGALRM, on_alarm) if can_alarm else None
    sb = I.Sandbox()
    broken = 0
    try:
        for case, tag in todo:
            if env.out_of_time() or broken >= 5:
                break
            try:
                if can_alarm:
                    signal.setitimer(signal.ITIMER_REAL, CASE_TIMEOUT_S)
                try:
                    check_case(env, res, sb, case, tag)
                finally:
                    if can_alarm:
                        signal.setitimer(signal.ITIMER_REAL, 0)
            except _Timeout:
                broken += 1
                res.case(case)
                res.mismatch(case, {'returns': True}, {'returns': False},
                             note=f'a pype step did not finish within {CASE_TIMEOUT_S:.0f}s (the model\'s runs all end)')
                sb.close()
                if env._driver is not None:
                    env._driver.close()
                    env._driver = None
                sb = I.Sandbox()
            except (common.Infra, common.Reject, KeyboardInterrupt):
                raise
            except Exception as e:      # noqa: BLE001 - raised outside the run (loader, sandbox): not classified
                broken += 1
                res.case(case)
                res.mismatch(case, None, {'raised': type(e).__name__, 'msg': str(e)[:300]},
                             note=f'outside the run the implementation raised {type(e).__name__}: {str(e)[:160]}')
                sb.close()
                sb = I.Sandbox()
    finally:
        if can_alarm:
            signal.setitimer(signal.ITIMER_REAL, 0)
            signal.signal(signal.SIGALRM, old)
        sb.close()


def run(env, res):
    _run_cases(env, res, list(cases(env)))


def replay(env, res, case):
    case = case.get('case', case) if isinstance(case, dict) and 'kind' not in case else case
    _run_cases(env, res, [(case, 'replay')])
