"""C01 - step-groups in order, fail fast, success/failure routing.

Theorems: lean/Props/C01.lean over the flow interpreter model (lean/PypyrModel/Flow/*).
Tie: every case runs on the model (pmdriver) and on the real pypyr (in-process, generated .yaml
files loaded through the real file loader, probe step `vprobe`); directed families carry an
expectation computed from the property text alone (harness/floworacle.py) that judges the
implementation's observation; random programs (harness/flowgen.py) are compared observable by
observable and checked against generic invariants.
"""
from .. import flowcheck
from .. import floworacle as fo
from .. import floworacle_r3 as f3
from .. import floworacle_r4 as f4
from .. import floworacle_r5 as f5

LEAN_MODULES = ['Props.C01', 'Props.Agreement']
TRUSTED = ['harness/flow_impl.py (yaml renderer, canonicaliser, virtual clock, scripted random.uniform)',
           'harness/probe/vprobe.py (probe step) and its model probeStep',
           'harness/floworacle.py (directed expectations written from the property text)',
           'CPython, ruamel.yaml (modelled, not verified)']
ASSUMPTIONS = ['formatting inside decorators is restricted to the simple {key} grammar of PypyrModel/Fmt.lean',
               'context keys are strings; dict keys never mix bool/int/float',
               'log output (not the log LEVEL: that is a generated input), real time and BaseException other than Exception subclasses are outside the observables']


def run(env, res):
    res.rule = ('directed families (expectation from the property text) first, then seeded random pipelines '
                '(1-3 pipelines, 1-4 groups, 0-4 steps per group, decorators with p~0.25 each, foreach items incl. '
                'None/0/\'\'/False/[]/{}, 12% with a malformed group body or sequence item, 35% written in another '
                'yaml layout: flow style, JSON, first step on line 1, other indentation, single-quoted / plain / block scalars, anchors + aliases, merge keys; every 4th case runs with the root logger at DEBUG, every 8th at INFO, every 8th at NOTIFY - the log level is an input); a case is '
                'non-trivial when the model accepts it and it terminates; distinct by canonical program text')
    directed = [('c04-value-forms', f5.c04_value_forms_rss, env.n(260, 100000)),
                ('c01-handler-hands-over', f4.c01_handover_family, env.n(150, 100000)),
                ('c01-straight', fo.c01_family, env.n(400, 100000)), ('c01-random-straight', fo.c01_random_straight, env.n(300, 6000)),
                ('c01-malformed-failure-group', fo.c01_malformed_failure_family, env.n(120, 100000)),
                ('c01-malformed-group', fo.c01_malformed_group_family, env.n(60, 100000)),
                ('c01-names', fo.c01_names_family, env.n(60, 100000)),
                ('c01-error-values', fo.c01_error_values_family, env.n(44, 100000)),
                ('c07-big-counts', f3.c07_big_family, env.n(8, 100000)),
                ('c06-odd-errors', f3.c06_odd_errors_family, env.n(40, 100000))]
    flowcheck.run_streams(env, res, directed, env.n(400, 100000), weights={'fail': 5, 'stop': 1, 'stopstepgroup': 1, 'stoppipeline': 1},
                          random_monitor=flowcheck.monitor_all)


def replay(env, res, case):
    flowcheck.replay_case(env, res, case)
